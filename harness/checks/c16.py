"""C16 - operators inside the documented constraints run on the NPU, operators outside stay on the CPU,
and the report lists exactly the constraint set the compiler enforces.

At check time the working tree generates its own SUPPORTED_OPS.md (`python -m ethosu.vela
--supported-ops-report` in a scratch directory); harness/supported_report.py parses it into the
constants of spec/SupportedOps.tla (module SupportedOpsReport, written next to copies of the
specification in the scratch directory).

MC/S2C : SupportedOpsGen.tla - TLC enumerates the case set (per numeric constraint lo-1 .. hi+1 around a
         nominal instance, categorical values, pairs of simultaneous violations), checks the design-level
         invariants on it and prints every case; the driver builds the single-operator network (and a
         variant with CPU-only neighbours), compiles it for ethos-u55-128 and ethos-u65-256.
C2S    : SupportedOpsTrace.tla - every observed placement (ethos-u operator present / operator preserved
         unchanged, read from the output file with the plain parser) is compared with Expect(case).
Lists  : every constraint docstring of the enforced lists appears in the report under the operator it is
         enforced for, and vice versa.
"""
import json
import os
import random
import shutil

from .. import flatmodel, netgen, supported_report as sr, tlc, vela_run
from ..common import Run, MachineryError, SPEC, seed, ensure_repo_on_path
from .c11 import tla_graph, infer_absorbed

ACCELS = ["ethos-u55-128", "ethos-u65-256"]
ALL_ACCELS = ["ethos-u55-128", "ethos-u65-256", "ethos-u55-32", "ethos-u55-64", "ethos-u55-256", "ethos-u65-512"]
FAF = {"NONE": 0, "RELU": 1, "RELU_N1_TO_1": 2, "RELU6": 3, "TANH": 4, "SIGN_BIT": 5}
TT = {"int8": "INT8", "uint8": "UINT8", "int16": "INT16", "int32": "INT32", "float32": "FLOAT32", "int64": "INT64"}
MODULES = ["SupportedOps.tla", "SupportedOpsGen.tla", "SupportedOpsTrace.tla", "SupportedOpsGen.cfg", "SupportedOpsGenDesign.cfg",
           "SupportedOpsGenPairs.cfg", "SupportedOpsTrace.cfg"]


# ------------------------------------------------------------------------------------------------
# the report of the working tree -> TLA+ constants
# ------------------------------------------------------------------------------------------------
def prepare_spec(run, md=None, mutate=None):
    d = run.tmpdir("c16spec")
    if md is None:
        md = sr.generate(d)
    parsed = sr.parse(md)
    K, listed, unmodelled = sr.constants(parsed)
    if mutate:
        mutate(K, listed)
    for m in MODULES:
        shutil.copy(os.path.join(SPEC, m), os.path.join(d, m))
    with open(os.path.join(d, "SupportedOpsReport.tla"), "w") as f:
        f.write(sr.to_tla_module(K, listed, unmodelled, parsed["table"]))
    return d, md, parsed, K, listed, unmodelled


def cases_from_tlc(run, d, pairs):
    res = tlc.run("SupportedOpsGen", "SupportedOpsGenPairs.cfg" if pairs else "SupportedOpsGen.cfg", workers=1,
                  timeout=1200, cwd=d, coverage=False)
    if not res.ok:
        raise MachineryError("SupportedOpsGen: TLC status %s (%s)\n%s" % (res["status"], res.get("violated"), res["output"][-3000:]))
    run.add_mc("SupportedOpsGen(%s)" % ("pairs" if pairs else "single"), res)
    cases = [json.loads(tlc.parse_value(p)[1]) for p in res["printed"] if p.startswith('<<"CASE"')]
    if len(cases) != res["distinct"]:
        raise MachineryError("case emission incomplete: %d printed, %d states" % (len(cases), res["distinct"]))
    ok = [c for c in cases if well_formed(c)]
    run.cov["ill_formed_cases_skipped"] = run.cov.get("ill_formed_cases_skipped", 0) + len(cases) - len(ok)
    return ok


def well_formed(rec):
    """A case is buildable only if every size is positive (constants of an odd report can produce others)."""
    c = rec["c"]
    nums = [c[k] for k in ("b", "h", "w", "c", "kh", "kw", "sh", "sw", "dh", "dw", "oc", "mult", "wic", "bbits")]
    dims = list(c["s1"]) + list(c["s2"]) + list(c["so"]) + list(rec.get("ofm", []))
    if c["op"] in ("CONV_2D", "DEPTHWISE_CONV_2D", "MAX_POOL_2D", "AVERAGE_POOL_2D"):
        dims += [rec["oh"], rec["ow"]]
    return all(isinstance(x, int) and x >= 1 for x in nums + dims) and all(0 <= a < len(c["s1"]) for a in c["axes"])


def validate(d, events, timeout=1800):
    """SupportedOpsTrace in the scratch spec directory (same protocol as tlc.validate_traces)."""
    path = os.path.join(d, "trace.ndjson")
    with open(path, "w") as f:
        for e in events:
            f.write(json.dumps(e, separators=(",", ":")) + "\n")
    res = tlc.run("SupportedOpsTrace", "SupportedOpsTrace.cfg", workers=1, timeout=timeout, heap="4g", cwd=d,
                  env={"TRACE_FILE": path})
    if not res.ok:
        raise MachineryError("SupportedOpsTrace: TLC status %s\n%s" % (res["status"], res["output"][-4000:]))
    verdicts = [p for p in res["printed"] if p.startswith('<<"VERDICT"')]
    if not verdicts:
        raise MachineryError("SupportedOpsTrace: no VERDICT line\n" + res["output"][-2000:])
    viol = []
    for v in verdicts:
        for item in json.loads(tlc.parse_value(v)[1] or "[]"):
            if item not in viol:
                viol.append(item)
    return res, viol


# ------------------------------------------------------------------------------------------------
# case -> network
# ------------------------------------------------------------------------------------------------
def _fm(n, name, shape, dt, scale, zp, quant=True, is_input=False, per_axis=False):
    if dt == "float32" or not quant:
        return n.fm(name, shape, TT[dt], None, is_input=is_input)
    if dt == "uint8":
        zp = 128 + zp
    if dt in ("int16", "int32"):
        zp = 0
    i = n.fm(name, shape, TT[dt], scale, zp, is_input=is_input)
    if per_axis and shape:
        k = shape[-1]
        n.t[i]["scale"] = [scale * (1 + 0.1 * (j % 3)) for j in range(k)]
        n.t[i]["zp"] = [zp] * k
        n.t[i]["qdim"] = len(shape) - 1
    return i


def _weights(n, c, shape, nch, qdim):
    wt = c["wt"]
    per = c["paq"] == "weights"
    ns = nch if per else 1
    scale = [0.01 + 0.001 * (i % 5) for i in range(ns)]
    zp0 = 128 if wt == "uint8" else 0
    zp = [zp0 + (c["wzp"] if wt == "int8" else 0)] * ns
    if not c["wconst"]:
        i = n.fm("w", shape, TT[wt], 0.01, zp[0], is_input=True)
        return i
    if c["wfill"] == "max":
        data = {"fill": 127}
    elif c["wfill"] == "small":
        data = {"rng": 5, "lo": -1, "hi": 1}
    elif wt == "uint8":
        data = {"rng": 7, "lo": 0, "hi": 255}
    elif wt == "int16":
        data = {"rng": 7, "lo": -1000, "hi": 1000}
    else:
        data = {"rng": 7, "lo": -127, "hi": 127}
    return n.const("w", shape, TT[wt], scale=scale, zp=zp, qdim=qdim if per else None, data=data)


def _bias(n, c, nch):
    bt = c["bt"]
    if bt == "none":
        return None
    shape = [nch] if c["brank"] == 1 else [1, nch]
    if bt == "int64":
        top = (1 << (c["bbits"] - 1)) + 5
        data = [top] + [(-1) ** k * (1000 + k) for k in range(1, nch)]
    else:
        data = [(-1) ** k * (100 + k) for k in range(nch)]
    return n.const("bias", shape, TT[bt], scale=[0.0005], zp=[0], data=data)


def build_case(rec, variant):
    """rec = {"c": case record, "oh", "ow", "ofm"} as printed by TLC.  variant: "single" (the operator alone),
    "sandwich" (third-party CUSTOM operators before and after: CPU-only neighbours) or "npu" (NPU-able
    element-wise neighbours before and after, so the operator sits inside / next to an NPU region).
    The operator under test always produces the tensor named 'y'."""
    c = rec["c"]
    op = c["op"]
    n = netgen.Net(3)

    def ifm(name, shape, dt, scale=0.05, zp=0, per_axis=False):
        if variant == "single":
            return _fm(n, name, shape, dt, scale, zp, is_input=True, per_axis=per_axis)
        src = _fm(n, name + "_src", shape, dt, scale, zp, is_input=True, per_axis=per_axis)
        t = _fm(n, name, shape, dt, scale, zp, per_axis=per_axis)
        if variant == "sandwich":
            n.op("CUSTOM", [src], [t], custom_code="CpuOnlyBefore", custom_options=[1])
        else:
            n.op("ADD", [src, src], [t], ["AddOptions", {"FusedActivationFunction": 0}])
        return t

    if op in ("CONV_2D", "DEPTHWISE_CONV_2D", "MAX_POOL_2D", "AVERAGE_POOL_2D"):
        x = ifm("x", [c["b"], c["h"], c["w"], c["c"]], c["dt"])
        och = c["oc"] if op == "CONV_2D" else c["c"] * c["mult"] if op == "DEPTHWISE_CONV_2D" else c["c"]
        same_q = op in ("MAX_POOL_2D", "AVERAGE_POOL_2D")
        y = _fm(n, "y", [c["b"], rec["oh"], rec["ow"], och], c["odt"], 0.05 if same_q else 0.07, 0 if same_q else -5,
                quant=c["hasq"])
        pad = 0 if c["pad"] == "SAME" else 1
        if op == "CONV_2D":
            w = _weights(n, c, [c["oc"], c["kh"], c["kw"], c["wic"]], c["oc"], 0)
            b = _bias(n, c, c["oc"])
            n.op(op, [x, w] + ([b] if b is not None else []), [y],
                 ["Conv2DOptions", {"Padding": pad, "StrideW": c["sw"], "StrideH": c["sh"], "DilationWFactor": c["dw"],
                                    "DilationHFactor": c["dh"], "FusedActivationFunction": FAF[c["faf"]]}])
        elif op == "DEPTHWISE_CONV_2D":
            w = _weights(n, c, [1, c["kh"], c["kw"], och], och, 3)
            b = _bias(n, c, och)
            n.op(op, [x, w] + ([b] if b is not None else []), [y],
                 ["DepthwiseConv2DOptions", {"Padding": pad, "StrideW": c["sw"], "StrideH": c["sh"],
                                             "DepthMultiplier": c["mult"], "DilationWFactor": c["dw"],
                                             "DilationHFactor": c["dh"], "FusedActivationFunction": FAF[c["faf"]]}])
        else:
            n.op(op, [x], [y], ["Pool2DOptions", {"Padding": pad, "StrideW": c["sw"], "StrideH": c["sh"],
                                                  "FilterWidth": c["kw"], "FilterHeight": c["kh"],
                                                  "FusedActivationFunction": FAF[c["faf"]]}])
    elif op in ("ADD", "SUB", "MUL"):
        x = ifm("x", c["s1"], c["dt"], per_axis=c["paq"] == "ifm")
        x2 = _fm(n, "x2", c["s2"], c["dt2"], 0.03, 2, is_input=True)
        y = _fm(n, "y", c["so"], c["odt"], 0.1, -1, quant=c["hasq"])
        n.op(op, [x, x2], [y], [{"ADD": "AddOptions", "SUB": "SubOptions", "MUL": "MulOptions"}[op],
                               {"FusedActivationFunction": FAF[c["faf"]]}])
    elif op == "FULLY_CONNECTED":
        x = ifm("x", c["s1"], c["dt"])
        w = _weights(n, c, [c["oc"], c["wic"]], c["oc"], 0)
        b = _bias(n, c, c["oc"])
        y = _fm(n, "y", c["so"], c["odt"], 0.1, 0, quant=c["hasq"])
        n.op(op, [x, w] + ([b] if b is not None else []), [y],
             ["FullyConnectedOptions", {"FusedActivationFunction": FAF[c["faf"]], "KeepNumDims": bool(c["knd"])}])
    elif op == "RESHAPE":
        x = ifm("x", c["s1"], c["dt"])
        if c["sconst"]:
            s = n.const("shape", [len(c["so"])], "INT32", data=list(c["so"]))
        else:
            s = n.fm("shape", [len(c["so"])], "INT32", None, is_input=True)
        y = _fm(n, "y", c["so"], c["odt"], 0.05 if c["qmatch"] else 0.08, 0, quant=c["hasq"])
        n.op(op, [x, s], [y], ["ReshapeOptions", {"NewShape": list(c["so"])}])
    elif op == "SQUEEZE":
        x = ifm("x", c["s1"], c["dt"])
        y = _fm(n, "y", c["so"], c["odt"], 0.05 if c["qmatch"] else 0.08, 0, quant=c["hasq"])
        n.op(op, [x], [y], ["SqueezeOptions", {"SqueezeDims": [0]}])
    elif op == "EXPAND_DIMS":
        x = ifm("x", c["s1"], c["dt"])
        ax = n.const("axis", [], "INT32", data=[0])
        y = _fm(n, "y", c["so"], c["odt"], 0.05 if c["qmatch"] else 0.08, 0, quant=c["hasq"])
        n.op(op, [x, ax], [y], ["ExpandDimsOptions", {}])
    elif op == "MEAN":
        x = ifm("x", c["s1"], c["dt"])
        ax = n.const("axes", [len(c["axes"])], "INT32", data=list(c["axes"]))
        y = _fm(n, "y", rec["ofm"], c["odt"], 0.05, 0, quant=c["hasq"])
        n.op(op, [x, ax], [y], ["ReducerOptions", {"KeepDims": bool(c["keep"])}])
    else:
        raise MachineryError("no builder for " + op)
    if variant != "single":
        z = _fm(n, "z", n.t[y]["shape"], c["odt"], 0.07, -5, quant=c["hasq"])
        if variant == "sandwich":
            n.op("CUSTOM", [y], [z], custom_code="CpuOnlyAfter", custom_options=[2])
        else:
            n.op("ADD", [y, y], [z], ["AddOptions", {"FusedActivationFunction": 0}])
        return n.desc([z])
    return n.desc([y])


# ------------------------------------------------------------------------------------------------
# observation
# ------------------------------------------------------------------------------------------------
def observe(op, in_bytes, out_bytes):
    """Where did the operator producing 'y' go?  "CPU": still an operator of the output model (+ whether verbatim);
    "NPU": gone, and explained by an ethos-u operator (same inference as C11's absorbed claim);
    "LOST": neither."""
    S = tla_graph(flatmodel.abstract(in_bytes))
    O = tla_graph(flatmodel.abstract(out_bytes))
    idx = next(i for i, o in enumerate(S["ops"], 1) if o["outs"] and o["outs"][0] == "y")
    src = S["ops"][idx - 1]
    kept = [o for o in O["ops"] if o["code"] == src["code"] and o["outs"] == src["outs"]]
    if kept:
        diff = [f for f in ("ver", "opts", "copt", "ins", "cdat") if kept[0][f] != src[f]]
        return "CPU", not diff and len(kept) == 1, diff
    if any(idx in a for a in infer_absorbed(S, O)):
        return "NPU", True, []
    return "LOST", True, []


def failure_signature(r):
    """Stable name of a failed compilation: exception type and where it was raised, or the compiler's error line."""
    tb = [ln.strip() for ln in (r.get("exc") or "").splitlines() if ln.strip()]
    if tb:
        where = [ln for ln in tb if ln.startswith("File ")]
        loc = where[-1].split(",")[-1].strip() if where else "?"
        return "%s @ %s" % (tb[-1].split(":")[0][:60], loc)
    if r.get("timeout"):
        return "timeout"
    lines = [ln.strip() for ln in (r.get("stdout", "") + r.get("stderr", "")).splitlines() if ln.strip()]
    errs = [ln for ln in lines if ln.startswith("Error")]
    return (errs[-1] if errs else (lines[-1] if lines else "no output"))[:100]


def vela_reason(stdout):
    """What the compiler itself printed about the operator producing 'y' (used to name a finding)."""
    lines = stdout.splitlines()
    for i, ln in enumerate(lines):
        if "'y'" in ln and ("Placing on CPU" in ln or "is a CPU only op" in ln):
            nxt = lines[i + 1].strip() if i + 1 < len(lines) else ""
            return nxt[2:].strip()[:120] if nxt.startswith("- ") else ln.strip()[:120]
        if "'y'" in ln and "asymmetric weights" in ln:
            return "asymmetric weights (needs --force-symmetric-int-weights)"
    return "no reason printed"


# ------------------------------------------------------------------------------------------------
# "the report lists exactly the constraint set the compiler enforces"
# ------------------------------------------------------------------------------------------------
def enforced_lists():
    """{operator name: {"generic": [docstrings], "specific": [docstrings]}} from the constraint lists the
    compiler iterates over (TFLiteSemantic / TFLiteSupportedOperators of the working tree)."""
    ensure_repo_on_path()
    from ethosu.vela.tflite_model_semantic import TFLiteSemantic
    from ethosu.vela.tflite_supported_operators import TFLiteSupportedOperators
    from ethosu.vela.tflite_mapping import builtin_operator_map, builtin_operator_name_map
    sem, sup = TFLiteSemantic(), TFLiteSupportedOperators()
    out = {}
    norm = sr._norm
    for code, ent in builtin_operator_map.items():
        iop = ent[0]
        if iop not in TFLiteSupportedOperators.supported_operators:
            continue
        name = builtin_operator_name_map[code]
        sem_ex = TFLiteSemantic.get_generic_constraint_exclude_list().get(iop, [])
        sup_ex = sup.generic_constraints_exceptions[iop] if iop in sup.generic_constraints_exceptions else []
        gen = [norm(k.__doc__) for k in sem.generic_constraints if k not in sem_ex]
        gen += [norm(k.__doc__) for k in sup.generic_constraints if k not in sup_ex]
        spec = [norm(k.__doc__) for k in sem.specific_constraints.get(iop, [])]
        spec += [norm(k.__doc__) for k in sup.specific_constraints.get(iop, [])]
        out[name] = {"generic": gen, "specific": spec}
    return out


def check_lists(run, parsed):
    enf = enforced_lists()
    rep_ops = set(parsed["table"])
    n = 0
    for op in sorted(rep_ops | set(enf)):
        n += 1
        if op not in enf:
            run.violation("ReportMatchesLists|%s|listed-but-not-supported" % op,
                          "%s is in the report's table but no supported operator maps to it" % op, {"op": op})
            continue
        if op not in rep_ops:
            run.violation("ReportMatchesLists|%s|supported-but-not-listed" % op,
                          "%s is handled by the supported-operator checks but missing from the report" % op, {"op": op})
            continue
        rep_gen = sorted(t for t, ex in parsed["generic"] if op not in ex)
        rep_spec = sorted(parsed["specific"].get(op, []))
        for kind, rep, code in (("generic", rep_gen, sorted(enf[op]["generic"])),
                                ("specific", rep_spec, sorted(enf[op]["specific"]))):
            if rep != code:
                only_rep = [t for t in rep if t not in code]
                only_code = [t for t in code if t not in rep]
                run.violation("ReportMatchesLists|%s|%s" % (op, kind),
                              "%s %s constraints: only in the report %s; only enforced %s" % (op, kind, only_rep, only_code),
                              {"op": op, "report": rep, "enforced": code})
    run.cov["lists_compared"] = n
    return n


# ------------------------------------------------------------------------------------------------
def run_cases(run, d, recs, variants, accels):
    jobs, meta = [], []
    for i, rec in enumerate(recs):
        for v in variants:
            for a in accels(i):
                try:
                    net = build_case(rec, v)
                except MachineryError:
                    raise
                except Exception as e:
                    raise MachineryError("cannot build case %s: %r" % (rec["c"], e))
                jobs.append({"id": len(jobs), "net": net, "opts": {"accel": a}})
                meta.append({"rec": rec, "variant": v, "accel": a})
    results = vela_run.compile_many(jobs, timeout=900)
    events, failed = [], {}
    for job, m, r in zip(jobs, meta, results):
        run.evaluated()
        if r["rc"] != 0 or not r.get("out_bytes"):
            sig = failure_signature(r)
            failed.setdefault(sig, []).append((m["rec"]["c"]["op"], m["rec"]["c"]["axis"]))
            m.update(observed="FAIL", unchanged=True, diff=[], reason=sig, t=len(events))
            events.append({"t": len(events), "c": m["rec"]["c"], "observed": "FAIL", "unchanged": True})
            continue
        obs, unchanged, diff = observe(m["rec"]["c"]["op"], r["in_bytes"], r["out_bytes"])
        m.update(observed=obs, unchanged=unchanged, diff=diff, reason=vela_reason(r["stdout"]), t=len(events))
        events.append({"t": len(events), "c": m["rec"]["c"], "observed": obs, "unchanged": unchanged})
    return jobs, meta, events, failed


def report_violations(run, viol, meta, jobs):
    by_t = {m["t"]: (m, j) for m, j in zip(meta, jobs) if "t" in m}
    for t, kind, failing in viol:
        m, j = by_t[t]
        c = m["rec"]["c"]
        if kind == "ViolatesButNpu":
            key = "ViolatesButNpu|%s|%s" % (c["op"], "+".join(sorted(failing)))
            what = "%s violates the listed constraint(s) %s yet runs on the NPU" % (c["op"], sorted(failing))
        elif kind == "SatisfiesButCpu":
            key = "SatisfiesButCpu|%s|%s" % (c["op"], m["reason"])
            what = "%s satisfies every listed constraint yet stays on the CPU; compiler says: %s" % (c["op"], m["reason"])
        elif kind == "ViolatesButFails":
            key = "ViolatesButFails|%s|%s|%s" % (c["op"], "+".join(sorted(failing)), m["reason"])
            what = ("%s violates the listed constraint(s) %s, so the report promises CPU placement, but the compilation "
                    "fails: %s" % (c["op"], sorted(failing), m["reason"]))
        elif kind == "OperatorLost":
            key = "OperatorLost|%s" % c["op"]
            what = "%s is neither preserved in the output model nor explained by an ethos-u operator" % c["op"]
        elif kind == "SatisfiesButFails":
            key = "SatisfiesButFails|%s|%s" % (c["op"], m["reason"])
            what = "%s satisfies every listed constraint but the compilation fails: %s" % (c["op"], m["reason"])
        else:
            key = "CpuNotUnchanged|%s|%s" % (c["op"], ",".join(m.get("diff", [])))
            what = "%s stays on the CPU but is rewritten (%s)" % (c["op"], m.get("diff"))
        run.violation(key, "%s [axis %s%s, %s, %s] case=%s" % (
            what, c["axis"], "+" + c["axis2"] if c["axis2"] else "", m["variant"], m["accel"],
            json.dumps({k: v for k, v in c.items() if v not in ("", [], None)}, sort_keys=True)[:600]),
            {"net": j["net"], "opts": j["opts"], "case": m["rec"], "variant": m["variant"]})


GOLDEN_DIR = os.path.join(os.path.dirname(os.path.dirname(os.path.abspath(__file__))), "golden")


def regen_golden():
    """Maintenance (run by hand on the unchanged tree after changing the case record layout):
    /venv/bin/python -c "from harness.checks import c16; c16.regen_golden()"  (cwd /verif)."""
    run = Run("C16", "quick")
    try:
        d = run.tmpdir("c16gold")
        md = sr.generate(d)
        with open(os.path.join(GOLDEN_DIR, "SUPPORTED_OPS.golden.md"), "w") as f:
            f.write(md)
        d, *_ = prepare_spec(run, md)
        cases = cases_from_tlc(run, d, False)
        keep = [c for c in cases if c["expect"] in ("NPU", "CPU") and
                c["c"]["axis"] in ("nominal", "kernel_h", "stride_h", "stride_w", "dim_h", "dim_w", "batch", "dtype",
                                   "mean_axes", "mean_width", "quant_differs")]
        ev = [{"t": k, "c": c["c"], "observed": c["expect"], "unchanged": True} for k, c in enumerate(keep)]
        with open(os.path.join(GOLDEN_DIR, "c16_events.json"), "w") as f:
            json.dump({"_comment": "synthetic placements that agree with SUPPORTED_OPS.golden.md (observed := Expect); base of "
                                   "C16's negative controls, independent of the tree under test", "events": ev}, f)
        print("golden: %d events" % len(ev))
    finally:
        run.cleanup()


def negative_controls(run):
    """Frozen inputs only (harness/golden): a report generated by the unchanged tree and placements that agree with it.
    (i) the golden placements are accepted; (ii) every flipped placement is rejected; (iii) a report whose range
    constants are off by one makes golden placements inconsistent.  Nothing depends on the tree under test."""
    import copy
    with open(os.path.join(GOLDEN_DIR, "SUPPORTED_OPS.golden.md")) as f:
        md = f.read()
    with open(os.path.join(GOLDEN_DIR, "c16_events.json")) as f:
        good = json.load(f)["events"]
    d, *_ = prepare_spec(run, md)
    des = tlc.run("SupportedOpsGen", "SupportedOpsGenDesign.cfg", workers=1, timeout=900, cwd=d)
    if not des.ok:
        raise MachineryError("design-level invariants of SupportedOpsGen fail on the golden report: %s %s\n%s" % (
            des["status"], des.get("violated"), des["output"][-1500:]))
    run.add_mc("SupportedOpsGen(design invariants, golden report)", des)
    _, v0 = validate(d, good)
    if v0:
        raise MachineryError("negative control: golden placements rejected under the golden report (%s)" % v0[:3])
    flipped = []
    for e in good:
        if e["c"]["axis"] == "nominal":
            f = copy.deepcopy(e)
            f["observed"] = "CPU" if e["observed"] == "NPU" else "NPU"
            f["t"] = len(flipped)
            flipped.append(f)
    lost = dict(copy.deepcopy(good[0]), observed="LOST", t=len(flipped))
    _, v = validate(d, flipped + [lost])
    if len({x[0] for x in v}) != len(flipped) + 1 or not flipped:
        raise MachineryError("negative control: flipped placements not rejected (%s)" % v)

    def shift(K, listed):
        K["DilHHi"] = {k: x + 1 for k, x in K["DilHHi"].items()}
        K["MpHHi"] -= 1
        K["DimHi"] -= 1
        K["PsHi"] += 1
        K["DwSHi"] -= 1
        K["MeanWMax"] += 1
    d2, *_ = prepare_spec(run, md, mutate=shift)
    _, v2 = validate(d2, good)
    kinds = {x[1] for x in v2}
    if not {"SatisfiesButCpu", "ViolatesButNpu"} <= kinds:
        raise MachineryError("negative control: report constants shifted by one were not detected (%s)" % v2)

    def unlist(K, listed):          # a constraint vanishes from the report but is still enforced
        listed["RESHAPE"] = [x for x in listed["RESHAPE"] if x != "rs_quant"]
        listed["CONV_2D"] = [x for x in listed["CONV_2D"] if x != "batch"]
    d3, *_ = prepare_spec(run, md, mutate=unlist)
    _, v3 = validate(d3, good)
    if not any(x[1] == "SatisfiesButCpu" for x in v3):
        raise MachineryError("negative control: a constraint missing from the report was not detected (%s)" % v3)
    run.cov["negative_controls"] = ["golden placements accepted (%d)" % len(good),
                                    "flipped placement x%d, lost operator" % len(flipped),
                                    "report constants shifted by one: %d inconsistencies" % len(v2),
                                    "constraint removed from the report only: %d inconsistencies" % len(v3)]


def main(tier, only=None):
    run = Run("C16", tier)
    try:
        return _main(run, tier)
    except BaseException:
        run.cleanup()          # scratch directories must not outlive a machinery error
        raise


def _main(run, tier):
    sd = seed()
    rng = random.Random(sd)
    try:
        d, md, parsed, K, listed, unmodelled = prepare_spec(run)
    except MachineryError as e:
        if "supported-ops-report failed" not in str(e):
            raise
        run.violation("ReportGeneration|failed", "the working tree cannot generate its supported-operators report: %s"
                      % str(e)[-300:], {})
        negative_controls(run)
        return run.finish()
    for op in sr.COVERED:
        if op not in parsed["table"]:
            run.violation("ReportMatchesLists|%s|missing-from-report" % op, "%s is not in the generated report" % op, {})
    check_lists(run, parsed)
    quick = tier == "quick"
    cases = cases_from_tlc(run, d, pairs=not quick)
    single = [c for c in cases if not c["c"]["axis2"]]
    pairs = [c for c in cases if c["c"]["axis2"]]
    rng.shuffle(pairs)
    if quick:
        jobs, meta, events, failed = run_cases(run, d, single, ["single"], lambda i: [ACCELS[i % 2]])
        # every case again inside an NPU region, and a slice of them between CPU-only neighbours
        extra = [r for k, r in enumerate(single) if k % 4 == sd % 4]
        j2, m2, e2, f2 = run_cases(run, d, single, ["npu"], lambda i: [ACCELS[(i + 1) % 2]])
        j3, m3, e3, f3 = run_cases(run, d, extra, ["sandwich"], lambda i: [ACCELS[i % 2]])
    else:
        jobs, meta, events, failed = run_cases(run, d, single, ["single", "sandwich", "npu"], lambda i: ALL_ACCELS)
        j2, m2, e2, f2 = run_cases(run, d, pairs[:4000], ["single"], lambda i: [ALL_ACCELS[i % 6], ALL_ACCELS[(i + 3) % 6]])
        j3, m3, e3, f3 = run_cases(run, d, pairs[4000:5000], ["npu"], lambda i: [ALL_ACCELS[i % 6]])
    for jb, mb, eb, fb in ((j2, m2, e2, f2), (j3, m3, e3, f3)):
        for m in mb:
            if "t" in m:
                m["t"] += len(events)
        for e in eb:
            e["t"] += len(events)
        jobs, meta, events = jobs + jb, meta + mb, events + eb
        for k, v in fb.items():
            failed.setdefault(k, []).extend(v)
    nfail = sum(len(v) for v in failed.values())
    res, viol = validate(d, events)
    run.add_trace_run("SupportedOpsTrace", res, len(events))
    report_violations(run, viol, meta, jobs)
    # ---- vacuity: every numeric / categorical constraint kind of a covered operator was hit on both sides
    hit = {}
    for m in meta:
        if m.get("observed") in ("NPU", "CPU"):
            r = m["rec"]
            for cid in r["failing"]:
                hit.setdefault((r["c"]["op"], cid), set()).add(m["observed"])
            run.nontrivial((r["c"]["op"], r["c"]["axis"], r["c"]["axis2"], tuple(r["failing"]), m["variant"], m["accel"][:9]))
    exp = {e: sum(1 for m in meta if m["rec"]["expect"] == e) for e in ("NPU", "CPU", "ANY")}
    for x in (m for m in meta if m.get("observed") in ("NPU", "CPU")):
        if len(run.cov["samples"]) < 6 and x["rec"]["c"]["axis"] in ("kernel_h", "stride_w", "dim_h", "broadcast"):
            run.sample({"case": {k: v for k, v in x["rec"]["c"].items() if v not in ("", [], None)},
                        "expect": x["rec"]["expect"], "failing": x["rec"]["failing"], "observed": x["observed"],
                        "accel": x["accel"], "variant": x["variant"]})
    negative_controls(run)
    run.cov["expectations"] = exp
    run.cov["constraint_kinds_exercised"] = sorted("%s:%s" % k for k in hit)
    run.cov["not_compiled"] = {k: v[:6] for k, v in failed.items()}
    run.cov["unmodelled_report_text"] = unmodelled
    run.cov["report_constants"] = {k: v for k, v in K.items() if not isinstance(v, dict)}
    run.cov["rule"] = ("cases = elements of Cases in SupportedOps.tla enumerated by TLC from the constants parsed out of the "
                       "report the working tree generates; each case is compiled as a one-operator network (and with "
                       "CPU-only neighbours) for ethos-u55-128 / ethos-u65-256; non-trivial = distinct "
                       "(operator, axis, failing constraints, variant, accelerator family) with an observed placement")
    run.assumptions += [
        "constraint kinds the generated networks always satisfy (attributes present, static shapes, finite scales, "
        "integer strides) are taken as holding",
        "'Tensors must be of type' / 'int32' / 'dimensions' are read as statements about IFM, IFM2, weights and OFM (not bias)",
        "wording that does not decide a case (stride width > 3 criteria, 40-bit bias magnitude, batch of tensors with "
        "fewer than 4 dimensions, FC '2D output') gives Expect = ANY: no verdict",
    ]
    return run.finish()


def replay(path):
    rp = json.load(open(path))["replay"]
    if "net" not in rp:
        print("nothing to replay for", path)
        return 0
    r = vela_run.compile_many([{"id": 0, "net": rp["net"], "opts": rp["opts"]}])[0]
    if r["rc"] != 0 or not r.get("out_bytes"):
        print("did not compile:", (r.get("exc") or r["stdout"])[-400:])
        return 2
    obs, unchanged, diff = observe(rp["case"]["c"]["op"], r["in_bytes"], r["out_bytes"])
    print("expected by the report: %s (failing %s); observed: %s unchanged=%s; compiler says: %s" % (
        rp["case"]["expect"], rp["case"]["failing"], obs, unchanged, vela_reason(r["stdout"])))
    bad = (rp["case"]["expect"] == "NPU" and obs == "CPU") or (rp["case"]["expect"] == "CPU" and obs == "NPU") or \
          (obs == "CPU" and not unchanged)
    return 1 if bad else 0
