"""C07 - weight compression is lossless, hardware-ordered and memory-safe.

MC  : WeightOrderMC.tla - the declarative hardware traversal WeightOrder!Order(c) is a bijection onto the source
      volume plus pads for every configuration of a small lattice (both traversals, depthwise, 8/16 bit, both
      micro-block shapes, block depths, dilation, decomposing kernels).  Negative control: NeverPads is violated.
S2C : the configurations TLC visited (state dump of the MC run) are replayed through the *real* C code of the
      working tree (api.npu_encode_weights -> mlw_codec.reorder_encode, built by harness/codec.py with gcc and with
      clang -fsanitize=address,undefined) with index-valued weights; the exhaustive family of short raw sequences
      and generated long sequences / volumes from mode-forcing distributions go through mlw_codec.encode /
      npu_encode_weights.
C2S : every observation {cfg, weights, decode(stream), stream length, outcome} is a line of an ndjson batch validated
      by MlwTrace.tla: TLC decides  decoded = Reordered(cfg, weights) ++ zeros, length % 16 = 0, out-of-range =>
      rejected, and that the short-sequence family is exhaustive.  Volumes too large for TLC are compared in the
      worker with harness/weight_order.py, a Python rendering of Order that TLC cross-checks against
      WeightOrder!Order in the same run (trace kind xcheck).
Memory safety is *observed*, not decided by TLC: the same requests run against the sanitizer build in a subprocess
(LD_PRELOAD of the ASan runtime); a sanitizer report, assert abort or signal is an outcome "crashed".
"""
import json
import os
import random
import re
import subprocess
import threading
import time
from concurrent.futures import ThreadPoolExecutor

from .. import codec, tlc, weight_order
from ..common import PY, VERIF, MachineryError, Run, seed

ALPHA = [-255, -2, -1, 0, 1, 2, 255]
ACCS = ["U55_32", "U55_64", "U55_128", "U55_256", "U65_256", "U65_512"]
DISTS = ["pal2", "pal4", "pal16", "pal32", "pal33", "pal40", "uniform9", "uniform8", "sparse", "verysparse", "laplace",
         "switch", "restart", "allzero", "const", "extremes", "zeroone", "sparse_big", "index", "sindex"]
WORST = ["paltail", "paltail60", "paltail52"]        # maximise bits per weight (output-buffer sizing of the encoder)
HOLE_WIDTHS = [8, 16, 24, 32, 48]
DISTS += ["hole%d%s" % (w_, v) for w_ in HOLE_WIDTHS for v in ("", "p", "z", "pz")]
DISTS += WORST
MODES = ["palette", "direct", "zero_runs", "uncompressed", "wtrunc", "grc_switch", "palette_restart", "slice_32767"]
MAX_VIOLATIONS_PER_CLAUSE = 12
MAX_CRASHES_PER_SHARD = 4
DIED = ("crashed", "undecodable")


def asan_env():
    p = subprocess.run(["clang", "-print-file-name=libclang_rt.asan-x86_64.so"], capture_output=True, text=True)
    lib = p.stdout.strip()
    if p.returncode != 0 or not os.path.exists(lib):
        raise MachineryError("cannot locate the ASan runtime (clang -print-file-name=libclang_rt.asan-x86_64.so)")
    return {"LD_PRELOAD": lib, "ASAN_OPTIONS": "detect_leaks=0:abort_on_error=0:allocator_may_return_null=1",
            "UBSAN_OPTIONS": "print_stacktrace=1:halt_on_error=1"}


def crash_signature(rc, err):
    m = re.search(r"SUMMARY: AddressSanitizer: (\S+) \S+ in (\S+)", err)
    if m:
        fn = m.group(2)
        # a crash inside CPython on behalf of the codec wrapper: name the codec frame as well
        fr = re.search(r"in (method_\w+|mlw_\w+) ", err)
        return "asan:%s in %s%s" % (m.group(1), fn, (" <- " + fr.group(1)) if fr and fr.group(1) != fn else "")
    m = re.search(r"SUMMARY: AddressSanitizer: (\S+)", err)
    if m:
        return "asan:" + m.group(1)
    m = re.search(r"([\w.]+):\d+:\d+: runtime error: ([^\n]*)", err)
    if m:
        return "ubsan:%s: %s" % (m.group(1), re.sub(r"0x[0-9a-f]+|\d{3,}", "N", m.group(2)))
    m = re.search(r"(\w+): Assertion `([^']*)' failed", err)
    if m:
        return "assert:%s: %s" % (m.group(1), m.group(2))
    if "bitbuf_getbit: underrun" in err:
        return "decoder:bitbuf underrun"
    return "signal %d" % -rc if rc < 0 else "exit %d" % rc


def private_builds(run):
    """gcc and sanitizer builds of the working tree's codec, copied into the run's scratch directory (the shared
    build cache under /verif/.cache may be cleaned by somebody else while a long run is in progress)."""
    import shutil
    d = run.tmpdir("c07so")
    out = {}
    for name, san in (("gcc", False), ("asan", True)):
        for attempt in range(3):
            src = codec.build(sanitize=san)
            try:
                out[name] = shutil.copy(src, os.path.join(d, os.path.basename(src)))
                break
            except OSError:
                if attempt == 2:
                    raise MachineryError("codec build %s vanished from the cache" % src)
    return out


def crash_excerpt(err):
    keep = [ln for ln in err.splitlines() if re.search(
        r"ERROR: AddressSanitizer|^(READ|WRITE) of size|^\s+#[0-3] |SUMMARY:|Assertion|runtime error|is located|"
        r"ERROR: weight out of range|underrun", ln)]
    txt = "\n".join(keep[:14]) or err[-600:]
    # no process ids / addresses: the text is part of the replay file identity
    return re.sub(r"0x[0-9a-f]+", "0xN", re.sub(r"==\d+==", "==pid==", txt))


def run_jobs(run, so, jobs, asan, nproc=8, timeout=3000):
    """Run jobs in worker subprocesses; returns {id: result}.  A job during which the process died gets
    {"id", "outcome": "crashed", "signature": ...}; the remaining jobs of that shard are restarted."""
    if not jobs:
        return {}
    d = run.tmpdir("c07w")
    env = dict(os.environ)
    env["PYTHONPATH"] = VERIF
    if asan:
        env.update(asan_env())
    shards = [jobs[i::nproc] for i in range(nproc)]
    results = {}
    lock = threading.Lock()

    def work(si):
        todo = list(shards[si])
        attempt = stuck = 0
        while todo:
            attempt += 1
            jp = os.path.join(d, "j%d_%d.json" % (si, attempt))
            op = os.path.join(d, "o%d_%d.ndjson" % (si, attempt))
            with open(jp, "w") as f:
                json.dump(todo, f)
            p = subprocess.run([PY, "-m", "harness.c07_worker", so, jp, op], cwd=VERIF, env=env, capture_output=True,
                               text=True, timeout=timeout, errors="replace")
            started, done, decoding = [], {}, set()
            if os.path.exists(op):
                with open(op) as f:
                    for ln in f:
                        try:
                            o = json.loads(ln)
                        except ValueError:
                            continue        # torn last line of a dead process
                        if "start" in o:
                            started.append(o["start"])
                        elif "decoding" in o:
                            decoding.add(o["decoding"])
                        else:
                            done[o["id"]] = o
            with lock:
                results.update(done)
            rest = [j for j in todo if j["id"] not in done]
            if not rest:
                if p.returncode != 0:
                    raise MachineryError("c07 worker exited %d after finishing: %s" % (p.returncode, p.stderr[-1500:]))
                return
            culprit = [s for s in started if s not in done]
            if not culprit:
                raise MachineryError("c07 worker died outside a request (rc %d): %s" % (p.returncode, p.stderr[-2500:]))
            if "Traceback (most recent call last)" in p.stderr and "AddressSanitizer" not in p.stderr \
                    and "runtime error" not in p.stderr and p.returncode == 1:
                raise MachineryError("c07 worker raised: " + p.stderr[-2500:])
            cid = culprit[-1]
            with lock:
                # died inside the reference decoder: the encoder returned a stream that cannot be decoded
                results[cid] = {"id": cid, "outcome": "undecodable" if cid in decoding else "crashed",
                                "signature": crash_signature(p.returncode, p.stderr),
                                "stderr_tail": crash_excerpt(p.stderr + "\n" + p.stdout), "len": 0}
            todo = [j for j in rest if j["id"] != cid]
            stuck = stuck + 1 if not done else 0
            if stuck >= MAX_CRASHES_PER_SHARD or attempt >= 60:
                # the build dies on request after request without completing any: each death found so far is
                # reported; the rest of the shard is not run (main() insists that a run with skipped requests has
                # violations).  Isolated deaths between successful requests do not stop the shard.
                with lock:
                    for j in todo:
                        results[j["id"]] = {"id": j["id"], "outcome": "skipped"}
                return

    with ThreadPoolExecutor(nproc) as ex:
        list(ex.map(work, range(nproc)))
    return results


# ------------------------------------------------------------------ request generation
def random_cfg(rng, max_padded, big=False):
    for _ in range(1000):
        acc = rng.choice(ACCS)
        iub, oub = weight_order.UBLOCKS[acc]
        trav = rng.choice(["depth", "part", "dw"])
        cfg = {"acc": acc, "trav": trav, "bits": rng.choice([8, 16]), "dily": rng.choice([1, 1, 2]),
               "dilx": rng.choice([1, 1, 2]), "oblk": oub * rng.choice([1, 1, 2, 2, 3, 4, 8])}
        if big:
            cfg["kh"], cfg["kw"] = rng.choice([(1, 1), (3, 3), (3, 3), (5, 5), (7, 7), (1, 9), (9, 2), (2, 2), (11, 3)])
            cfg["od"] = rng.choice([8, 16, 24, 64, 100, 128, 256, 257, 512])
            cfg["id"] = 1 if trav == "dw" else rng.choice([3, 8, 16, 24, 32, 33, 64, 100, 128, 256, 512])
        else:
            cfg["kh"], cfg["kw"] = rng.choice([(1, 1), (1, 1), (3, 3), (2, 3), (3, 1), (5, 5), (9, 1), (1, 10), (4, 4),
                                               (7, 7), (17, 1), (2, 2)])
            cfg["od"] = rng.randrange(1, 70)
            cfg["id"] = 1 if trav == "dw" else rng.randrange(1, 70)
        n = cfg["od"] * cfg["kh"] * cfg["kw"] * cfg["id"]
        if big and not (20000 <= n <= 1100000):
            continue
        if weight_order.valid(cfg) and (big or weight_order.order_offsets(cfg).size <= max_padded):
            return cfg
    raise MachineryError("no configuration found")


def cfg_ident(cfg):
    return ",".join("%s=%s" % (k, cfg[k]) for k in ("acc", "trav", "bits", "od", "kh", "kw", "id", "oblk", "dily", "dilx"))


def job_ident(job):
    s = ("vol(" + cfg_ident(job["cfg"]) + ")") if job.get("cfg") else "raw"
    if "w" in job:
        w = job["w"]
        return s + "|w=" + (json.dumps(w, separators=(",", ":")) if len(w) <= 12 else "literal[%d]" % len(w))
    g = job["gen"]
    s += "|gen=%s,n=%s,seed=%s" % (g["dist"], job.get("n", "vol"), g.get("seed", 0))
    if job.get("poke"):
        s += "|%s with %s" % (job.get("dtype", "int16"), ",".join("w[%d]=%d" % (p_, v) for p_, v in job["poke"]))
    return s


def entry_of(job):
    return "npu_encode_weights" if job.get("cfg") else "mlw_codec.encode"


def mc_configs(run, cfgname, workers):
    """Model-check WeightOrderMC and return the configurations TLC visited (stage = 1 states of the dump)."""
    d = run.tmpdir("c07mc")
    dump = os.path.join(d, "states")
    res = tlc.must_ok(tlc.run("WeightOrderMC", cfgname, workers=workers, timeout=3000, dump=dump), "WeightOrderMC " + cfgname)
    path = dump if os.path.exists(dump) else dump + ".dump"
    cfgs = []
    txt = open(path).read()
    for m in re.finditer(r"/\\ c = (\[[^\]]*\])\s*/\\ stage = 1|/\\ stage = 1\s*/\\ c = (\[[^\]]*\])", txt):
        c = tlc.parse_value(m.group(1) or m.group(2))
        acc = "U55_32" if c["oub"] == 4 else "U55_128"
        cfgs.append({"acc": acc, "trav": c["trav"], "bits": c["bits"], "od": c["od"], "kh": c["kh"], "kw": c["kw"],
                     "id": c["id"], "oblk": c["oblk"], "dily": c["dily"], "dilx": c["dilx"]})
    if len(cfgs) != res["distinct"] - _count_init(txt):
        raise MachineryError("state dump of WeightOrderMC not understood: %d configs, %d states" % (len(cfgs), res["distinct"]))
    return res, cfgs


def _count_init(txt):
    return len(re.findall(r"/\\ stage = 0", txt))


def expected_mc_states(cfgtext):
    """Number of stage-1 states the lattice must produce (vacuity control: TLC evaluated every configuration)."""
    def cset(name):
        m = re.search(r"CONSTANT %s = \{([^}]*)\}" % name, cfgtext)
        return [int(x) for x in m.group(1).split(",")]
    ods, ids, khs, kws, blks = (cset(n) for n in ("OfmDepths", "IfmDepths", "KernelHs", "KernelWs", "BlockDepths"))
    kernels = {(h, w) for h in khs for w in kws}
    if "Decomposing = TRUE" in cfgtext:
        kernels |= {(9, 1), (1, 9), (5, 5)}
    total = set()
    for od in ods:
        for idp in ids:
            for (kh, kw) in kernels:
                dil = [(1, 1), (2, 2)] if kh <= 4 and kw <= 4 else [(1, 1), (1, 2), (2, 1), (2, 2)]
                for oub in (4, 8):
                    for blk in blks:
                        if blk % oub and od > blk:
                            continue
                        for bits in (8, 16):
                            for dy, dx in dil:
                                total.add((od, idp, kh, kw, oub, blk, bits, dy, dx, "depth"))
                                total.add((od, idp, kh, kw, oub, blk, bits, dy, dx, "part"))
                                if idp == 1:
                                    total.add((od, 1, kh, kw, oub, blk, bits, dy, dx, "dw"))
    return len(total), len(ods) * len(ids) * len(kernels)


# ------------------------------------------------------------------ trace validation
def validate(run, name, events, parallel=4):
    """Split a batch into `parallel` TLC runs balanced by the amount of data.  Returns violations as lists
    (trace ids are those of the records, which are unique over the whole batch)."""
    events = sorted(events, key=lambda e: -(len(e.get("dec", ())) + len(e.get("order", ())) * 3))
    parts = [[] for _ in range(parallel)]
    load = [0] * parallel
    for e in events:
        k = load.index(min(load))
        parts[k].append(e)
        load[k] += len(e.get("dec", ())) + len(e.get("order", ())) * 3 + 50
    batches = [p for p in parts if p]
    out = []

    def one(b):
        return tlc.validate_traces("MlwTrace", "MlwTrace.cfg", b, timeout=3000, heap="6g")

    with ThreadPoolExecutor(max(1, len(batches))) as ex:
        for b, (res, viol) in zip(batches, ex.map(one, batches)):
            run.add_trace_run("MlwTrace(%s)" % name, res, len(b))
            out += viol
    return out


class Collector:
    """Turns TLC verdicts / python comparisons into run.violation calls with stable keys."""

    def __init__(self, run):
        self.run = run
        self.count = {}

    def add(self, clause, job, build, detail, extra=None):
        """extra = crash signature when the process died.  Key = stable identity of the failing case: clause, entry
        point, and either how the process died (all out-of-range inputs that die the same way are one case) or
        the request itself."""
        ident = job_ident(job)
        literal = "w" in job and len(job["w"]) <= 12
        if extra and clause == "OutOfRangeRejected":
            key = "%s|%s|crash|%s" % (clause, entry_of(job), extra)
        elif extra:
            key = "%s|%s|%s|crash|%s" % (clause, entry_of(job), ident if literal else "generated", extra)
        else:
            key = "%s|%s|%s" % (clause, entry_of(job), ident)
        self.count[clause] = self.count.get(clause, 0) + 1
        if self.count[clause] > MAX_VIOLATIONS_PER_CLAUSE:
            return
        self.run.violation(key, "%s: %s on %s [%s build] %s" % (clause, entry_of(job), ident, build, detail),
                           {"job": {k: v for k, v in job.items() if k != "id"}, "build": build, "clause": clause})


def event_of(job, res, t):
    ev = {"t": t, "kind": "vol" if job.get("cfg") else "raw", "w": res.get("w", job.get("w", [])),
          "outcome": res["outcome"], "dec": res.get("dec", []), "len": res.get("len", 0)}
    if job.get("cfg"):
        ev["cfg"] = job["cfg"]
    return ev


def replay_requests(run, col, name, jobs, builds, nproc):
    """Run `jobs` on every build; TLC-sized results become trace events (identical observations of the two builds
    are validated once), python-compared results are judged here.  Returns (events, meta, stats)."""
    by_build = {}
    with ThreadPoolExecutor(len(builds)) as ex:
        futs = {b: ex.submit(run_jobs, run, so, jobs, b == "asan", nproc) for b, so in builds.items()}
        for b, f in futs.items():
            by_build[b] = f.result()
    events, meta = [], {}
    modes = {}
    for job in jobs:
        seen = []
        for b in builds:
            r = by_build[b].get(job["id"])
            if r is None:
                raise MachineryError("request %s has no result on build %s" % (job_ident(job), b))
            if r["outcome"] == "skipped":
                run.cov["skipped_after_crashes"] = run.cov.get("skipped_after_crashes", 0) + 1
                continue
            run.evaluated()
            for m in r.get("modes", ()):
                modes[m] = modes.get(m, 0) + 1
            if r["outcome"] in DIED or job.get("mode") != "py":
                if r["outcome"] in DIED and "w" not in r:
                    # weights are needed by TLC to decide which clause a crash violates
                    from ..c07_worker import request_weights
                    if "w" in job and not job.get("poke"):
                        r["w"] = job["w"]
                    else:
                        c = job.get("cfg")
                        n = c["od"] * c["kh"] * c["kw"] * c["id"] if c else job["n"]
                        r["w"] = request_weights(job).tolist() if n <= 20000 else []
                        if n > 20000:       # too large for a trace line: in-range by construction of the generators
                            col.add("MemorySafe" if r["outcome"] == "crashed" else "LosslessInHardwareOrder", job, b,
                                    "process died: " + r.get("signature", ""), r.get("signature"))
                            continue
                obs = (r["outcome"], r.get("len"), r.get("dec"), r.get("signature"))
                if obs in seen:
                    continue
                seen.append(obs)
                t = len(events)
                events.append(event_of(job, r, t))
                meta[t] = (job, b, r)
            else:
                if not r.get("in_range", True):
                    raise MachineryError("python-compared request is out of range: " + job_ident(job))
                run.cov["python_compared"] = run.cov.get("python_compared", 0) + 1
                run.cov["python_compared_max_weights"] = max(run.cov.get("python_compared_max_weights", 0), r["n"])
                if r["outcome"] == "rejected":
                    col.add("InRangeEncoded", job, b, "in-range request rejected")
                else:
                    if not r.get("lossless"):
                        col.add("LosslessInHardwareOrder", job, b, "first mismatch at stream position %s (padded %s, "
                                "decoded %s)" % (r.get("first_mismatch"), r.get("padded"), r.get("decoded")))
                    if r["len"] <= 0 or r["len"] % 16:
                        col.add("Aligned16", job, b, "stream length %d" % r["len"])
        if job.get("cfg"):
            c = job["cfg"]
            run.sample({"request": "reorder_encode", "cfg": c, "weights": job.get("gen", {"dist": "literal"})}, limit=5)
            run.nontrivial(("vol", c["trav"], c["bits"], weight_order.UBLOCKS[c["acc"]][1], c["dily"], c["dilx"],
                            c["od"], c["kh"], c["kw"], c["id"], c["oblk"], job.get("gen", {}).get("dist", "lit")))
        else:
            if len(run.cov["samples"]) < 7:
                run.cov["samples"].append({"request": "encode(raw)", "id": job_ident(job)})
            run.nontrivial(("raw", job_ident(job)))
    return events, meta, modes


def judge(run, col, name, events, meta, parallel=4):
    if not events:
        return
    viol = validate(run, name, events, parallel)
    for v in viol:
        t, clause = v[0], v[1]
        if clause in ("MalformedObservation", "PyOrderMatchesSpec"):
            raise MachineryError("trace batch %s: %s for record %s" % (name, clause, json.dumps(events[t])[:400]))
        job, b, r = meta[t]
        if r["outcome"] in DIED:
            if len(events[t]["w"]) <= 12:
                job = {k: v for k, v in job.items() if k not in ("gen", "n")}
                job["w"] = events[t]["w"]       # short generated input: identify the case by the input itself
            col.add(clause, job, b, "process died%s: %s\n%s" % (" in the reference decoder" if r["outcome"] == "undecodable"
                                                               else "", r["signature"], r.get("stderr_tail", "")), r["signature"])
        else:
            col.add(clause, job, b, "outcome=%s stream length=%s decoded[:12]=%s" % (r["outcome"], r.get("len"),
                                                                                   r.get("dec", [])[:12]))


# ------------------------------------------------------------------ the exhaustive short-sequence family
def raw_family(run, col, builds, maxlen, nproc):
    plen, maxsuf = maxlen - 3, 3
    import itertools
    jobs = [{"id": 0, "kind": "rawgroup", "prefix": [], "alpha": ALPHA, "maxsuf": plen - 1, "skip_empty": True}]
    for p in itertools.product(ALPHA, repeat=plen):
        jobs.append({"id": len(jobs), "kind": "rawgroup", "prefix": list(p), "alpha": ALPHA, "maxsuf": maxsuf})
    empty_job = {"id": len(jobs), "kind": "raw", "w": []}
    by_build = {}
    with ThreadPoolExecutor(2 * len(builds)) as ex:
        futs = {b: ex.submit(run_jobs, run, so, jobs, b == "asan", nproc) for b, so in builds.items()}
        efuts = {b: ex.submit(run_jobs, run, so, [empty_job], b == "asan", 1) for b, so in builds.items()}
        for b in builds:
            by_build[b] = futs[b].result()
            by_build[b].update(efuts[b].result())
    fam_batches, metas = [], []
    ncases = 0
    crashes = {}        # (build, tuple(w)) -> (signature, stderr tail)
    for bi, b in enumerate(builds):
        res = by_build[b]
        e = res[empty_job["id"]]
        empty_case = [[], e["outcome"], e.get("dec", []), e.get("len", 0)]
        if e["outcome"] in DIED:
            crashes[(b, ())] = (e["signature"], e.get("stderr_tail", ""))
        groups = []
        dead = [j for j in jobs if res[j["id"]].get("outcome") in DIED + ("skipped",)]
        incomplete = len(dead) > 3
        isolated = []
        for j in jobs:
            r = res[j["id"]]
            if r.get("outcome") in DIED + ("skipped",):
                if r["outcome"] == "skipped" or len(isolated) >= 3:
                    continue
                # a whole group died: isolate the sequence by running its members one by one
                members = [list(j["prefix"]) + list(s) for m in range(j["maxsuf"] + 1) for s in itertools.product(ALPHA, repeat=m)]
                single = [{"id": k, "kind": "raw", "w": w} for k, w in enumerate(members) if w]
                sr = run_jobs(run, builds[b], single, b == "asan", nproc)
                cases = [[s["w"], sr[s["id"]]["outcome"], sr[s["id"]].get("dec", []), sr[s["id"]].get("len", 0)]
                         for s in single if sr[s["id"]]["outcome"] != "skipped"]
                for s in single:
                    if sr[s["id"]]["outcome"] in DIED:
                        crashes[(b, tuple(s["w"]))] = (sr[s["id"]]["signature"], sr[s["id"]].get("stderr_tail", ""))
                isolated.append(cases)
                incomplete = incomplete or len(cases) != len(single)
            else:
                cases = r["cases"]
            if not j["prefix"]:
                cases = [empty_case] + cases
            groups.append({"kind": "rawgroup", "prefix": j["prefix"], "alpha": ALPHA, "maxsuf": j["maxsuf"], "cases": cases})
            ncases += len(cases)
        if incomplete:
            # too many groups died to keep the family whole on this build: no exhaustiveness claim; the members
            # that were isolated are judged one by one
            run.cov.setdefault("raw_family_incomplete_on", []).append(b)
            run.cov["skipped_after_crashes"] = run.cov.get("skipped_after_crashes", 0) + len(dead)
            ev, meta = [], {}
            for cases in isolated + [[empty_case]]:
                for cs in cases:
                    t = len(ev)
                    ev.append({"t": t, "kind": "raw", "w": cs[0], "outcome": cs[1], "dec": cs[2], "len": cs[3]})
                    sig, tail = crashes.get((b, tuple(cs[0])), (None, ""))
                    meta[t] = ({"kind": "raw", "w": cs[0]}, b, {"outcome": cs[1], "signature": sig, "stderr_tail": tail,
                                                               "len": cs[3], "dec": cs[2]})
            judge(run, col, "raw family members", ev, meta, 2)
            continue
        if bi > 0 and all(g["cases"] == g0["cases"] for g, g0 in zip(groups, first_groups)):
            run.cov.setdefault("identical_observations_on_builds", []).append("raw family: %s = %s" % (b, first_build))
            run.evaluated(sum(len(g["cases"]) for g in groups))
            continue
        if bi == 0:
            first_groups, first_build = groups, b
        run.evaluated(sum(len(g["cases"]) for g in groups))
        # split the family by first letter into parallel TLC batches; each batch announces what it must contain
        for fl in ALPHA:
            part = [g for g in groups if g["prefix"] and g["prefix"][0] == fl]
            short = fl == ALPHA[0]
            if short:
                part = [g for g in groups if not g["prefix"]] + part
            ev = [{"kind": "rawhdr", "alpha": ALPHA, "plen": plen, "maxsuf": maxsuf, "firsts": [fl], "short": short}]
            ev += part + [{"kind": "rawend"}]
            for t, x in enumerate(ev):
                x["t"] = t
            fam_batches.append(ev)
            metas.append(b)
    for n in range(maxlen + 1):
        run.nontrivial(("rawfamily", n))

    def one(bm):
        return tlc.validate_traces("MlwTrace", "MlwTrace.cfg", bm, timeout=3000, heap="5g")

    with ThreadPoolExecutor(7) as ex:
        outs = list(ex.map(one, fam_batches))
    for ev, b, (res, viol) in zip(fam_batches, metas, outs):
        run.add_trace_run("MlwTrace(raw family, %s)" % b, res, sum(len(x["cases"]) for x in ev if x["kind"] == "rawgroup"))
        for v in viol:
            t, clause = v[0], v[1]
            if clause in ("ExhaustiveGroup", "ExhaustiveFamily", "MalformedObservation"):
                raise MachineryError("raw family batch is not the announced family: %s at record %d" % (clause, t))
            case = ev[t]["cases"][v[2] - 1]
            job = {"kind": "raw", "w": case[0]}
            sig, tail = crashes.get((b, tuple(case[0])), (None, ""))
            col.add(clause, job, b, ("process died: %s\n%s" % (sig, tail)) if sig else
                    "outcome=%s len=%s decoded=%s" % (case[1], case[3], case[2][:12]), sig)
    run.cov["raw_family"] = {"alphabet": ALPHA, "max_length": maxlen, "sequences": sum(7 ** n for n in range(maxlen + 1))}


# ------------------------------------------------------------------ negative controls
def negative_controls(run):
    """Corrupt recorded observations; MlwTrace must flag exactly the corrupted clause."""
    # base record built from the python rendering of the specification, independent of the code under test
    cfg = {"acc": "U55_32", "trav": "depth", "bits": 8, "od": 5, "kh": 3, "kw": 2, "id": 9, "oblk": 4, "dily": 1, "dilx": 1}
    w = [((k * 37) % 401) - 200 for k in range(5 * 3 * 2 * 9)]
    base = {"t": 0, "kind": "vol", "cfg": cfg, "w": w, "outcome": "stream", "len": 4096,
            "dec": [int(x) for x in weight_order.reordered(cfg, w)] + [0, 0, 0]}
    res, viol = tlc.validate_traces("MlwTrace", "MlwTrace.cfg", [base], timeout=600)
    if viol:
        raise MachineryError("positive control rejected: %s" % viol)
    bad = []
    d = list(base["dec"])
    i = next(k for k in range(len(d) - 1) if d[k] != d[k + 1])
    d[i], d[i + 1] = d[i + 1], d[i]
    bad.append((dict(base, t=0, dec=d), "LosslessInHardwareOrder"))                      # two weights swapped
    bad.append((dict(base, t=1, len=base["len"] + 8), "Aligned16"))                      # padded to 64 bits only
    bad.append((dict(base, t=2, dec=base["dec"] + [1]), "LosslessInHardwareOrder"))      # non-zero padding
    w = list(base["w"])
    w[0] = 256
    bad.append((dict(base, t=3, w=w), "OutOfRangeRejected"))                             # wrapped instead of rejected
    bad.append((dict(base, t=4, outcome="crashed", dec=[], len=0), "MemorySafe"))
    bad.append((dict(base, t=5, outcome="rejected", dec=[], len=0), "InRangeEncoded"))
    bad.append((dict(base, t=6, cfg=dict(cfg, trav="part")), "LosslessInHardwareOrder"))     # other traversal
    bad.append((dict(base, t=7, cfg=dict(cfg, acc="U55_128", oblk=8)), "LosslessInHardwareOrder"))  # other micro-block
    bad.append((dict(base, t=8, cfg=dict(cfg, bits=16)), "LosslessInHardwareOrder"))        # other IFM block depth
    res, viol = tlc.validate_traces("MlwTrace", "MlwTrace.cfg", [b for b, _ in bad], timeout=600)
    got = {(v[0], v[1]) for v in viol}
    for b, clause in bad:
        if (b["t"], clause) not in got:
            raise MachineryError("negative control not detected: record %d should violate %s (got %s)" % (b["t"], clause, sorted(got)))
    # an incomplete exhaustive family must be rejected as well
    fam = [{"t": 0, "kind": "rawhdr", "alpha": [0, 1], "plen": 1, "maxsuf": 1, "firsts": [0, 1], "short": True},
           {"t": 1, "kind": "rawgroup", "prefix": [], "alpha": [0, 1], "maxsuf": 0, "cases": [[[], "stream", [], 16]]},
           {"t": 2, "kind": "rawgroup", "prefix": [0], "alpha": [0, 1], "maxsuf": 1,
            "cases": [[[0], "stream", [0], 16], [[0, 0], "stream", [0, 0], 16]]},        # [0,1] missing, prefix [1] missing
           {"t": 3, "kind": "rawend"}]
    res, viol = tlc.validate_traces("MlwTrace", "MlwTrace.cfg", fam, timeout=600)
    got = {(v[0], v[1]) for v in viol}
    if (2, "ExhaustiveGroup") not in got or (3, "ExhaustiveFamily") not in got:
        raise MachineryError("negative control not detected: incomplete family accepted (%s)" % sorted(got))
    run.cov["negative_controls"] = ["swapped weights", "64-bit end padding", "non-zero padding", "out-of-range wrapped",
                                    "crash", "in-range rejected", "other traversal", "incomplete exhaustive family",
                                    "WeightOrderMC NeverPads violated"]


# ------------------------------------------------------------------ main
def main(tier):
    run = Run("C07", tier)
    try:
        return _main(run, tier)
    finally:
        run.cleanup()       # also on MachineryError: no scratch directories left behind


def _main(run, tier):
    sd = seed()
    rng = random.Random(sd * 7919 + 7)
    quick = tier == "quick"
    builds = private_builds(run)
    col = Collector(run)

    phases, _t = {}, [time.time(), "setup"]

    def _mark(name):
        phases[_t[1]] = round(time.time() - _t[0], 1)
        _t[0], _t[1] = time.time(), name
    run.cov["phase_wall_s"] = phases
    # ---- MC (in a thread: TLC uses 8 workers while the replays use the other cores)
    mc_cfg = "WeightOrderMC_quick.cfg" if quick else "WeightOrderMC_thorough.cfg"
    mc_out = {}

    def mc():
        try:
            mc_out["res"], mc_out["cfgs"] = mc_configs(run, mc_cfg, 8 if quick else 10)
        except BaseException as e:      # re-raised in the main thread
            mc_out["err"] = e
    th = threading.Thread(target=mc)
    th.start()

    neg = tlc.run("WeightOrderMC", "WeightOrderMC_neg.cfg", workers=1)
    if neg["status"] != "invariant" or neg.get("violated") != "NeverPads":
        raise MachineryError("control failed: NeverPads must be violated, got %s" % neg["status"])
    run.add_mc("WeightOrderMC(NeverPads control)", neg)
    cov = tlc.must_ok(tlc.run("WeightOrderMC", "WeightOrderMC_cov.cfg", workers=2, coverage=True), "WeightOrderMC coverage run")
    if cov["actions"].get("WeightOrderMC.Pick", 0) == 0:
        raise MachineryError("vacuity: WeightOrderMC.Pick never fired")
    run.add_mc("WeightOrderMC(coverage lattice)", cov)

    _mark("raw_family")
    # ---- exhaustive short raw sequences
    raw_family(run, col, builds, 6 if quick else 7, 6)

    _mark("out_of_range")
    # ---- out-of-range requests (each alone: a crash must not hide other requests)
    oor_jobs = []
    for w in ([256], [-256], [0, 300, 0], [1, 2, -32768], [32767]):
        oor_jobs.append({"id": len(oor_jobs), "kind": "raw", "w": w})
    small = {"acc": "U55_128", "trav": "depth", "bits": 8, "od": 2, "kh": 1, "kw": 1, "id": 3, "oblk": 8, "dily": 1, "dilx": 1}
    for val, pos in ((256, 0), (-256, 5), (300, 2), (-32768, 1), (32767, 4), (511, 3), (-257, 0)):
        w = [1, -2, 3, -4, 5, -6]
        w[pos] = val
        oor_jobs.append({"id": len(oor_jobs), "kind": "vol", "cfg": small, "w": w})
    pk = dict(small, trav="part", acc="U55_32", oblk=4, od=5, id=2, kh=2, kw=2)
    w = [((k * 5) % 200) - 100 for k in range(40)]
    w[17] = 256
    oor_jobs.append({"id": len(oor_jobs), "kind": "vol", "cfg": pk, "w": w})
    # element types wider than the codec's int16 and magnitudes around every power of two a narrowing could alias:
    # an out-of-range value must be rejected whatever its residue modulo 2^8, 2^9, 2^16 or 2^32 is
    mags = [256, 257, 300, 511, 512, 32767, 32768, 65281, 65535, 65536, 65537, 65536 + 255, 65536 + 300, 131072 + 3,
            (1 << 24) + 5, (1 << 31) - 1]
    for dt in ("int16", "uint16", "int32", "uint32", "int64"):
        info = {"int16": (-(1 << 15), (1 << 15) - 1), "uint16": (0, (1 << 16) - 1), "int32": (-(1 << 31), (1 << 31) - 1),
                "uint32": (0, (1 << 32) - 1), "int64": (-(1 << 63), (1 << 63) - 1)}[dt]
        vals = [v for m in mags for v in (m, -m) if info[0] <= v <= info[1] and abs(v) < (1 << 31)]
        for v in (vals if not quick or dt in ("uint16", "int32") else vals[::2]):
            cfg = random_cfg(rng, 600)
            n = cfg["od"] * cfg["kh"] * cfg["kw"] * cfg["id"]
            oor_jobs.append({"id": len(oor_jobs), "kind": "vol", "cfg": cfg, "dtype": dt, "poke": [[rng.randrange(n), v]],
                             "gen": {"dist": rng.choice(["uniform8", "laplace", "pal16", "sparse"]), "seed": rng.randrange(1 << 30)}})
    ev, meta, _ = replay_requests(run, col, "oor", oor_jobs, builds, 12)
    judge(run, col, "out of range", ev, meta, 2)
    run.cov["out_of_range_element_types"] = ["int16", "uint16", "int32", "uint32", "int64"]
    run.cov["out_of_range_requests"] = len(oor_jobs)

    _mark("generated_replays")
    # ---- generated raw sequences and volumes, TLC-sized
    jobs = []
    nseq = 3 if quick else 24
    for dist in DISTS:
        for k in range(nseq):
            n = rng.choice([1, 2, 7, 33, 64, 65, 100, 257, 513, 700, 1500, 3000]) if k else 1200
            jobs.append({"id": len(jobs), "kind": "raw", "n": n, "gen": {"dist": dist, "seed": rng.randrange(1 << 30)},
                         "modes": True})
    for dist in WORST:          # long raw streams near the worst-case expansion, several lengths beyond any fixed slack
        for n in ([4096, 20000] if quick else [3500, 4096, 8192, 20000, 65536, 131072]):
            jobs.append({"id": len(jobs), "kind": "raw", "n": n, "gen": {"dist": dist, "seed": rng.randrange(1 << 30)}, "modes": True})
    for dist in (["restart", "sparse", "uniform9", "pal16", "switch", "laplace", "verysparse", "pal40"] if quick else DISTS):
        n = rng.randrange(33000, 70000)
        jobs.append({"id": len(jobs), "kind": "raw", "n": n, "gen": {"dist": dist, "seed": rng.randrange(1 << 30)}, "modes": True})
    nvol = 160 if quick else 3000
    for k in range(nvol):
        cfg = random_cfg(rng, 5000)
        jobs.append({"id": len(jobs), "kind": "vol", "cfg": cfg, "modes": k % 4 == 0,
                     "gen": {"dist": rng.choice(DISTS), "seed": rng.randrange(1 << 30)}})
    ev_gen, meta_gen, modes = replay_requests(run, col, "generated", jobs, builds, 7)

    _mark("mc_wait_and_lattice_replays")
    # ---- S2C: the configurations TLC model-checked, with index-valued weights
    th.join()
    if "err" in mc_out:
        raise mc_out["err"]
    res, cfgs = mc_out["res"], mc_out["cfgs"]
    run.add_mc("WeightOrderMC(" + mc_cfg + ")", res)
    want, ninit = expected_mc_states(open(os.path.join(VERIF, "spec", mc_cfg)).read())
    if len(cfgs) != want or res["distinct"] != want + ninit:
        raise MachineryError("vacuity: WeightOrderMC visited %d configurations, the lattice has %d" % (len(cfgs), want))
    run.cov["mc_lattice_configurations"] = want
    # stratified sample: every (traversal, bits, ublock, dilation) class, smallest padded sizes preferred
    nmc = 400 if quick else 6000
    classes = {}
    for c in cfgs:
        classes.setdefault((c["trav"], c["bits"], c["acc"], c["dily"], c["dilx"], c["kh"] > 4 or c["kw"] > 4), []).append(c)
    picked = []
    keys = sorted(classes)
    for k in keys:
        rng.shuffle(classes[k])
    while len(picked) < min(nmc, len(cfgs)):
        for k in keys:
            if classes[k] and len(picked) < nmc:
                picked.append(classes[k].pop())
        if not any(classes.values()):
            break
    jobs2 = [{"id": i, "kind": "vol", "cfg": c, "gen": {"dist": "index" if i % 2 == 0 else "sindex", "seed": i}}
             for i, c in enumerate(picked)]
    # real accelerators of the same micro-block shape take turns
    for j in jobs2:
        if j["cfg"]["acc"] == "U55_128":
            j["cfg"] = dict(j["cfg"], acc=rng.choice(["U55_64", "U55_128", "U55_256", "U65_256", "U65_512"]))
    ev_mc, meta_mc, _ = replay_requests(run, col, "mc lattice", jobs2, builds, 7)
    run.cov["mc_lattice_configurations_replayed"] = len(jobs2)

    _mark("tlc_judgement")
    # ---- cross-check of the python rendering of Order, by TLC
    xs = []
    for c in picked[:: max(1, len(picked) // (100 if quick else 400))]:
        xs.append({"kind": "xcheck", "cfg": c, "order": weight_order.order_coords(c)})
    for _ in range(40 if quick else 300):
        c = random_cfg(rng, 4000)
        xs.append({"kind": "xcheck", "cfg": c, "order": weight_order.order_coords(c)})
    # negative control of the cross-check itself
    broken = dict(xs[0], order=xs[0]["order"][1:] + xs[0]["order"][:1])

    events = ev_gen + ev_mc
    meta = dict(meta_gen)
    for t, m in meta_mc.items():
        meta[t + len(ev_gen)] = m
    for t, e in enumerate(events):
        e["t"] = t
    for x in xs:
        x["t"] = len(events)
        events.append(x)
    judge(run, col, "volumes and sequences", events, meta, 6 if quick else 12)
    run.cov["python_order_crosschecked_configs"] = len(xs)
    r2, v2 = tlc.validate_traces("MlwTrace", "MlwTrace.cfg", [dict(broken, t=0)], timeout=600)
    if [0, "PyOrderMatchesSpec"] not in [list(v) for v in v2]:
        raise MachineryError("negative control not detected: rotated python order accepted")

    _mark("large")
    # ---- large volumes and long sequences, compared in python (rendering cross-checked above)
    big = []
    nbig = 10 if quick else 120
    for k in range(nbig):
        cfg = random_cfg(rng, 0, big=True)
        big.append({"id": len(big), "kind": "vol", "cfg": cfg, "mode": "py", "modes": True,
                    "gen": {"dist": DISTS[(k * 5 + 1) % len(DISTS)], "seed": rng.randrange(1 << 30)}})
    for dist in (["restart", "sparse_big", "pal32", "uniform9"] if quick else DISTS):
        big.append({"id": len(big), "kind": "raw", "n": rng.randrange(200000, 1000001 if not quick else 400000), "mode": "py",
                    "modes": True, "gen": {"dist": dist, "seed": rng.randrange(1 << 30)}})
    _, _, modes2 = replay_requests(run, col, "large", big, builds, 8)
    for m, n in modes2.items():
        modes[m] = modes.get(m, 0) + n
    run.cov["coding_modes_observed"] = modes
    missing = [m for m in MODES if not modes.get(m)]
    if missing:
        raise MachineryError("vacuity: coding modes never triggered by the generators: %s" % missing)

    _mark("negative_controls")
    negative_controls(run)
    _mark("end")

    if run.cov.get("skipped_after_crashes") and not run.violations and not run.known_hits:
        raise MachineryError("requests were skipped after repeated worker deaths but no violation was recorded")
    run.cov["rule"] = (
        "requests = (a) every raw sequence of length <= %d over %s through mlw_codec.encode, exhaustiveness decided by TLC; "
        "(b) the configurations of the WeightOrderMC lattice that TLC model-checked (state dump), stratified sample, "
        "index-valued weights, through api.npu_encode_weights; (c) random valid configurations x %d weight "
        "distributions; (d) long sequences / volumes up to 1M weights. Every request runs on the gcc build and on the "
        "clang ASan+UBSan build (subprocess, LD_PRELOAD). (a)-(c) are decided by TLC (MlwTrace.tla); (d) is compared in "
        "python against harness/weight_order.py whose output TLC compares with WeightOrder!Order on %d configurations in "
        "this run. non-trivial = distinct (traversal, bits, ublock, dilation, shape, block depth, distribution) or "
        "distinct raw request" % (6 if quick else 7, ALPHA, len(DISTS), len(xs)))
    run.assumptions += [
        "memory safety is observed by ASan/UBSan on the replayed requests (sanitizer abort, assert abort or signal = "
        "outcome 'crashed'); it is not decided by TLC",
        "the reference decoder is ethosu/mlw_codec/mlw_decode.c of the working tree",
        "a valid configuration has OFM block depth a multiple of the OFM micro-block depth, dilation in {1,2}, "
        "depthwise volumes of IFM depth 1 (WeightOrder!ValidCfg)",
        "the plain codec build uses the release flags of setup.py (-O3 -DNDEBUG: asserts compiled out), the sanitizer build "
        "keeps the asserts (harness/codec.py)"]
    return run.finish()


def replay(path):
    rp = json.load(open(path))["replay"]
    run = Run("C07", "quick")
    job = dict(rp["job"], id=0)
    job.pop("mode", None)
    builds = private_builds(run)
    b = rp.get("build", "gcc")
    col = Collector(run)
    hits = []
    run.violation = lambda key, what, obj: hits.append(key)      # a replay reports, it does not write new replay files
    ev, meta, _ = replay_requests(run, col, "replay", [job], {b: builds[b]}, 1)
    for t, e in enumerate(ev):
        e["t"] = t
        print("observation:", json.dumps({k: (v if not isinstance(v, list) or len(v) < 40 else v[:40] + ["..."]) for k, v in e.items()}))
        if meta[t][2].get("signature"):
            print("crash:", meta[t][2]["signature"])
    judge(run, col, "replay", ev, meta, 1)
    for key in hits:
        print("STILL VIOLATED:", key)
    run.cleanup()
    return 1 if hits else 0
