"""C17 - the driver payload frames the command stream.

MC  : Payload.tla (emitter COP1 . Config . NOP* . CmdStreamHeader(len) . body) satisfies FramedWhenDone,
      RejectsTooLong, LengthRoundTrip for all lengths 0..64 + the boundary set x 6 accelerators; with the
      deliberately wrong padding rule the invariant fails (negative control).
S2C : the length lattice printed by TLC (+ seeded random lengths) x 6 accelerators is replayed through the real
      api.npu_create_driver_payload.
C2S : every produced payload / raised error is one record of an ndjson batch validated by PayloadTrace.tla
      (words are assembled from *bytes* by TLC, so little-endianness is decided there; header words never
      exceed 16-bit limbs).  Bodies longer than FULL words are compared in the driver by SHA-256 against an
      independent little-endian image (numpy '<u4') and enter TLC as the boolean `tail_match`; TLC still
      pins the body to the tail through `total = header index + n`.
      The same records are produced for the command-stream tensor (first input of every "ethos-u" custom
      operator) of compiled models, whose input words are taken from sg.register_command_stream.
"""
import hashlib
import json
import random

import numpy as np

from .. import corpus, tlc, vela_run
from ..common import Run, MachineryError, seed, ensure_repo_on_path

ACCELS = ["ethos-u55-32", "ethos-u55-64", "ethos-u55-128", "ethos-u55-256", "ethos-u65-256", "ethos-u65-512"]
FULL = 512           # up to this many words the whole payload goes to TLC
MAXLEN = 1 << 24
EDGE = [0xFFFFFFFF, 0x00000000, 0x80000000, 0x00000001, 0x01000000, 0x00010000, 0x7FFFFFFF, 0x12345678,
        0x00050000, 0x00020000, 0x31504F43, 0xFEDCBA98]


def words_for(n, wseed):
    """Deterministic word list: edge patterns at both ends, seeded uniform 32-bit words between."""
    rs = np.random.RandomState(wseed & 0x7FFFFFFF)
    w = rs.randint(0, 1 << 32, size=n, dtype=np.uint64)
    k = min(n, len(EDGE))
    rot = wseed % len(EDGE)
    pat = (EDGE[rot:] + EDGE[:rot])[:k]
    w[:k] = pat
    if n > 2 * len(EDGE):
        w[-k:] = pat[::-1]
    return w


def le_image(w):
    """Independent little-endian image of a word array (no struct.pack, no driver_actions)."""
    return np.asarray(w, dtype="<u4").tobytes()


def limbs(w):
    return [[int(x) & 0xFFFF, int(x) >> 16] for x in w]


def record(t, accel, n, payload, input_words, rejected=False, crashed=False):
    ev = {"t": t, "src": "api", "accel": accel, "n": n, "rejected": rejected, "crashed": crashed, "total_bytes": 0,
          "bytes": [], "mode": "none", "input": [], "tail_match": False}
    if payload is None:
        return ev
    ev["total_bytes"] = len(payload)
    if n <= FULL and len(payload) <= 4 * (FULL + 64):
        ev["mode"] = "full"
        ev["bytes"] = list(payload)
        ev["input"] = limbs(input_words)
    else:
        ev["mode"] = "digest"
        ev["bytes"] = list(payload[:64])
        img = le_image(input_words)
        tail = payload[len(payload) - 4 * n:] if n else b""
        ev["tail_match"] = (len(payload) >= 4 * n and
                            hashlib.sha256(tail).digest() == hashlib.sha256(img).digest())
    return ev


def api_case(t, accel, n, wseed, big=None):
    """One call of the real public API."""
    ensure_repo_on_path()
    from ethosu.vela.api import npu_create_driver_payload, NpuAccelerator
    from ethosu.vela.errors import VelaError
    acc = {a.name.lower().replace("_", "-"): a for a in NpuAccelerator}[accel]
    if n >= MAXLEN - 1 and big is not None:
        w = big[:n]
    else:
        w = words_for(n, wseed)
    lst = w.tolist() if isinstance(w, np.ndarray) else w
    try:
        payload = npu_create_driver_payload(lst, acc)
    except VelaError:
        return record(t, accel, n, None, None, rejected=True)
    except Exception:
        return record(t, accel, n, None, None, crashed=True)
    if not isinstance(payload, (bytes, bytearray)):
        return record(t, accel, n, None, None, crashed=True)
    return record(t, accel, n, bytes(payload), w)


HW_LIMIT_BYTES = 1 << 24


def _dma_stream(n, acc):
    """n DMA operations whose registers all differ from the previous operation's (no elision): constant words per op"""
    from ethosu.vela import api
    ops = []
    for i in range(n):
        k = i & 1
        ops.append(api.NpuDmaOperation(api.NpuAddressRange(0, 1024 + 64 * k, 32 + 16 * k),
                                       api.NpuAddressRange(1, 2048 + 64 * k, 32 + 16 * k)))
    return api.npu_generate_register_command_stream(ops, acc)


def gen_limit_cases(t0, accel="ethos-u55-128"):
    """'streams beyond the hardware limit are rejected': the 16 MiB limit is enforced where the stream is generated.  The stream
    length is linear in the number of DMA operations (calibrated on short lists); the largest list below the limit must be
    generated (and then framed), the next one must be rejected with a VelaError."""
    ensure_repo_on_path()
    from ethosu.vela.api import NpuAccelerator, npu_create_driver_payload
    from ethosu.vela.errors import VelaError
    acc = {a.name.lower().replace("_", "-"): a for a in NpuAccelerator}[accel]
    l1, l2, l3 = (len(_dma_stream(n, acc)) for n in (10, 20, 40))
    per = (l2 - l1) // 10
    base = l1 - 10 * per
    if per <= 0 or l3 != base + 40 * per or (l2 - l1) % 10:
        raise MachineryError("C17 hardware-limit driver: stream length is not linear in the number of DMA operations (%d, %d, %d)" % (l1, l2, l3))
    n_ok = (HW_LIMIT_BYTES // 4 - 1 - base) // per            # largest n with 4 * (base + per * n) < 16 MiB
    out = []
    for k, n in enumerate((n_ok, n_ok + 1 + (0 if 4 * (base + per * (n_ok + 1)) >= HW_LIMIT_BYTES else 1))):
        words = base + per * n
        ev = {"t": t0 + k, "src": "gen", "accel": accel, "n": words, "rejected": False, "crashed": False, "total_bytes": 0,
              "bytes": [], "mode": "none", "input": [], "tail_match": False, "framed_len": -1}
        try:
            w = _dma_stream(n, acc)
            if len(w) != words:
                raise MachineryError("C17 hardware-limit driver: predicted %d words, generator returned %d" % (words, len(w)))
            try:
                payload = npu_create_driver_payload(w, acc)
                ev["total_bytes"] = len(payload)
                ev["framed_len"] = len(payload) // 4 - words       # header words in front of the body
                ev["tail_match"] = hashlib.sha256(bytes(payload[len(payload) - 4 * words:])).digest() == hashlib.sha256(le_image(w)).digest()
            except VelaError:
                ev["framed_len"] = -2
            del w
        except VelaError:
            ev["rejected"] = True
        except MachineryError:
            raise
        except Exception:
            ev["crashed"] = True
        out.append((ev, {"kind": "gen", "accel": accel, "dma_ops": n, "n": words}))
    return out


def lattice_from_tlc(res):
    o = res["output"]
    i = o.find('<< "LATTICE"')
    j = o.find(">>", i)
    if i < 0 or j < 0:
        raise MachineryError("Payload MC did not print the length lattice")
    return sorted(tlc.parse_value(o[i:j + 2])[1])


# ------------------------------------------------------------------ compiled models
def _extract(nng, arch, res):
    out = []
    for sg in nng.subgraphs:
        cs = getattr(sg, "command_stream_tensor", None)
        if cs is not None and getattr(sg, "register_command_stream", None) is not None:
            out.append({"name": cs.name, "words": [int(x) for x in sg.register_command_stream]})
    return {"accel": arch.accelerator_config.value, "streams": out}


def command_stream_tensors(out_bytes):
    """(name, bytes) of the first input of every custom operator "ethos-u" of the written model."""
    from ethosu.vela.tflite import Model
    m = Model.Model.GetRootAsModel(bytearray(out_bytes), 0)
    found = []
    for si in range(m.SubgraphsLength()):
        sg = m.Subgraphs(si)
        for oi in range(sg.OperatorsLength()):
            op = sg.Operators(oi)
            code = m.OperatorCodes(op.OpcodeIndex())
            if code.CustomCode() != b"ethos-u":
                continue
            tens = sg.Tensors(op.Inputs(0))
            buf = m.Buffers(tens.Buffer())
            data = buf.DataAsNumpy()
            found.append((tens.Name().decode(), bytes(bytearray(data)) if not isinstance(data, int) else b""))
    return found


def model_records(run, nmodels, sd, t0):
    entries = corpus.draw(nmodels, sd + 17)
    shapes = corpus.shape_sample(sd, "quick" if nmodels < 100 else "thorough", k=4, thorough=4)      # graph shapes (corpus_shapes.py)
    for i, e in enumerate(shapes):
        e["id"] = len(entries) + i
    entries = entries + shapes
    rng = random.Random(sd + 17)
    for i, e in enumerate(entries):
        e["opts"]["accel"] = ACCELS[i % 6] if i < 12 else e["opts"]["accel"]
        if e["opts"].get("config") and ("u65" in e["opts"]["accel"]) != ("U65" in e["opts"].get("system_config", "")):
            for k in ("config", "system_config", "memory_mode"):
                e["opts"].pop(k, None)
    jobs = [{"id": e["id"], "net": e["net"], "opts": e["opts"]} for e in entries]
    results = vela_run.compile_many(jobs, extractor=_extract, timeout=600)
    events, meta = [], {}
    compiled = with_stream = 0
    for e, r in zip(entries, results):
        if r.get("rc") != 0 or "extract" not in r or "out_bytes" not in r:
            continue
        compiled += 1
        tensors = dict(command_stream_tensors(r["out_bytes"]))
        for s in r["extract"]["streams"]:
            t = t0 + len(events)
            w = np.asarray(s["words"], dtype=np.uint64)
            payload = tensors.get(s["name"])
            if payload is None:
                # the stream exists in memory but the written model has no such tensor: cannot happen for a
                # well-formed output; C11/C13 own that; here it is a harness mismatch
                raise MachineryError("command stream tensor %s not found in the output model" % s["name"])
            with_stream += 1
            ev = record(t, r["extract"]["accel"], len(w), payload, w)
            ev["src"] = "model"
            events.append(ev)
            meta[t] = {"kind": "model", "family": e["family"], "net": e["net"], "opts": e["opts"], "tensor": s["name"]}
            run.nontrivial(("model", e["family"], r["extract"]["accel"], len(w)))
    run.cov["models"] = {"requested": nmodels, "compiled": compiled, "command_stream_tensors": with_stream}
    if nmodels and with_stream == 0:
        raise MachineryError("no compiled model produced a command stream tensor (vacuous model part)")
    return events, meta


# ------------------------------------------------------------------ negative controls
def negative_controls(run):
    """Corrupted records must be rejected by the trace specification, each with the expected clause."""
    # the base payload is written by hand (not produced by the code under test), so that a broken
    # implementation yields VIOLATIONs from the main run and not a failure of the controls
    w = words_for(5, 1234)
    hdr128 = bytes.fromhex("434f5031" "01001000" "07180000" "00000610" "05000000" "05000000" "05000000")
    p = hdr128 + bytes.fromhex("02000500") + le_image(w)
    base = record(0, "ethos-u55-128", 5, p, w)

    def rec(t, payload, accel="ethos-u55-128", n=5, words=w):
        return record(t, accel, n, payload, words)
    cases = []
    q = bytearray(p); q[-3] ^= 0x40
    cases.append((rec(1, bytes(q)), "BodyUnmodifiedLittleEndian"))
    be = b"".join(p[i:i + 4][::-1] for i in range(0, len(p), 4))
    cases.append((rec(2, be), "StartsWithCOP1"))
    cases.append((rec(3, p[:16] + p[20:]), "BodyAligned16"))                      # one NOP removed
    hdr = len(p) - 4 * 5 - 4
    q = bytearray(p); q[hdr + 2] += 1
    cases.append((rec(4, bytes(q)), "DeclaresLength"))
    cases.append((rec(5, p, accel="ethos-u65-512"), "ConfigMatchesAccelerator"))
    cases.append((rec(6, p + b"\0\0\0\0"), "ExactlyLenWordsFollow"))
    q = bytearray(p); q[14] = 0x00; q[15] = 0x20                                   # arch 2.0.x
    cases.append((rec(7, bytes(q)), "ArchVersion"))
    big = dict(base, t=8, n=MAXLEN)                                                # too long but accepted
    cases.append((big, "RejectsTooLong"))
    cases.append((record(9, "ethos-u55-128", 7, None, None, rejected=True), "AcceptsRepresentableLength"))
    # digest mode: body differs somewhere in the middle
    n = 4000
    wl = words_for(n, 99)
    pl = bytearray(hdr128 + bytes.fromhex("0200a00f") + le_image(wl))
    good = record(12, "ethos-u55-128", n, bytes(pl), wl)
    pl[len(pl) // 2] ^= 1
    cases.append((record(10, "ethos-u55-128", n, bytes(pl), wl), "BodyUnmodifiedLittleEndian"))
    q = bytearray(p); q[20] = 0x03                                                 # a ReadAPB action instead of a NOP
    cases.append((rec(11, bytes(q)), "HeaderAfterNops"))
    cases.append((base, None))                                                     # the untouched records pass
    cases.append((good, None))
    res, viol = tlc.validate_traces("PayloadTrace", "PayloadTrace.cfg", [c[0] for c in cases])
    got = {}
    for t, name in viol:
        got.setdefault(t, set()).add(name)
    for ev, want in cases:
        if want is None:
            if got.get(ev["t"]):
                raise MachineryError("negative control: the valid record %d was rejected: %s" % (ev["t"], got[ev["t"]]))
        elif want not in got.get(ev["t"], set()):
            raise MachineryError("negative control %d: expected clause %s, TLC reported %s" % (
                ev["t"], want, sorted(got.get(ev["t"], []))))
    run.cov["negative_controls"] = {"corrupted_records_rejected": len(cases) - 2,
                                    "clauses": sorted({c[1] for c in cases if c[1]})}
    return res


def len_class(n):
    if n >= MAXLEN:
        return "len>=2^24"
    if n == MAXLEN - 1:
        return "len=2^24-1"
    if n >= 65536:
        return "len>=2^16"
    if n == 65535:
        return "len=65535"
    return "len%%4=%d" % (n % 4)


def main(tier, only=None):
    run = Run("C17", tier)
    sd = seed()
    rng = random.Random(sd)
    # ---- MC
    res = tlc.must_ok(tlc.run("PayloadMC", "Payload_MC.cfg", workers=4, coverage=True), "Payload MC")
    run.add_mc("Payload", res)
    for a in ("EmitTag", "EmitConfig", "Reject", "Accept", "EmitNop", "EmitHeader", "EmitBody"):
        if res["actions"].get("Payload." + a, 0) == 0:
            raise MachineryError("vacuity: action %s never taken" % a)
    bad = tlc.run("PayloadMC", "Payload_Bad.cfg", workers=1)
    if bad["status"] != "invariant" or bad.get("violated") != "FramedWhenDone":
        raise MachineryError("negative control failed: off-by-one padding rule does not violate FramedWhenDone")
    run.add_mc("Payload(PadRule=offbyone control)", bad)
    lens = lattice_from_tlc(res)
    # ---- negative controls of the trace specification and of the digest comparison
    negative_controls(run)
    # ---- S2C: lattice x accelerators through the real API
    extra = []
    nrand = 24 if tier == "quick" else 1200
    for _ in range(nrand):
        r = rng.random()
        if r < 0.4:
            extra.append(rng.randrange(65, 4096))
        elif r < 0.7:
            extra.append(rng.choice([1, 2, 3, 4, 15, 16, 255, 256]) * 65536 + rng.choice([-2, -1, 0, 1, 2, 3]))
        else:
            extra.append(rng.randrange(4096, 1 << (20 if tier == "quick" else 22)))
    if tier == "thorough":
        extra += list(range(65, 1025))            # every length up to 1024 (accelerators in rotation below)
    full_accel = rng.choice(ACCELS)
    cases = []
    for n in lens:
        for a in ACCELS:
            if n >= (1 << 20) and n < MAXLEN and tier == "quick" and a != ACCELS[(ACCELS.index(full_accel) + n) % 6]:
                continue            # quick: one accelerator per multi-megaword length
            cases.append((a, n))
    for i, n in enumerate(extra):
        accs = ACCELS if tier == "thorough" and i < nrand and n < 300000 else [ACCELS[(i + sd) % 6]]
        cases += [(a, n) for a in accs]
    big = None
    if any(n >= MAXLEN - 1 for _, n in cases):
        big = words_for(MAXLEN + 1, sd + 5)
    events, meta = [], {}
    for t, (a, n) in enumerate(cases):
        wseed = (sd * 1000003 + n * 7 + ACCELS.index(a)) & 0x7FFFFFFF
        ev = api_case(t, a, n, wseed, big)
        ev["src"] = "api"
        events.append(ev)
        meta[t] = {"kind": "api", "accel": a, "n": n, "wseed": wseed, "big_seed": sd + 5 if n >= MAXLEN - 1 else None}
        run.evaluated()
        run.nontrivial(("api", a, len_class(n), ev["rejected"]))
        if n in (0, 3, 65536, MAXLEN - 1, MAXLEN) and a == full_accel:
            run.sample({"accel": a, "n": n, "rejected": ev["rejected"], "total_bytes": ev["total_bytes"],
                        "header_bytes": bytes(ev["bytes"][:48]).hex(), "mode": ev["mode"],
                        "tail_match": ev["tail_match"] if ev["mode"] == "digest" else None})
    big = None
    # ---- the hardware limit of 16 MiB, enforced by the generator
    for ev, m in gen_limit_cases(len(events), ACCELS[sd % 6]):
        events.append(ev)
        meta[ev["t"]] = m
        run.evaluated()
        run.nontrivial(("gen", m["accel"], ev["rejected"]))
        run.sample({"source": "generator at the 16 MiB limit", "accel": m["accel"], "dma_ops": m["dma_ops"], "words": ev["n"],
                    "rejected": ev["rejected"]})
    # ---- compiled models
    nmodels = 18 if tier == "quick" else 400
    mev, mmeta = model_records(run, nmodels, sd, len(events))
    events += mev
    meta.update(mmeta)
    run.evaluated(len(mev))
    # ---- C2S
    tres, viol = tlc.validate_traces("PayloadTrace", "PayloadTrace.cfg", events, timeout=1800)
    run.add_trace_run("PayloadTrace", tres, len(events))
    for t, name in viol:
        m = meta[t]
        if name == "Harness":
            raise MachineryError("record %d inconsistent (full mode without all bytes)" % t)
        if m["kind"] == "gen":
            key = "%s|generator %s" % (name, m["accel"])
            what = "%s: npu_generate_register_command_stream(%d DMA operations = %d words = %d bytes, %s) -> %s" % (
                name, m["dma_ops"], m["n"], 4 * m["n"], m["accel"], "rejected" if events[t]["rejected"] else
                "crashed" if events[t]["crashed"] else "accepted (payload of %d bytes)" % events[t]["total_bytes"])
        elif m["kind"] == "api":
            key = "%s|api %s %s" % (name, m["accel"], len_class(m["n"]))
            what = "%s: npu_create_driver_payload(%d words, %s) -> %s" % (
                name, m["n"], m["accel"], "rejected" if events[t]["rejected"] else
                "crashed" if events[t]["crashed"] else "%d bytes, header %s" % (
                    events[t]["total_bytes"], bytes(events[t]["bytes"][:48]).hex()))
        else:
            key = "%s|model %s" % (name, events[t]["accel"])
            what = "%s: command stream tensor %s of a compiled %s model (%d words, %d bytes, header %s)" % (
                name, m["tensor"], m["family"], events[t]["n"], events[t]["total_bytes"],
                bytes(events[t]["bytes"][:48]).hex())
        run.violation(key, what, m)
    nd = sum(1 for e in events if e["mode"] == "digest")
    run.cov["rule"] = ("lengths = the lattice printed by the Payload model checker (0..64, 65535, 65536, 65537, 2^17..2^23, "
                       "2^24-1, 2^24, 2^24+1) + seeded random lengths, x 6 accelerators (quick: lengths >= 2^20 for one accelerator each), "
                       "words = seeded uniform 32-bit values with edge patterns at both ends; plus the command-stream "
                       "tensor of every NPU subgraph of compiled corpus models.  distinct = (source, accelerator, "
                       "length class [len mod 4 / 16-bit boundary / 2^24 boundary], outcome) or (model family, "
                       "accelerator, stream length).  %d of %d records had their body compared by SHA-256 in the "
                       "driver (boolean tail_match); all header words and all bodies <= %d words were decided by TLC "
                       "from bytes." % (nd, len(events), FULL))
    run.cov["records"] = {"api": len(cases), "model": len(mev), "digest_mode": nd,
                          "rejected": sum(1 for e in events if e["rejected"])}
    run.assumptions += ["'rejected with an error' = a VelaError is raised by the public API (any other exception is "
                        "reported as NoInternalError)",
                        "the padding words must be NOP driver actions (any other action would be executed by the driver)",
                        "configuration action: command byte, CONFIG image fields macs_per_cc/shram_size/product and ID "
                        "image fields arch major/minor/patch are compared; cmd_stream_version, the release/patch "
                        "parameter of the action and reserved bits are not constrained by the property",
                        "input words of model streams are sg.register_command_stream as seen in the compiling process"]
    return run.finish()


def replay(path):
    rp = json.load(open(path))["replay"]
    run = Run("C17", "quick")
    if rp["kind"] == "api":
        big = words_for(MAXLEN + 1, rp["big_seed"]) if rp.get("big_seed") is not None else None
        ev = api_case(0, rp["accel"], rp["n"], rp["wseed"], big)
        events = [ev]
    elif rp["kind"] == "gen":
        events = [ev for ev, _ in gen_limit_cases(0, rp["accel"])]
    else:
        r = vela_run.compile_many([{"id": 0, "net": rp["net"], "opts": rp["opts"]}], extractor=_extract)[0]
        events = []
        if r.get("rc") == 0 and "extract" in r:
            tensors = dict(command_stream_tensors(r["out_bytes"]))
            for s in r["extract"]["streams"]:
                w = np.asarray(s["words"], dtype=np.uint64)
                events.append(record(len(events), r["extract"]["accel"], len(w), tensors.get(s["name"], b""), w))
    res, viol = tlc.validate_traces("PayloadTrace", "PayloadTrace.cfg", events)
    for e in events:
        print({k: (v if k not in ("bytes", "input") else "...") for k, v in e.items()},
              "header:", bytes(e["bytes"][:48]).hex())
    print("violations:", viol)
    run.cleanup()
    return 1 if viol else 0


def selftest():
    run = Run("C17", "quick")
    negative_controls(run)
    print("negative controls:", run.cov["negative_controls"])
    run.cleanup()
    return 0
