"""C13 - any structurally valid model either compiles or is rejected with a diagnosis.

MC  : Cli.tla (outcome protocol) satisfies CompilesOrDiagnoses; with AllowCrash the invariant fails
      (non-vacuity: the protocol can tell a crash from a diagnosis).
S2C : CliSpace.tla behaviours (TLC -simulate) = valid option combinations; each is run through the
      real CLI (`python -m ethosu.vela`, a subprocess per invocation, wall-clock bound) on a model
      drawn from the corpus and the corner-shape families.
C2S : every observed outcome is one line of an ndjson batch validated by CliTrace.tla.
"""
import os
import random
import shutil
from concurrent.futures import ThreadPoolExecutor

from .. import corners, corpus, netgen, tlc, vela_run
from ..common import Run, MachineryError, SPEC, seed

FLAGS = {"sym": ["--force-symmetric-int-weights"], "verbose": ["--verbose-all"], "timing": ["--timing"],
         "debugdb": ["--enable-debug-db"], "cpuops": ["--show-cpu-operations"]}


def options_from_tlc(run, n, sd):
    d = run.tmpdir("clispace")
    res = tlc.run("CliSpace", "CliSpace.cfg", workers=1, simulate="file=%s/tr,num=%d" % (d, n), depth=9, seed=sd + 1,
                  timeout=300)
    if not res.ok:
        raise MachineryError("CliSpace simulation failed: " + res["output"][-2000:])
    run.add_mc("CliSpace(simulate)", res)
    out = []
    for fn in sorted(os.listdir(d)):
        st = tlc.parse_states(open(os.path.join(d, fn)).read())
        if st and isinstance(st[-1][1].get("o"), dict) and len(st[-1][1]["o"]) == 8:
            out.append(st[-1][1]["o"])
    return out


def to_opts(o):
    opts = {"accel": o["accel"], "optimise": o["optimise"], "allocator": o["allocator"],
            "max_blockdep": o["blockdep"], "extra": []}
    if o["sysmem"] != "default":
        sc, mm = o["sysmem"].split("/")
        opts.update(config=vela_run.ARM_INI, system_config=sc, memory_mode=mm)
    if o["arena"]:
        opts["arena"] = o["arena"]
    if o["align"]:
        opts["align"] = o["align"]
    for f in o["flags"]:
        opts["extra"] += FLAGS[f]
    return opts


# ---- corner-shape model families (structurally valid, mostly not accelerable) ------------------
def corner_models(rng, n):
    out = []
    kinds = ["rank0", "rank1", "rank2", "rank3", "rank5", "prime", "batch2", "float", "uint8", "int16", "int32",
             "bool", "noquant", "peraxis_act", "unsupported", "big_kernel", "stride4", "unit", "dup_inputs",
             "two_outputs", "int64", "reshape_dyn", "custom_noopts", "bias40", "split_strided", "cpu_concat3", "bcast_one", "reduce_scalar_axis", "mean_rank1"]
    for i in range(n):
        k = kinds[i % len(kinds)] if i < len(kinds) else rng.choice(kinds)
        net = netgen.Net(rng.randrange(1 << 16))
        fb = False
        if k == "rank0":
            x = net.fm("in", [], is_input=True)
            y = net.unary("ABS", x)
        elif k == "rank1":
            x = net.fm("in", [17], is_input=True)
            y = net.unary("TANH", x)
        elif k == "rank2":
            x = net.fm("in", [3, 7], is_input=True)
            y = net.eltwise("ADD", x, net.fm("in2", [3, 7], is_input=True))
        elif k == "rank3":
            x = net.fm("in", [5, 7, 3], is_input=True)
            y = net.eltwise("MUL", x, net.fm("in2", [5, 7, 3], is_input=True))
        elif k == "rank5":
            x = net.fm("in", [1, 2, 3, 4, 5], is_input=True)
            y = net.unary("LOGISTIC", x)
        elif k == "prime":
            x = net.fm("in", [1, 13, 11, 7], is_input=True)
            y = net.conv(x, 5, k=3, stride=rng.choice([1, 2]), pad=rng.choice(["SAME", "VALID"]))
        elif k == "batch2":
            x = net.fm("in", [2, 8, 8, 8], is_input=True)
            y = net.conv(x, 8, k=3)
            fb = True
        elif k == "float":
            x = net.fm("in", [1, 8, 8, 4], "FLOAT32", None, is_input=True)
            y = net.fm("out", [1, 8, 8, 4], "FLOAT32", None)
            net.op(rng.choice(["FLOOR", "ABS", "RELU", "TANH"]), [x], [y])
            fb = True
        elif k == "uint8":
            x = net.fm("in", [1, 8, 8, 8], "UINT8", 0.05, 128, is_input=True)
            y = net.pool(net.conv(x, 8, 3, ozp=100), "AVERAGE_POOL_2D")
        elif k == "int16":
            x = net.fm("in", [1, 6, 6, 8], "INT16", 0.001, 0, is_input=True)
            y = net.unary(rng.choice(["TANH", "LOGISTIC", "ABS", "RELU"]), x)
        elif k == "int32":
            x = net.fm("in", [1, 4, 4, 8], "INT32", 0.001, 0, is_input=True)
            y = net.eltwise(rng.choice(["ADD", "MUL", "SUB"]), x, net.fm("in2", [1, 4, 4, 8], "INT32", 0.001, 0, is_input=True))
            net.t[y]["type"] = "INT32"
        elif k == "int64":
            x = net.fm("in", [1, 4, 4, 8], "INT64", None, is_input=True)
            y = net.fm("out", [1, 4, 4, 8], "INT64", None)
            net.op("ABS", [x], [y])
            fb = True
        elif k == "bool":
            x = net.fm("in", [1, 4, 4, 8], "BOOL", None, is_input=True)
            y = net.fm("out", [1, 4, 4, 8], "BOOL", None)
            net.op("LOGICAL_NOT", [x], [y])
            fb = True
        elif k == "noquant":
            x = net.fm("in", [1, 8, 8, 8], "INT8", None, is_input=True)
            y = net.fm("out", [1, 8, 8, 8], "INT8", None)
            net.op("RELU", [x], [y])
            fb = True
        elif k == "peraxis_act":
            x = net.fm("in", [1, 4, 4, 4], is_input=True)
            net.t[x]["scale"] = [0.1, 0.2, 0.3, 0.4]
            net.t[x]["zp"] = [0, 0, 0, 0]
            net.t[x]["qdim"] = 3
            y = net.unary("RELU", x)
        elif k == "unsupported":
            x = net.fm("in", [1, 8, 8, 8], is_input=True)
            y = net.conv(net.cpu_op(net.conv(x, 8, 3), rng.choice(["ROUND", "CUSTOM", "FLOOR_DIV"])), 8, 1)
            fb = True
        elif k == "big_kernel":
            x = net.fm("in", [1, 70, 9, 4], is_input=True)
            y = net.conv(x, 4, kh=rng.choice([64, 65]), kw=1, pad="VALID")
        elif k == "stride4":
            x = net.fm("in", [1, 16, 16, 4], is_input=True)
            y = net.conv(x, 4, k=3, stride=rng.choice([3, 4]))
        elif k == "unit":
            x = net.fm("in", [1, 1, 1, 1], is_input=True)
            y = net.conv(x, 1, k=1)
        elif k == "dup_inputs":
            x = net.fm("in", [1, 8, 8, 8], is_input=True)
            y = net.eltwise(rng.choice(["ADD", "MUL", "SUB"]), x, x)
        elif k == "reshape_dyn":        # RESHAPE whose shape operand is a run-time tensor: must fall back to the CPU
            x = net.fm("in", [1, 4, 4, 8], is_input=True)
            x2 = net.fm("in2", [1, 4, 4, 8], is_input=True)
            s = net.fm("shape", [2], "INT32", None, is_input=True)
            a = net.eltwise("ADD", x, x2)
            y = net.fm("out", [16, 8], "INT8", 0.1, -1)
            net.op("RESHAPE", [a, s], [y], ["ReshapeOptions", {"NewShape": [16, 8]}])
            fb = True
        elif k == "custom_noopts":      # third-party custom operator without custom_options
            x = net.fm("in", [1, 4, 4, 8], is_input=True)
            y = net.fm("out", [1, 4, 4, 8])
            net.op("CUSTOM", [net.conv(x, 8, 1)], [y], custom_code="ThirdPartyOp")
            fb = True
        elif k == "bias40":             # int16 convolution with an int64 bias of 40-bit magnitude
            x = net.fm("in", [1, 4, 4, 8], "INT16", 0.001, 0, is_input=True)
            y = net.conv(x, 8, 1, oscale=0.002)
            b = net.t[net.o[-1]["inputs"][2]]
            b["data"] = [(1 << 39) if i % 2 else -(1 << 39) for i in range(8)]
        elif k == "split_strided":      # slice read fused into a strided operator
            x = net.fm("in", [1, 8, 16, 8], is_input=True)
            ys = net.split(x, 2, axis=2)
            y = net.pool(ys[1], "MAX_POOL_2D", k=2, stride=2)
        elif k == "cpu_concat3":        # CPU operator whose third operand comes from the NPU
            x = net.fm("in", [1, 4, 4, 8], is_input=True)
            a = net.fm("a", [1, 4, 4, 8], is_input=True)
            b = net.fm("b", [1, 4, 4, 8], is_input=True)
            c = net.conv(x, 8, 1, oscale=0.05, ozp=0)
            y = net.fm("out", [1, 4, 4, 24])
            net.op("CONCATENATION", [c, a, b], [y], ["ConcatenationOptions", {"Axis": 3, "FusedActivationFunction": 5}])
            fb = True
        elif k == "bcast_one":          # run-time one-element operand broadcast over a large feature map
            x = net.fm("in", [1, rng.choice([32, 64]), 64, rng.choice([16, 32])], is_input=True)
            b = net.fm("b", [1, 1, 1, 1], scale=0.02, zp=1, is_input=True)
            y = net.eltwise(rng.choice(["ADD", "MUL", "SUB"]), x, b)
        elif k == "reduce_scalar_axis":     # CPU-resident reduction whose axis operand is a rank-0 constant
            x = net.fm("in", [1, 4, 4, 8], is_input=True)
            a = net.eltwise("ADD", x, net.fm("in2", [1, 4, 4, 8], is_input=True))
            ax = net.const("axis", [], rng.choice(["INT32", "INT64"]), data=[3])
            y = net.fm("out", [1, 4, 4], "INT8", 0.1, -1)
            net.op(rng.choice(["REDUCE_MAX", "REDUCE_MIN", "REDUCE_PROD"]), [a, ax], [y], ["ReducerOptions", {"KeepDims": False}])
            fb = True
        elif k == "mean_rank1":             # MEAN over a rank-1 tensor
            ln = rng.choice([1, 16, 17])
            x = net.fm("in", [ln], is_input=True)
            ax = net.const("axis", [1], "INT32", data=[0])
            y = net.fm("out", [1], "INT8", 0.05, 0)
            net.op("MEAN", [x, ax], [y], ["ReducerOptions", {"KeepDims": True}])
        elif k == "two_outputs":
            x = net.fm("in", [1, 8, 8, 8], is_input=True)
            a = net.conv(x, 8, 3)
            b = net.unary("TANH", a)
            out.append(("corner:" + k, net.desc([a, b]), False))
            continue
        out.append(("corner:" + k, net.desc([y]), fb))
    return out


# ---- corner lattices enumerated by TLC (spec/CliCorners.tla) -----------------------------------
QPACK = 12         # records of the quantisation lattice compiled by one invocation (independent branches of one model)


def corner_env(tier, sd):
    return {"CORNER_TIER": tier, "CORNER_SEED": str(sd % 12)}


def corner_lattice(run, tier, sd):
    """[(label, net, fallback_only, [keys of the records])]: every record TLC enumerates for this tier and seed"""
    import json
    res = tlc.must_ok(tlc.run("CliCorners", "CliCorners.cfg", workers=1, env=corner_env(tier, sd), timeout=600), "CliCorners enumeration")
    run.add_mc("CliCorners(enumerate)", res)
    recs = [json.loads(tlc.parse_value(p)[1]) for p in res["printed"] if p.startswith('<<"CORNER"')]
    if len(recs) != res["distinct"] or not recs:
        raise MachineryError("CliCorners printed %d records for %d states" % (len(recs), res["distinct"]))
    recs.sort(key=lambda r: json.dumps(r, sort_keys=True))
    out = []
    by_dt = {}
    for r in recs:
        if r["fam"] == "qscale":
            by_dt.setdefault(r["dt"], []).append(r)
        else:
            label, net, fb = corners.build([r], sd)
            out.append((label, net, fb, [corners.key(r)]))
    for dt in sorted(by_dt):
        rs = sorted(by_dt[dt], key=lambda r: (r["op"], r["e"], r["m"]))
        for k in range(0, len(rs), QPACK):
            label, net, fb = corners.build(rs[k:k + QPACK], sd)
            out.append((label, net, fb, [corners.key(r) for r in rs[k:k + QPACK]]))
    fams = {}
    for r in recs:
        fams[r["fam"]] = fams.get(r["fam"], 0) + 1
    run.cov["corner_lattice"] = {"records": fams, "models": len(out)}
    return out


def _cover(res):
    """the COVER line of CliTrace: records of the plan that no event of the batch carries"""
    import json
    import re
    m = re.search(r'<<\s*"COVER",\s*"((?:[^"\\]|\\.)*)"\s*>>', res["output"], re.S)
    if not m:
        raise MachineryError("CliTrace printed no COVER line")
    return json.loads(json.loads('"' + m.group(1).replace("\n", " ") + '"'))


def negative_controls(events, env):
    """corrupted copies of recorded corner events must be rejected; a batch that lost a corner model must be reported"""
    cev = [e for e in events if e.get("corner") and e["status"] == 0 and e["wrote"] and not e["tb"] and e["parses"]]
    if not cev:
        raise MachineryError("vacuity: no corner model compiled")
    a = dict(cev[0], fallback_only=False)
    ctl = [dict(a, t=0), dict(a, t=1, tb=True, status=1, wrote=False, parses=False), dict(a, t=2, status=1, wrote=False, diag=True, parses=False, fallback_only=True),
           dict(a, t=3, parses=False), dict(a, t=4, timeout=True)]
    _, v = tlc.validate_traces("CliTrace", "CliTrace.cfg", ctl)
    got = {(x[0], x[1]) for x in v}
    want = {(1, "CompilesOrDiagnoses"), (2, "UnsupportedFallsBackToCpu"), (3, "OutputIsAModel"), (4, "Terminates")}
    if got != want:
        raise MachineryError("negative control of CliTrace failed: got %s want %s" % (sorted(got), sorted(want)))
    # coverage clause: a batch that carries only this one corner model must be told that every other record is missing
    res, _ = tlc.validate_traces("CliTrace", "CliTrace.cfg", ctl[:1], env=env)
    missing = set(_cover(res))
    carried = {k for e in events for k in e.get("corner", [])}
    if missing != carried - set(a["corner"]) or not missing or set(a["corner"]) & missing:
        raise MachineryError("coverage control of CliTrace failed: %d records reported missing, %d expected"
                             % (len(missing), len(carried - set(a["corner"]))))
    return {"rejected": sorted("%d:%s" % g for g in got), "dropped_model_reported": len(missing)}


def _invoke(args):
    i, label, net, opts, d = args
    sub = os.path.join(d, "j%d" % i)
    os.makedirs(sub)
    mpath = os.path.join(sub, "m.tflite")
    try:
        data = netgen.build(net)
    except Exception as e:      # generator bug: machinery, not verdict
        return {"i": i, "gen_error": repr(e)}
    with open(mpath, "wb") as f:
        f.write(data)
    r = vela_run.run_cli(mpath, opts, sub, timeout=600)
    parses = False
    if r["output"]:
        try:
            from ..artefact import parse_model
            parse_model(open(r["output"], "rb").read())
            parses = True
        except Exception:
            parses = False
    text = r["stdout"] + r["stderr"]
    ev = {"t": i, "status": r["rc"] if r["rc"] in (0, 1, 2) else 1, "wrote": r["output"] is not None,
          "diag": ("Error" in text) or ("error:" in text) or ("usage:" in r["stderr"]),
          "tb": "Traceback (most recent call last)" in text, "timeout": r["timeout"], "parses": parses}
    tail = [ln for ln in text.splitlines() if ln.strip()][-3:]
    if ev["tb"]:
        import re
        frames = re.findall(r'File "[^"]*?([\w.]+\.py)", line \d+, in (\w+)', text)
        exc = next((ln.strip() for ln in reversed(text.splitlines()) if re.match(r"^\w*(Error|Exception)\b", ln.strip())), "")
        exc = re.sub(r"0x[0-9a-f]+|/var/tmp/\S+|\d{4,}", "#", exc)[:140]
        tail = tail + ["%s @ %s:%s" % (exc, frames[-1][0], frames[-1][1]) if frames else exc]
    shutil.rmtree(sub, ignore_errors=True)
    return {"i": i, "ev": ev, "rc": r["rc"], "tail": tail, "args": r["args"][1:], "wall": r["wall"]}


def signature(tail):
    """Identity of a failure for the known-findings file: the last line of the traceback (exception text)."""
    return tail[-1][:160] if tail else "no output"


def pipeline_component(run, tier, sd):
    """growth beyond the listed property (DESIGN.md section 8): Pipeline.tla refines the Compile step of Cli.tla into the
    phases of compiler_driver with their data dependencies (model-checked with a negative control); the phase sequence
    of real in-process compilations (run-time wrappers, no source hook) is validated against it by PipelineTrace.tla.
    Findings are data (LATENT lines, evidence key `pipeline`), never verdicts of C13."""
    from .. import pipeline
    for name, res in pipeline.mc():
        run.add_mc(name, res)
    jobs = corpus.all_singles(sd, tier=tier)[:40 if tier == "quick" else 10 ** 6]
    jobs += corpus.draw(36 if tier == "quick" else 400, sd + 5, families=["mixed", "cpuouts", "branch", "chain", "fallback", "memonly"])
    pipeline.install()
    try:
        rs = vela_run.compile_many(jobs, extractor=pipeline.extractor)
    finally:
        pipeline.uninstall()
    bad = [x.get("extract_error") for x in rs if x.get("extract_error")]
    if bad:
        raise MachineryError("pipeline extractor failed: %s" % bad[0])
    res, findings, cnt, events = pipeline.validate([x.get("extract") for x in rs])
    run.add_trace_run("PipelineTrace", res, cnt["compilations"])
    run.cov["pipeline"] = {"counters": cnt, "negative_controls": pipeline.negative_controls(events), "latent": len(findings),
                           "first": [dict(f, family=jobs[f["record"]]["family"]) for f in findings[:10]]}
    for f in findings[:20]:
        print("LATENT: Pipeline %s %s(%s) in %s" % (f["pred"], f["phase"], f["index"], jobs[f["record"]]["family"]))


def main(tier, only=None):
    run = Run("C13", tier)
    sd = seed()
    rng = random.Random(sd)
    # ---- MC: the protocol itself
    res = tlc.must_ok(tlc.run("Cli", "Cli_MC.cfg", workers=2, coverage=True), "Cli MC")
    run.add_mc("Cli", res)
    for a in ("Cli.Advance", "Cli.ArgReject", "Cli.VelaReject", "Cli.WriteOk"):
        if res["actions"].get(a, 0) == 0:
            raise MachineryError("vacuity: action %s never taken" % a)
    crash = tlc.run("Cli", "Cli_Crash.cfg", workers=2)
    if crash["status"] != "invariant":
        raise MachineryError("non-vacuity control failed: Crash does not violate CompilesOrDiagnoses")
    run.add_mc("Cli(AllowCrash control)", crash)
    # ---- S2C: option combinations from the spec x models
    n = 320 if tier == "quick" else 3000
    optrecs = options_from_tlc(run, n, sd)
    models = [(e["family"], e["net"], False) for e in corpus.all_singles(sd, tier=tier)]
    hints = {}
    for e in corpus.draw(max(int(n * 0.6) - len(models), 40), sd):      # keep family draws when all_singles is wide
        models.append((e["family"], e["net"], False))
        if e.get("hint"):
            hints[id(e["net"])] = e["hint"]
    models += corner_models(rng, n - len(models))
    rng.shuffle(models)
    # graph shapes (corpus_shapes.py) and the legacy families whose failure classes need their hinted configuration, appended
    # with option records of their own (the pairing of the models above with their option records is unchanged); emphasis:
    # tensors with two interface roles, few channels on two cores, competing fast-storage groups, widening elementwise
    # chains, tied weights, early CPU outputs
    models = models[:len(optrecs)]
    optrecs = optrecs[:len(models)]
    focus = corpus.shape_jobs(sd, tier, extra=["io_alias"] * 2 + ["tiny_depth"] * 3 + ["fsgroups"] * 3 + ["skip_out", "ewchain"], thorough=20)
    if focus:
        focus += corpus.draw(8 if tier == "quick" else 160, sd + 29, families=["diamonds", "widen", "tied", "widen", "diamonds", "widen", "tied", "widen"])
        recs = options_from_tlc(run, len(focus), sd + 7919)
        for e, rec in zip(focus, recs):
            models.append((e["family"], e["net"], False))
            optrecs.append(rec)
            if e.get("hint"):
                hints[id(e["net"])] = e["hint"]
    # corner lattices enumerated by TLC (CliCorners.tla): extreme quantisation parameters, multi-output CPU operators in
    # CPU/NPU interleavings, deep chains; appended with option records of their own
    lattice = corner_lattice(run, tier, sd)
    recs = options_from_tlc(run, len(lattice), sd + 104729)
    if len(recs) < len(lattice):
        raise MachineryError("CliSpace produced %d option records for %d corner models" % (len(recs), len(lattice)))
    corner_of = {}
    for (label, net, fb, keys), rec in zip(lattice, recs):
        corner_of[len(models)] = keys
        models.append((label, net, fb))
        optrecs.append(rec)
    from .. import codec
    codec.shim_dir()          # build the codec once, before the invocation threads start
    d = run.tmpdir("c13")
    jobs = []
    for i, (label, net, fb) in enumerate(models[:len(optrecs)]):
        o = to_opts(optrecs[i])
        if id(net) in hints:      # the family knows the (valid) option values under which it is interesting
            o.update(hints[id(net)])
            o = {k: v for k, v in o.items() if v is not None}
        jobs.append((i, label, net, o, d))
    with ThreadPoolExecutor(16) as ex:
        results = list(ex.map(_invoke, jobs))
    events, meta = [], {}
    for (i, label, net, opts, _), r in zip(jobs, results):
        if "gen_error" in r:
            raise MachineryError("model generator failed for %s: %s" % (label, r["gen_error"]))
        fb = models[i][2] and "arena" not in opts and "config" not in opts
        ev = dict(r["ev"], valid_options=True, fallback_only=fb, corner=corner_of.get(i, []))
        events.append(ev)
        meta[i] = {"family": label, "args": r["args"], "net": net, "tail": r["tail"], "rc": r["rc"]}
        run.evaluated()
        run.nontrivial((label, tuple(r["args"])))
        run.sample({"family": label, "args": r["args"], "outcome": r["ev"]})
    tres, viol = tlc.validate_traces("CliTrace", "CliTrace.cfg", events, env=corner_env(tier, sd))
    run.add_trace_run("CliTrace", tres, len(events))
    uncovered = _cover(tres)
    if uncovered:
        raise MachineryError("vacuity: %d records of the corner lattice of CliCorners.tla reached no invocation: %s"
                             % (len(uncovered), uncovered[:5]))
    run.cov["negative_controls"] = negative_controls(events, corner_env(tier, sd))
    for t, name in viol:
        m = meta[t]
        key = "%s|%s" % (name, signature(m["tail"]))
        run.violation(key, "%s: %s with %s -> rc=%s; %s" % (name, m["family"], " ".join(m["args"]), m["rc"],
                                                           " / ".join(m["tail"])),
                      {"net": m["net"], "args": m["args"], "observed": events[t], "output_tail": m["tail"]})
    pipeline_component(run, tier, sd)
    run.cov["rule"] = ("one CLI subprocess per (model, option record); option records are final states of CliSpace.tla "
                       "behaviours drawn by TLC -simulate; models from the shared corpus, the corner-shape "
                       "families and the corner lattices TLC enumerates from CliCorners.tla (quantisation binades at the "
                       "limits of the scale shift / multiplier, multi-output CPU operators in CPU/NPU interleavings, deep "
                       "chains; CliTrace.tla recomputes the plan and reports records no invocation carried); "
                       "distinct = distinct (family, argument list)")
    run.cov["outcomes"] = {k: sum(1 for e in events if (e["status"], e["wrote"]) == k2) for k, k2 in
                           (("compiled", (0, True)), ("rejected", (1, False)), ("usage", (2, False)))}
    run.assumptions += ["a diagnosis is recognised by 'Error'/'error:'/'usage:' in the output; a crash by a Python traceback",
                        "termination bound: 600 s per invocation"]
    return run.finish()


def replay(path):
    import json
    rp = json.load(open(path))["replay"]
    run = Run("C13", "quick")
    d = run.tmpdir("c13r")
    r = _invoke((0, "replay", rp["net"], {"extra": rp["args"][3:]}, d))
    print(r)
    run.cleanup()
    return 0 if not r["ev"]["tb"] else 1
