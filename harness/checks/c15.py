"""C15 - every block configuration used or offered is valid for the hardware.

MC   : ShramAllocMC.tla - the TLA+ transcription of architecture_allocator's bank arithmetic (ShramAlloc.tla)
       satisfies the requirement Shram.tla (BlockOK, Ordered, LutReserved, IfmFits, Ifm2Fits, AccFits) on a grid of
       operations x blocks x 6 accelerators; every candidate of find_block_config's and of the public query's
       search loops is a legal block.  Control: the same grid with one bank of slack demanded must fail (Slack).
S2C  : the operation lattice of the MC configuration (the .cfg file is read by TLC and by this driver) plus random
       large operations are built as public-API operations (NpuConv2DOperation ...) and pushed through the REAL
       api.npu_find_block_configs, architecture_allocator.find_block_config / try_block_config of the working tree;
       every offered configuration (dense for small operations, sampled beyond) is placed in a one-operation list
       and given to api.npu_generate_register_command_stream.
C2S  : the emitted words are decoded (harness/artefact.decode) and one record per (operation, configuration) -
       what the words program: OFM_BLK_*, IFM_IB_END, IFM2_IB_START, AB_START, ACC_FORMAT, plus the operation
       as the words describe it - is validated by ShramTrace.tla against Shram.tla in batches of thousands.
       The same for the kernel operations of command streams of compiled networks (scheduler's choices).
Model drift (transcription vs code) is evaluated by the trace spec too and reported as evidence only.
"""
import hashlib
import json
import os
import random
import re
import traceback
from concurrent.futures import ThreadPoolExecutor

from .. import tlc
from ..common import Run, MachineryError, SPEC, seed, ensure_repo_on_path

ACCELS = ["ethos-u55-32", "ethos-u55-64", "ethos-u55-128", "ethos-u55-256", "ethos-u65-256", "ethos-u65-512"]
UBLOCK = {"ethos-u55-32": (1, 1, 4), "ethos-u55-64": (1, 1, 8), "ethos-u55-128": (2, 1, 8)}   # (w, h, d); default (2, 2, 8)
EW_UNARY = ("ABS", "LRELU", "CLZ")
EW_BINARY = ("ADD", "SUB", "MUL", "MIN", "MAX", "SHR", "SHL")
REQUIREMENTS = ("BlockOK", "Ordered", "LutReserved", "IfmFits", "Ifm2Fits", "AccFits", "Accepted", "BlockEmitted",
                "WellFormed")


def ublock(accel):
    return UBLOCK.get(accel, (2, 2, 8))


# =============================================================================== the operation lattice
def read_cfg(name):
    """CONSTANT lines of a TLC configuration file -> {name: sorted list of ints | int}."""
    out = {}
    for ln in open(os.path.join(SPEC, name)):
        m = re.match(r"\s*CONSTANT\s+(\w+)\s*=\s*(.*)$", ln)
        if not m:
            continue
        v = m.group(2).strip()
        out[m.group(1)] = sorted(int(x) for x in re.findall(r"-?\d+", v)) if v.startswith("{") else int(v)
    return out


def lattice(consts):
    """Python mirror of ShramAllocMC!Cases (family "op"); the count is compared with TLC's."""
    kernels = [(k // 100, k % 100) for k in consts["KernelCodes"]]
    strides = [(s // 10, s % 10) for s in consts["StrideCodes"]]
    out = []
    for a in ACCELS:
        uh = ublock(a)[1]

        def ofm_hs(kah):
            return (1, 8) if kah == 1 and uh == 2 else (8,)

        def bs(kind):
            r = [(8, 1), (16, 1)]
            if kind != "pool":
                r.append((16, 0))
            if kind == "rsum":
                r.append((32, 1))
            return r
        for part in (False, True):
            for bits, sc in bs("conv"):
                for lut in (False, True):
                    for up in (0, 1, 2):
                        for kah, kaw in kernels:
                            for sy, sx in strides:
                                for idp in consts["IfmDepths"]:
                                    for oh in ofm_hs(kah):
                                        out.append(dict(accel=a, kind="conv", part=part, bits=bits, scaled=sc, lut=lut, up=up,
                                                        kah=kah, kaw=kaw, sy=sy, sx=sx, ifm_d=idp, ofm_h=oh))
        for kind in ("dw", "pool"):
            for kah, kaw in kernels:
                for bits, sc in bs(kind):
                    for lut in (False, True):
                        for up in (0, 1, 2):
                            for sy, sx in strides:
                                for oh in ofm_hs(kah):
                                    out.append(dict(accel=a, kind=kind, part=False, bits=bits, scaled=sc, lut=lut, up=up,
                                                    kah=kah, kaw=kaw, sy=sy, sx=sx, ifm_d=8, ofm_h=oh))
        for bits, sc in bs("rsum"):
            for lut in (False, True):
                for idp in consts["IfmDepths"]:
                    for oh in ofm_hs(1):
                        out.append(dict(accel=a, kind="rsum", part=False, bits=bits, scaled=sc, lut=lut, up=0, kah=1, kaw=1,
                                        sy=1, sx=1, ifm_d=idp, ofm_h=oh))
        for bits in (8, 16, 32):
            for scalar in (False, True):
                for lut in (False, True):
                    out.append(dict(accel=a, kind="ew", part=False, bits=bits, scaled=1, lut=lut, up=0, kah=1, kaw=1, sy=1,
                                    sx=1, ifm_d=8, ofm_h=8, scalar=scalar))
    return out


def n_shape_cases(consts):
    return len(ACCELS) * 2 * len(consts["ShapeH"]) * len(consts["ShapeW"]) * len(consts["ShapeD"])


def case_from_point(p, rng, consts):
    """A lattice point -> a concrete operation: OFM 16 x 16 x 64 (one row where the point says so) so that the
    public query walks the whole block grid up to 16 x 16 x 64 in micro-block steps."""
    kah, kaw = p["kah"], p["kaw"]
    # a dilated extent e is realised as kernel size/dilation (e-1 = dil*(k-1))
    def split(e):
        if e > 1 and (e - 1) % 2 == 0 and rng.random() < 0.5:
            return (e - 1) // 2 + 1, 2
        return e, 1
    kh, dy = split(kah)
    kw, dx = split(kaw)
    c = dict(accel=p["accel"], kind=p["kind"], bits=p["bits"], scaled=p["scaled"], lut=p["lut"], part=p["part"],
             k=[kw, kh, p["sx"], p["sy"], dx, dy], up=p["up"], ifm_d=p["ifm_d"], scalar=bool(p.get("scalar", False)),
             bc=[False, False, False], sub="", origin="grid")
    c["ofm"] = [1 if p["ofm_h"] == 1 else 16, 16, 64]
    _fill_sub(c, rng)
    return c


def _ofm_bits(c, rng):
    """IFM and OFM precision are independent registers (IFM_PRECISION / OFM_PRECISION): every (IFM, OFM) pair of
    8/16/32-bit feature maps is realised, half of the operations keep equal precision"""
    if rng.random() < 0.5:
        return c["bits"]
    return rng.choice([b for b in (8, 16, 32) if b != c["bits"]])


def _fill_sub(c, rng):
    k = c["kind"]
    c["obits"] = _ofm_bits(c, rng)
    if k == "pool":
        c["sub"] = rng.choice(["MAX", "AVERAGE"])
        if c["scaled"] == 0 and c["sub"] == "AVERAGE":
            c["scaled"] = 2
    elif k == "rsum":
        c["sub"] = "REDUCE_SUM"
        if c["scaled"] == 0:
            c["scaled"] = 2
    elif k == "ew":
        if c["scalar"]:
            c["sub"] = rng.choice(EW_BINARY)
            c["scaled"] = 1
        else:
            c["sub"] = rng.choice(EW_BINARY + EW_UNARY) if not any(c["bc"]) else rng.choice(EW_BINARY)
            if c["sub"] in ("ABS", "LRELU"):
                c["scaled"] = 1
        c["ifm_d"] = c["ofm"][2]
    if k in ("dw", "pool"):
        c["ifm_d"] = c["ofm"][2]
    if k != "conv":
        c["part"] = False


def random_case(rng):
    kind = rng.choice(["conv", "conv", "conv", "dw", "pool", "rsum", "ew", "ew"])
    a = rng.choice(ACCELS)
    bits = rng.choice([8, 8, 16]) if kind in ("conv", "dw", "pool") else rng.choice([8, 16, 32])
    big = rng.random() < 0.6

    def dim(hi_small, hi_big):
        return rng.choice([1, 2, 3, rng.randint(1, hi_small), rng.randint(1, hi_big if big else hi_small)])
    ofm = [dim(20, 300), dim(20, 300), rng.choice([1, 3, 8, 16, 17, rng.randint(1, 64), rng.randint(1, 1100 if big else 96)])]
    if kind in ("ew",):
        k = [1, 1, 1, 1, 1, 1]
    else:
        kh, kw = rng.choice([1, 1, 2, 3, 3, 5, 7, rng.randint(1, 12)]), rng.choice([1, 1, 2, 3, 3, 5, 7, rng.randint(1, 12)])
        if kind == "rsum":
            kh = kw = 1
        k = [kw, kh, rng.choice([1, 1, 2, 3]), rng.choice([1, 1, 2, 3]), rng.choice([1, 1, 2]), rng.choice([1, 1, 2])]
    c = dict(accel=a, kind=kind, bits=bits, scaled=rng.choice([1, 1, 1, 0, 2]), lut=rng.random() < 0.3,
             part=rng.random() < 0.5, k=k, up=rng.choice([0, 0, 0, 1, 2]) if kind in ("conv", "dw", "pool") else 0,
             ifm_d=rng.choice([1, 3, 8, 12, 16, 17, 32, rng.randint(1, 600)]), scalar=False, bc=[False, False, False], sub="",
             ofm=ofm, origin="random")
    if kind == "rsum":
        c["ofm"][2] = rng.choice([1, 1, 1, 8, ofm[2]])
    if kind == "ew":
        r = rng.random()
        if r < 0.25:
            c["scalar"] = True
        elif r < 0.6:
            c["bc"] = [rng.random() < 0.5 and ofm[0] > 1, rng.random() < 0.5 and ofm[1] > 1, rng.random() < 0.5 and ofm[2] > 1]
    _fill_sub(c, rng)
    return c


def case_id(c):
    return "%s|%s%s|b%d>%d|q%d|lut%d|pk%d|k%s|up%d|ifmd%d|sc%d|bc%s|ofm%s" % (
        c["accel"], c["kind"], ("." + c["sub"]) if c["sub"] else "", c["bits"], c.get("obits", c["bits"]), c["scaled"], int(c["lut"]),
        int(c["part"]),
        "x".join(map(str, c["k"])), c["up"], c["ifm_d"], int(c["scalar"]), "".join(str(int(b)) for b in c["bc"]),
        "x".join(map(str, c["ofm"])))


# =============================================================================== real code: build, query, emit, decode
_API = {}


def _api():
    if not _API:
        ensure_repo_on_path()
        from ethosu.vela import api, architecture_allocator, architecture_features, operation, shape4d
        from ethosu.vela.ethos_u55_regs.ethos_u55_regs import resampling_mode
        _API.update(api=api, aa=architecture_allocator, af=architecture_features, op=operation, s4=shape4d, rm=resampling_mode)
    return _API


def _ext(k, d):
    return (k - 1) * d + 1


def _ifm_hw(c):
    kw, kh, sx, sy, dx, dy = c["k"]
    oh, ow, _ = c["ofm"]
    h = (oh - 1) * sy + _ext(kh, dy)
    w = (ow - 1) * sx + _ext(kw, dx)
    if c["up"]:
        h, w = (h + 1) // 2, (w + 1) // 2
    return max(h, 1), max(w, 1)


def shapes(c):
    """-> (ifm, ifm2 | None, ofm) as [h, w, d]"""
    ofm = list(c["ofm"])
    if c["kind"] == "ew":
        ifm = list(ofm)
        ifm2 = None
        if c["scalar"]:
            ifm2 = [1, 1, 1]
        elif c["sub"] not in EW_UNARY:
            ifm2 = [1 if c["bc"][0] else ofm[0], 1 if c["bc"][1] else ofm[1], 1 if c["bc"][2] else ofm[2]]
        return ifm, ifm2, ofm
    h, w = _ifm_hw(c)
    d = c["ifm_d"] if c["kind"] in ("conv", "rsum") else ofm[2]
    return [h, w, d], None, ofm


def build_op(c):
    A = _api()["api"]
    dts = {8: A.NpuDataType.INT8, 16: A.NpuDataType.INT16, 32: A.NpuDataType.INT32}
    dt, odt = dts[c["bits"]], dts[c.get("obits", c["bits"])]
    quant = {1: A.NpuQuantization(scale_f32=0.0625, zero_point=0), 0: None, 2: A.NpuQuantization(scale_f32=None, zero_point=0)}[c["scaled"]]

    def fm(shape, region, dtype=None):
        f = A.NpuFeatureMap()
        f.data_type = dtype or dt
        f.shape = A.NpuShape3D(height=shape[0], width=shape[1], depth=shape[2])
        f.tiles = A.NpuTileBox(height_0=shape[0], height_1=shape[0], width_0=shape[1], addresses=[0, 0, 0, 0])
        f.region = region
        f.layout = A.NpuLayout.NHWC
        f.quantization = quant
        return f
    ifm, ifm2, ofm = shapes(c)
    k = c["kind"]
    if k == "conv":
        op = A.NpuConv2DOperation()
        op.block_traversal = A.NpuBlockTraversal.PART_KERNEL_FIRST if c["part"] else A.NpuBlockTraversal.DEPTH_FIRST
    elif k == "dw":
        op = A.NpuConvDepthWiseOperation()
    elif k in ("pool", "rsum"):
        op = A.NpuPoolingOperation(getattr(A.NpuPoolingOp, c["sub"]))
    else:
        op = A.NpuElementWiseOperation(getattr(A.NpuElementWiseOp, c["sub"]))
    op.ifm = fm(ifm, 1)
    op.ofm = fm(ofm, 3, odt)
    if ifm2 is not None:
        op.ifm2 = fm(ifm2, 2)
        if c["scalar"]:
            op.ifm2_scalar = 1.0
    if k != "ew":
        op.kernel = A.NpuKernel(*c["k"])
        op.padding = A.NpuPadding(top=0, left=0, bottom=0, right=0)
    if k in ("conv", "dw"):
        op.weights = [A.NpuAddressRange(region=0, address=0, length=1600)]
        op.biases = [A.NpuAddressRange(region=0, address=32000, length=160)]
    if c["lut"]:
        op.activation = A.NpuActivation(A.NpuActivationOp.TABLE_LOOKUP)
        op.activation.lookup_table_index = 3
    op.ifm_upscale = [A.NpuResamplingMode.NONE, A.NpuResamplingMode.NEAREST, A.NpuResamplingMode.TRANSPOSE][c["up"]]
    return op


def npu_accel(name):
    A = _api()["api"]
    return getattr(A.NpuAccelerator, "Ethos_" + name[6:].upper().replace("-", "_"))


def record_from_regs(accel, opkind, param, regs):
    """What the emitted words program for one kernel operation, as a C15 record (independent of the API objects)."""
    g = regs.get
    kind = {"conv": "conv", "dw": "dw", "ew": "ew", "pool": "rsum" if param == 2 else "pool"}[opkind]
    bits = {0: 8, 1: 16, 2: 32}[(g("NPU_SET_IFM_PRECISION", 0) >> 2) & 3]
    accbits = {0: 32, 1: 40, 2: 16}.get(g("NPU_SET_ACC_FORMAT", 0), 0)
    ks = g("NPU_SET_KERNEL_STRIDE", 0)
    r = dict(accel=accel, kind=kind, bits=bits, accbits=accbits, lut=(g("NPU_SET_ACTIVATION", 0) & 0x1F) >= 16,
             up=g("NPU_SET_IFM_UPSCALE", 0), ifm_d=g("NPU_SET_IFM_DEPTH_M1", 0) + 1, ofm_h=g("NPU_SET_OFM_HEIGHT_M1", 0) + 1,
             part=False, scalar=False, binary=False, bc=[False, False, False], kah=1, kaw=1, sy=1, sx=1)
    if kind != "ew":
        r.update(kah=g("NPU_SET_KERNEL_HEIGHT_M1", 0) + 1, kaw=g("NPU_SET_KERNEL_WIDTH_M1", 0) + 1,
                 sx=1 + (ks & 1) + 2 * ((ks >> 6) & 7), sy=1 + ((ks >> 1) & 1) + 2 * ((ks >> 9) & 7))
        r["part"] = kind == "conv" and bool(ks & 4)
    else:
        if param not in (5, 6, 7):          # LRELU, ABS, CLZ are unary
            b = g("NPU_SET_IFM2_BROADCAST", 0)
            r["scalar"] = bool(b & 0x80)
            r["binary"] = not r["scalar"]
            if r["binary"]:
                r["bc"] = [bool(b & 1), bool(b & 2), bool(b & 4)]
    r["rblk"] = [g("NPU_SET_OFM_BLK_HEIGHT_M1", -1) + 1, g("NPU_SET_OFM_BLK_WIDTH_M1", -1) + 1, g("NPU_SET_OFM_BLK_DEPTH_M1", -1) + 1]
    r["lay"] = [-1, g("NPU_SET_IFM_IB_END", -1), g("NPU_SET_IFM2_IB_START", -1) if r["binary"] else -1, g("NPU_SET_AB_START", -1), -1]
    return r


def expected_descriptor(c):
    kw, kh, sx, sy, dx, dy = c["k"]
    ifm, ifm2, ofm = shapes(c)
    binary = c["kind"] == "ew" and ifm2 is not None and not c["scalar"]
    return dict(accel=c["accel"], kind=c["kind"], bits=c["bits"], lut=bool(c["lut"]), up=c["up"], ifm_d=ifm[2], ofm_h=ofm[0],
                part=bool(c["part"]) and c["kind"] == "conv", scalar=bool(c["scalar"]), binary=binary,
                bc=[bool(b) and binary for b in c["bc"]], kah=_ext(kh, dy) if c["kind"] != "ew" else 1,
                kaw=_ext(kw, dx) if c["kind"] != "ew" else 1, sy=sy if c["kind"] != "ew" else 1, sx=sx if c["kind"] != "ew" else 1)


def emit(c, op, blk, part=None):
    """place the block in the operation, run the real generator, decode -> (record | None, error text | None, is_fit_rejection)"""
    A = _api()["api"]
    from .. import artefact
    op.block_config = A.NpuShape3D(height=blk[0], width=blk[1], depth=blk[2])
    if part is not None and c["kind"] == "conv":
        op.block_traversal = A.NpuBlockTraversal.PART_KERNEL_FIRST if part else A.NpuBlockTraversal.DEPTH_FIRST
    try:
        words = A.npu_generate_register_command_stream([op], npu_accel(c["accel"]))
    except BaseException as e:       # noqa: B902  (AssertionError is what the generator raises)
        tb = traceback.format_exc()
        return None, "%s: %s" % (type(e).__name__, str(e)[:200]), "get_arch_block_config" in tb, tb
    ops = artefact.ops_with_waits(artefact.decode([int(w) for w in words]))
    ops = [o for o in ops if o["kind"] != "dma"]
    if len(ops) != 1:
        raise MachineryError("one-operation list decoded to %d kernel operations" % len(ops))
    return record_from_regs(c["accel"], ops[0]["kind"], ops[0]["param"], ops[0]["regs"]), None, False, None


def _internal_args(c):
    P = _api()
    S4, Bk = P["s4"].Shape4D, P["af"].Block
    ifm, ifm2, ofm = shapes(c)
    nbt = P["op"].NpuBlockType
    typ = {"conv": nbt.ConvolutionMxN, "dw": nbt.ConvolutionDepthWise, "pool": nbt.Pooling, "rsum": nbt.ReduceSum,
           "ew": nbt.ElementWise}[c["kind"]]
    kern = P["op"].Kernel(*c["k"]) if c["kind"] != "ew" else P["op"].Kernel(1, 1)
    rm = [P["rm"].NONE, P["rm"].NEAREST, P["rm"].TRANSPOSE][c["up"]]
    arch = P["af"].create_default_arch(P["af"].Accelerator(c["accel"]))
    return dict(arch=arch, typ=typ, kern=kern, rm=rm, S4=S4, Bk=Bk, ifm=ifm, ifm2=ifm2, ofm=ofm)


def _accbits(acc_type):
    SE = _api()["af"].SHRAMElements
    return {SE.Acc16: 16, SE.Acc32: 32, SE.Acc40: 40}[acc_type]


def _lay(layout):
    return [int(layout.ib_start), int(layout.ib_end), int(layout.ib_start2), int(layout.ab_start), int(layout.lut_start)]


def observe(args):
    """One operation through the real code.  Returns {"events": [...], "stats": {...}, "errors": [...]}; events lack "t"."""
    c, max_blocks, sd = args
    try:
        return _observe(c, max_blocks, sd)
    except MachineryError as e:
        return {"events": [], "stats": {}, "errors": ["machinery: %s (%s)" % (e, case_id(c))]}
    except BaseException:
        return {"events": [], "stats": {}, "errors": ["harness exception for %s\n%s" % (case_id(c), traceback.format_exc())]}


def _observe(c, max_blocks, sd):
    A = _api()["api"]
    aa = _api()["aa"]
    rng = random.Random(int(hashlib.sha256((case_id(c) + str(sd)).encode()).hexdigest()[:12], 16))
    op = build_op(c)
    exp = expected_descriptor(c)
    base = dict(exp, scaled=1 if c["scaled"] == 1 else 0)
    events, errors = [], []
    stats = {"offered": 0, "query_empty": 0, "sel_rejected": 0, "find_none": 0}
    # ---- the public query
    try:
        offered = [[b.height, b.width, b.depth] for b in A.npu_find_block_configs(op, npu_accel(c["accel"]))]
    except AssertionError as e:
        tb = traceback.format_exc()
        if "len(valid_block_configs) > 0" in tb:
            offered = []
            stats["query_empty"] = 1
        else:
            errors.append("query raised for %s\n%s" % (case_id(c), tb))
            offered = []
    stats["offered"] = len(offered)
    if len(offered) > max_blocks:
        keep = {0, len(offered) - 1} | set(rng.sample(range(len(offered)), max_blocks - 2))
        chosen = [offered[i] for i in sorted(keep)]
    else:
        chosen = offered
    ia = _internal_args(c)
    for blk in chosen:
        rec, err, fit_rejection, tb = emit(c, op, blk)
        if rec is None:
            if not fit_rejection:
                errors.append("generator raised outside the block-config path for %s blk=%s\n%s" % (case_id(c), blk, tb))
                continue
            ev = dict(base, src="query", blk=blk, rblk=blk, accbits=32, accepted=False, lay=[-1, -1, -1, -1, -1], why=err)
        else:
            mism = [k for k in exp if rec[k] != exp[k]]
            if mism:
                errors.append("decoder/driver disagreement on %s for %s: words say %s" % (mism, case_id(c), {k: rec[k] for k in mism}))
                continue
            ev = dict(base, src="query", blk=blk, rblk=rec["rblk"], accbits=rec["accbits"], accepted=True, lay=rec["lay"])
        events.append(ev)
    # ---- try_block_config itself (all five layout fields observable) on a few of the offered blocks
    for blk in chosen[:1] + chosen[-1:] + (rng.sample(chosen, 2) if len(chosen) > 4 else []):
        cfg = aa.try_block_config(ia["Bk"](blk[1], blk[0], blk[2]), ia["arch"], ia["typ"], ia["Bk"](ia["ofm"][1], ia["ofm"][0], ia["ofm"][2]),
                                  ia["Bk"](ia["ifm"][1], ia["ifm"][0], ia["ifm"][2]),
                                  ia["Bk"](ia["ifm2"][1], ia["ifm2"][0], ia["ifm2"][2]) if ia["ifm2"] else None,
                                  c["scalar"], c["bits"], bool(c["part"]) and c["kind"] == "conv", ia["kern"], 2 if c["lut"] else 0,
                                  c["scaled"] == 1, ia["rm"])
        if cfg is not None:
            events.append(dict(base, src="try", blk=blk, rblk=[cfg.ofm_block.height, cfg.ofm_block.width, cfg.ofm_block.depth],
                               accbits=_accbits(cfg.acc_type), accepted=True, lay=_lay(cfg.layout)))
    # ---- what the scheduler would select
    S4 = ia["S4"]
    found = aa.find_block_config(ia["arch"], ia["typ"], S4(1, *ia["ofm"]), S4(1, *ia["ifm"]), S4(1, *ia["ifm2"]) if ia["ifm2"] else None,
                                 c["scalar"], c["bits"], ia["kern"], 2 if c["lut"] else 0, c["scaled"] == 1, ia["rm"])
    if found is None:
        stats["find_none"] = 1
    else:
        blk = [found.ofm_block.height, found.ofm_block.width, found.ofm_block.depth]
        fbase = dict(base, part=bool(found.is_partkernel) and c["kind"] == "conv")
        events.append(dict(fbase, src="find", blk=blk, rblk=blk, accbits=_accbits(found.acc_type), accepted=True, lay=_lay(found.layout)))
        rec, err, fit_rejection, tb = emit(c, op, blk, part=bool(found.is_partkernel))
        if rec is None:
            if fit_rejection:
                stats["sel_rejected"] = 1
            else:
                errors.append("generator raised outside the block-config path for %s selected blk=%s\n%s" % (case_id(c), blk, tb))
        else:
            events.append(dict(fbase, src="sel", blk=blk, rblk=rec["rblk"], accbits=rec["accbits"], accepted=True, lay=rec["lay"]))
    for e in events:
        e["case"] = c
    return {"events": events, "stats": stats, "errors": errors}


# =============================================================================== compiled networks
def corpus_extract(nng, arch, res):
    """runs in the compiling child: nothing to take from the graph, the written model is decoded by the parent"""
    return {"accel": arch.accelerator_config.value}


BCAST_PATTERNS = ([True, True, True], [True, True, False], [True, False, True], [False, True, True], [True, False, False],
                  [False, True, False], [False, False, True])        # which of (H, W, C) of the second operand are 1


def ewbcast_entries(sd, per_pattern):
    """Binary elementwise networks whose second operand is a RUN-TIME (non-constant) feature map that is broadcast in every
    combination of dimensions - [1,1,1,1], [1,1,1,C], [1,1,W,1], ... - over small and large feature maps (up to 64x64x64),
    either operand order, for all six accelerators.  The scheduler selects the block configuration, the generator emits it."""
    from .. import corpus, netgen
    rng = random.Random(sd * 7919 + 15)
    out = []
    for a in ACCELS:
        for bc in BCAST_PATTERNS:
            n = per_pattern + (2 if all(bc) else 0)       # a one-element operand is one step away from a scalar: more sizes
            for j in range(n):
                large = j % 2 == 0
                if large:
                    hwc = [rng.choice([16, 24, 32, 48, 64]), rng.choice([16, 32, 40, 48, 64]), rng.choice([16, 24, 32, 64])]
                else:
                    hwc = [rng.choice([2, 3, 4, 8, 12]), rng.choice([2, 4, 5, 8, 16]), rng.choice([2, 4, 8, 16, 20])]
                dt = rng.choice(["INT8", "INT8", "INT8", "INT16"])
                kind = rng.choice(["ADD", "SUB", "MUL", "MINIMUM", "MAXIMUM"]) if dt == "INT8" else rng.choice(["ADD", "MUL"])
                net = netgen.Net(rng.randrange(1 << 16))
                zp = 0 if dt == "INT16" else 3
                x = net.fm("x", [1] + hwc, dt, 0.05 if dt == "INT8" else 0.001, zp, is_input=True)
                y = net.fm("y", [1] + [1 if b else d for b, d in zip(bc, hwc)], dt, 0.05 if dt == "INT8" else 0.001, zp, is_input=True)
                swap = rng.random() < 0.3
                o = net.eltwise(kind, y, x) if swap else net.eltwise(kind, x, y)
                if dt == "INT16":
                    net.t[o]["zp"] = [0]
                out.append({"family": "ewbcast:%s" % kind, "net": net.desc([o]), "opts": corpus.config_point(rng, a),
                            "ew": {"accel": a, "kind": kind, "bits": 8 if dt == "INT8" else 16, "bc": list(bc), "hwc": hwc, "swap": swap}})
    return out


_RE_NOFIT = re.compile(r"block_config NpuShape3D\(height=(\d+), width=(\d+), depth=(\d+)\) does not fit")


def rejected_selection(e, r):
    """a compilation that died in the generator's get_arch_block_config: the block the scheduler selected is not usable"""
    exc = r.get("exc") or ""
    m = _RE_NOFIT.search(exc)
    if r.get("rc") == 0 or not m or "get_arch_block_config" not in exc:
        return None
    ew = e.get("ew") or {}
    blk = [int(m.group(1)), int(m.group(2)), int(m.group(3))]
    return dict(src="sel", accel=e["opts"]["accel"], kind="ew" if ew else "conv", scalar=False, binary=bool(ew), bc=ew.get("bc", [False] * 3),
                bits=ew.get("bits", 8), accbits=32, scaled=-1, lut=False, part=False, kah=1, kaw=1, sy=1, sx=1, up=0,
                ifm_d=ew.get("hwc", [1, 1, 8])[2], ofm_h=ew.get("hwc", [8])[0], blk=blk, rblk=blk, accepted=False, lay=[-1] * 5,
                why=m.group(0) + " (compiler died in get_arch_block_config)",
                case={"family": e["family"], "opts": e["opts"], "net": e["net"], "ew": ew})


def corpus_events(n, sd, per_pattern=1):
    from .. import artefact, corpus, vela_run
    ents = corpus.all_singles(sd) if n >= 60 else corpus.all_singles(sd)[:n]
    if n > len(ents):
        ents = ents + corpus.draw(n - len(ents), sd + 15)
    ents = ents + ewbcast_entries(sd, per_pattern)
    # graph shapes (corpus_shapes.py): few channels, extreme extents, asymmetric strides ... (a rotating sample when n is small)
    ents = ents + corpus.shape_sample(sd, "quick", k=6 if n < 60 else 12)
    jobs = [{"id": i, "net": e["net"], "opts": e["opts"]} for i, e in enumerate(ents)]
    results = vela_run.compile_many(jobs, corpus_extract, timeout=600)
    events, compiled, fams = [], 0, {}
    for e, r in zip(ents, results):
        fam = e["family"].split(":")[0]
        st = fams.setdefault(fam, {"networks": 0, "compiled": 0, "rejected_selection": 0})
        st["networks"] += 1
        rej = rejected_selection(e, r)
        if rej is not None:
            st["rejected_selection"] += 1
            events.append(rej)
            continue
        if r.get("rc") != 0 or "out_bytes" not in r or "extract" not in r:
            continue
        compiled += 1
        st["compiled"] += 1
        accel = r["extract"]["accel"]
        model = artefact.parse_model(r["out_bytes"])
        for k, eo in enumerate(artefact.ethosu_ops(model)):
            words = artefact.parse_payload(eo["payload"])["words"]
            for o in artefact.ops_with_waits(artefact.decode(words)):
                if o["kind"] == "dma":
                    continue
                rec = record_from_regs(accel, o["kind"], o["param"], o["regs"])
                rec.update(src="corpus", blk=rec["rblk"], accepted=True, scaled=-1,
                           case={"family": e["family"], "opts": e["opts"], "net": e["net"], "op_index": o["index"], "custom_op": k})
                events.append(rec)
    return events, compiled, len(jobs), fams


# =============================================================================== validation
EVENT_FIELDS = ("t", "src", "accel", "kind", "scalar", "binary", "bc", "bits", "accbits", "scaled", "lut", "part", "kah", "kaw",
                "sy", "sx", "up", "ifm_d", "ofm_h", "blk", "rblk", "accepted", "lay")


def wire(e):
    return {k: e[k] for k in EVENT_FIELDS}


def validate(events, batch=4000, parallel=6):
    """-> (list of TLC results, violations [(t, name)], drift [(t, name)])"""
    chunks = [events[i:i + batch] for i in range(0, len(events), batch)]

    def one(ch):
        res, viol = tlc.validate_traces("ShramTrace", "ShramTrace.cfg", [wire(e) for e in ch], timeout=1800)
        drift = []
        for p in res["printed"]:
            if p.startswith('<<"DRIFT"'):
                val = tlc.parse_value(p)
                drift += [tuple(x) for x in (json.loads(val[1]) if val[1] else [])]
        if not any(p.startswith('<<"DRIFT"') for p in res["printed"]):
            raise MachineryError("ShramTrace printed no DRIFT line")
        return res, [tuple(v) for v in viol], drift
    with ThreadPoolExecutor(parallel) as ex:
        outs = list(ex.map(one, chunks))
    return [o[0] for o in outs], [v for o in outs for v in o[1]], [d for o in outs for d in o[2]]


QUANT = {1: "scaled", 0: "none", 2: "scale_none"}


def group_key(name, e):
    """stable identity of a class of failing cases: requirement, source, accelerator, operation class; the
    representative reported for the class is its smallest member"""
    cs = e.get("case") if isinstance(e.get("case"), dict) else {}
    q = QUANT.get(cs.get("scaled"), "na")
    return "%s|%s|%s|%s|bits=%d|obits=%s|acc=%s|lut=%d|up=%d|quant=%s" % (
        name, e["src"], e["accel"], e["kind"], e["bits"], cs.get("obits", "na"), e["accbits"] if e["accepted"] else "na", int(e["lut"]),
        e["up"], q)


def _size(e):
    return (e["blk"][0] * e["blk"][1] * e["blk"][2], e["kah"] * e["kaw"], e["sy"] * e["sx"], e["ifm_d"], json.dumps(wire(dict(e, t=0)), sort_keys=True))


def report(run, events, viol, max_keys=150):
    by_t = {e["t"]: e for e in events}
    groups = {}
    for t, name in viol:
        e = by_t[t]
        groups.setdefault(group_key(name, e), []).append(e)
    run.cov["violating_records"] = len({t for t, _ in viol})
    for key in sorted(groups)[:max_keys]:
        es = groups[key]
        e = min(es, key=_size)           # representative: the smallest failing case of the class
        name = key.split("|")[0]
        what = ("%s fails for %s %s (%d-bit IFM, %d-bit acc, lut=%s, kernel extent %dx%d stride %dx%d, upscale %d, IFM depth %d, OFM height %d) "
                "block h,w,d=%s on %s: emitted block %s, layout [ib_start, ib_end, ib_start2, ab_start, lut_start]=%s%s; %d records of this class fail"
                % (name, e["src"], e["kind"], e["bits"], e["accbits"], e["lut"], e["kah"], e["kaw"], e["sy"], e["sx"], e["up"], e["ifm_d"],
                   e["ofm_h"], e["blk"], e["accel"], e["rblk"], e["lay"], (" (" + e["why"] + ")") if e.get("why") else "", len(es)))
        run.violation(key, what, {"case": e["case"], "event": wire(e), "failed": name})
    if len(groups) > max_keys:
        run.cov["violation_classes_not_listed"] = len(groups) - max_keys


def mc(run, tier):
    cfg = "ShramAllocMC_Quick.cfg" if tier == "quick" else "ShramAllocMC_MC.cfg"
    consts = read_cfg(cfg)
    res = tlc.must_ok(tlc.run("ShramAllocMC", cfg, workers=16, coverage=True, timeout=3000, heap="8g"), "ShramAllocMC " + cfg)
    run.add_mc("ShramAllocMC/" + cfg, res)
    for a in ("PlaceBlock", "FindCand", "QueryCand"):
        if res["actions"].get("ShramAllocMC." + a, 0) == 0:
            raise MachineryError("vacuity: action %s of ShramAllocMC never taken" % a)
    points = lattice(consts)
    lat = [tlc.parse_value(p) for p in res["printed"] if p.startswith('<<"LATTICE"')]
    if not lat or lat[0][1:] != [len(points), n_shape_cases(consts)]:
        raise MachineryError("operation lattice of the driver (%d points, %d shapes) differs from ShramAllocMC's: %s"
                             % (len(points), n_shape_cases(consts), lat))
    ctl = tlc.run("ShramAllocMC", "ShramAllocMC_Tight.cfg", workers=8, timeout=900, heap="4g")
    if ctl["status"] != "invariant" or ctl.get("violated") != "Slack":
        raise MachineryError("negative control failed: demanding one extra accumulator bank does not violate Slack (%s)" % ctl["status"])
    run.add_mc("ShramAllocMC/Tight (control: must violate Slack)", ctl)
    return consts, points


def negative_controls(events):
    """corrupted copies of genuine records that ShramTrace must reject, and how"""
    def first(pred):
        for e in events:
            if e["accepted"] and pred(e):
                return dict(e)
        raise MachineryError("no record available for a negative control")
    out = []
    e = first(lambda x: x["src"] == "query" and x["kind"] == "conv")
    e["lay"] = [e["lay"][0], e["lay"][1], e["lay"][2], e["lay"][3] + 1, e["lay"][4]]      # one accumulator bank taken away
    out.append((e, "AccFits"))
    e = first(lambda x: x["src"] == "query" and x["kind"] != "ew")
    e["lay"] = [e["lay"][0], e["lay"][1] - 1, e["lay"][2], e["lay"][3], e["lay"][4]]      # one IFM bank taken away
    out.append((e, "IfmFits"))
    e = first(lambda x: x["src"] == "query" and x["kind"] == "ew" and x["binary"])
    e["lay"] = [e["lay"][0], e["lay"][1], e["lay"][1], e["lay"][3], e["lay"][4]]          # IFM2 region emptied
    out.append((e, "Ifm2Fits"))
    e = first(lambda x: x["src"] == "find" and x["accel"] in ACCELS[3:])
    e["lay"] = [e["lay"][0], e["lay"][1], e["lay"][2], e["lay"][3], 48]                   # reserved end banks used
    out.append((e, "Ordered"))
    e = first(lambda x: x["src"] == "find" and x["lut"] and x["accel"] in ACCELS[:2])
    e["lay"] = [e["lay"][0], e["lay"][1], e["lay"][2], e["lay"][3], 16]                   # LUT banks used
    out.append((e, "LutReserved"))
    e = first(lambda x: x["src"] == "query" and x["accel"] in ACCELS[3:])
    e["blk"] = [e["blk"][0] + 1, e["blk"][1], e["blk"][2]]
    e["rblk"] = list(e["blk"])                                                          # odd height on a 2-row micro-block
    out.append((e, "BlockOK"))
    e = first(lambda x: x["src"] == "query")
    e["rblk"] = [e["rblk"][0], e["rblk"][1], e["rblk"][2] + 8]
    out.append((e, "BlockEmitted"))
    e = first(lambda x: x["src"] == "query")
    e["accepted"] = False
    out.append((e, "Accepted"))
    return out


def main(tier, only=None):
    import multiprocessing as mp
    import time
    run = Run("C15", tier)
    sd = seed()
    phases = run.cov["phase_wall_s"] = {}
    t0 = time.time()

    def lap(name):
        nonlocal t0
        phases[name] = round(time.time() - t0, 1)
        t0 = time.time()
    rng = random.Random(sd)
    if only == "c2s":           # development aid (mutation runs): the design-level model checking does not depend on the code
        consts = read_cfg("ShramAllocMC_Quick.cfg" if tier == "quick" else "ShramAllocMC_MC.cfg")
        points = lattice(consts)
    else:
        consts, points = mc(run, tier)
    lap("model_checking")
    # ---- S2C: lattice points + random operations through the real code
    n_grid, n_rand, max_blocks, n_corpus = (len(points), 2000, 6, 32) if tier == "quick" else (len(points), 25000, 12, 160)
    rng.shuffle(points)
    # every (accelerator, kind) class of the lattice is present even in the quick sample
    cases = [case_from_point(p, rng, consts) for p in points[:n_grid]]
    cases += [random_case(rng) for _ in range(n_rand)]
    _api()
    ctx = mp.get_context("fork")
    with ctx.Pool(14) as pool:
        obs = pool.map(observe, [(c, max_blocks, sd) for c in cases], chunksize=8)
    errors = [x for o in obs for x in o["errors"]]
    if errors:
        raise MachineryError("%d harness-level failures, first:\n%s" % (len(errors), errors[0][:3000]))
    events = [e for o in obs for e in o["events"]]
    lap("api_and_allocator")
    for k in ("offered", "query_empty", "sel_rejected", "find_none"):
        run.cov[k] = sum(o["stats"].get(k, 0) for o in obs)
    cev, compiled, njobs, fams = corpus_events(n_corpus, sd, 1 if tier == "quick" else 4)
    run.cov["corpus"] = {"networks": njobs, "compiled": compiled, "kernel_operations": len(cev), "families": fams,
                         "binary_ew_with_runtime_broadcast_operand": sum(1 for e in cev if e["kind"] == "ew" and e["binary"] and any(e["bc"]))}
    if fams.get("ewbcast", {}).get("compiled", 0) + fams.get("ewbcast", {}).get("rejected_selection", 0) == 0:
        raise MachineryError("none of the broadcast elementwise networks compiled")
    if compiled == 0 or not cev:
        raise MachineryError("no compiled network produced a kernel operation (%d jobs)" % njobs)
    events += cev
    lap("corpus_compile")
    for i, e in enumerate(events):
        e["t"] = i
    # ---- negative controls ride in their own batch
    ctl = negative_controls(events)
    for j, (e, _) in enumerate(ctl):
        e["t"] = j
    cres, cviol, _ = validate([e for e, _ in ctl])
    for j, (e, name) in enumerate(ctl):
        if (j, name) not in cviol:
            raise MachineryError("negative control: a record corrupted to break %s was not rejected (%s)" % (name, wire(e)))
    run.cov["negative_controls"] = [n for _, n in ctl]
    # ---- C2S
    results, viol, drift = validate(events)
    for r in results:
        run.add_trace_run("ShramTrace", r, 0)
    run.cov["traces_validated_against_impl"] = len(events)
    run.evaluated(len(events))
    for e in events:
        run.nontrivial((e["src"], e["accel"], e["kind"], e["bits"], e["accbits"], e["lut"], e["up"], e["kah"], e["kaw"], e["sy"], e["sx"],
                        e["ifm_d"], e["ofm_h"], tuple(e["blk"]), e["scalar"], e["binary"], tuple(e["bc"])))
    for e in events[:3] + cev[:2]:
        run.sample(wire(e))
    lap("trace_validation")
    report(run, events, viol)
    by_src = {}
    for e in events:
        by_src[e["src"]] = by_src.get(e["src"], 0) + 1
    run.cov["records_by_source"] = by_src
    run.cov["operations"] = {"lattice": min(n_grid, len(points)), "lattice_size": len(points), "random": n_rand}
    dk = {}
    by_t = {e["t"]: e for e in events}
    for t, name in drift:
        k = "%s|%s|%s" % (name, by_t[t]["src"], by_t[t]["kind"])
        dk[k] = dk.get(k, 0) + 1
    run.cov["model_drift"] = dk
    run.cov["rule"] = ("operations = points of the ShramAllocMC lattice (constants of the .cfg, shared with TLC) realised with OFM 16x16x64 "
                       "(1x16x64 for one-row points) + seeded random operations (OFM up to 300x300x1100, kernels to 12x12, strides 1-3, "
                       "dilation 1-2, 8/16/32 bit, LUT, scalar/broadcast, upscaling, with/without scaling); per operation: all blocks the "
                       "public query offers (sampled to %d incl. first/last when more), each emitted through the real generator and decoded; "
                       "plus try_block_config and find_block_config results and the kernel operations of compiled corpus networks. "
                       "distinct = distinct (source, accelerator, operation descriptor, block)" % max_blocks)
    run.assumptions += ["hardware facts A-SH1..A-SH6 of spec/Shram.tla (bank counts, granules, micro-blocks, layout order, double buffering, "
                        "IFM block derivation, one-row accumulation, LUT in the last two banks) are taken from the repository's tables/comments",
                        "IFM buffers start at bank 2 and lut_start = first unusable bank when a record comes from a command stream "
                        "(these are not programmed by any register)",
                        "an exception of the generator outside get_arch_block_config is a harness error (exit 2), not a C15 verdict",
                        "an empty answer of the query (AssertionError 'len(valid_block_configs) > 0') is counted, not judged",
                        "the second operand of a broadcast elementwise operation only needs room for its broadcast block"]
    return run.finish()


def replay(path):
    rp = json.load(open(path))["replay"]
    c = rp["case"]
    ev = rp["event"]
    print("recorded:", json.dumps(ev))
    if "accel" in c and "kind" in c:
        _api()
        o = _observe(c, 10 ** 6, seed())
        evs = [e for e in o["events"] if e["blk"] == ev["blk"] and e["src"] == ev["src"]]
        if not evs:
            evs = o["events"]
        for i, e in enumerate(evs):
            e["t"] = i
        _, viol, drift = validate(evs)
        print("re-run of %s: %d records, violations %s" % (case_id(c), len(evs), sorted(set(n for _, n in viol))))
        for t, name in viol[:20]:
            print("  ", name, json.dumps(wire(evs[t])))
        return 1 if viol else 0
    ev["t"] = 0
    _, viol, _ = validate([ev])
    print("recorded corpus record re-validated:", viol)
    return 1 if viol else 0


def selftest():
    """the negative controls (8 corrupted records, the Slack configuration) are part of every run"""
    return main("quick")
