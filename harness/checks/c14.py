"""C14 - compilation is deterministic and independent of what the same process compiled before.

MC  : History.tla (process state = weight cache, equivalence-id memo, address map, debug database, RNG, and the
      caller-owned buffer the model arrives in; Compile(letter) for the entry points main / convert /
      convert_bytes with the clearing each of them really does; a letter = entry point x (model, options) x
      container).  History_MC.cfg (Policy "as_is", a reader that keeps views of the caller's buffer) is explored
      exhaustively for all histories of length <= 3 over a 30-letter alphabet and prints, per history, through
      which door each step can read earlier state: that is the replay plan.  Controls: as_is violates
      HistoryIndependent and NoFailureFromHistory (the design permits the leaks), Policy "clear_at_entry"
      satisfies all invariants, without the reseeding of the RNG it does not, clearing only the caches at entry
      leaks the debug database into <net>_debug.xml, and a reader that does not copy violates
      CallerStateUntouched, HistoryIndependent and ContainerIndependent.
S2C : every selected history is replayed in ONE fresh interpreter (harness/hist_driver.py, PYTHONHASHSEED set,
      the working tree's C codec) calling vela.main / vela.convert / vela.convert_bytes in sequence.
      A second stage does the same over generated corpus networks with their option points: X, X;X, P;X, ...
C2S : HistoryTrace.tla validates every recorded step: digests equal to the isolated reference
      (HistoryIndependent: output model, summary and every other file the options make the compilation write),
      no failure that the isolated run does not have (NoFailureFromHistory), equal under PYTHONHASHSEED 0/1/2,
      same outcome through the three entry points and the bytes-like containers of convert_bytes
      (EntryPointIndependent), the object handed to the entry point unchanged (CallerStateUntouched); the observed cache reads/writes are compared
      with History.tla and differences are reported as model drift (never as a violation).
"""
import json
import os
import random
import re
import shutil
import subprocess
import time
from concurrent.futures import ThreadPoolExecutor

from .. import codec, corners, corpus, netgen, tlc, vela_run
from .. import common
from ..common import Run, MachineryError, PY, REPO, seed

DRIVER = os.path.join(os.path.dirname(os.path.dirname(os.path.abspath(__file__))), "hist_driver.py")
ENTRIES = ("main", "convert", "convert_bytes")
U55 = ["--accelerator-config", "ethos-u55-128"]
PROPS = ("HistoryIndependent", "NoFailureFromHistory", "HashSeedIndependent", "EntryPointIndependent", "CallerStateUntouched")
CONTAINERS = ("file", "ba", "shared", "mvrw", "mvro")
DDB = ["--enable-debug-db"]
DBG = ["--enable-debug-db", "--verbose-performance"]
LOWREC = ["--recursion-limit", "1000"]      # the interpreter's own default: a valid value, fine for shallow networks
DEEP_DEPTH = 450            # operators in a row in the deep network (vacuity control: must not compile under LOWREC)
NEEDS = {"deepA": ["rec"]}  # interpreter-wide settings a model needs (History.tla Needs)
CAP_PER_GROUP = 6          # replay files written per (property, signature); every class is listed in the evidence


# ------------------------------------------------------------------------------------- alphabet
def hc_net(s):
    """Branching network with long-lived skip tensors: candidates for a non-optimal first hill-climb allocation."""
    r = random.Random(s)
    n = netgen.Net(s)
    H, W, C = r.choice([16, 24, 32]), r.choice([16, 32]), r.choice([4, 8])
    x = n.fm("in", [1, H, W, C], is_input=True)
    live = [x]
    for _ in range(r.randint(8, 16)):
        src = r.choice(live[-4:])
        k = r.random()
        if k < 0.35:
            y = n.conv(src, r.choice([4, 8, 12, 16, 24, 32]), r.choice([1, 3]))
        elif k < 0.5:
            y = n.conv(src, r.choice([8, 16]), 3, stride=2) if min(n.shape(src)[1:3]) >= 8 else n.conv(src, 8, 1)
        elif k < 0.6:
            y = n.pool(src, "MAX_POOL_2D") if min(n.shape(src)[1:3]) >= 8 else n.conv(src, 8, 1)
        elif k < 0.7 and max(n.shape(src)[1:3]) <= 16:
            y = n.resize(src)
        elif k < 0.8:
            y = n.cpu_op(src, "ROUND")
        else:
            cands = [t for t in live if t != src and n.shape(t) == n.shape(src)]
            if cands:
                y = n.eltwise("ADD", src, r.choice(cands))
            else:
                cands = [t for t in live if t != src and n.shape(t)[:3] == n.shape(src)[:3]]
                y = n.concat([src, r.choice(cands)]) if cands else n.conv(src, 16, 1)
        live.append(y)
    used = set(i for o in n.o for i in o["inputs"])
    return n.desc([t for t in live[1:] if t not in used])


HC_CANDIDATES = [241, 119, 273, 209, 163, 3]


def alphabet(sd, hc_seed=HC_CANDIDATES[0]):
    """models: name -> description; mos: name of (model, options) -> {model, args, acc, opts};
    letters: [(entry, mo, container)]."""
    def conv(s):
        n = netgen.Net(s)
        return n.desc([n.conv(n.fm("in", [1, 8, 8, 8], is_input=True), 8, 3)])

    def mean(h, w):
        n = netgen.Net(5)
        return n.desc([n.mean(n.fm("in", [1, h, w, 8], is_input=True))])

    def tanh(kind):
        n = netgen.Net(7 + sd)
        if kind == "A":
            return n.desc([n.unary("TANH", n.fm("in", [1, 8, 8, 8], scale=0.05, zp=0, is_input=True))])
        x = n.fm("in", [1, 6, 6, 8], is_input=True)
        return n.desc([n.unary("TANH", n.conv(x, 8, 3, oscale=0.05, ozp=0))])

    def pad_nc():
        # PAD of batch and channels at once: split_pad_to_sub_pad rewrites the paddings constant of the network in place
        n = netgen.Net(11 + sd)
        x = n.fm("in", [1, 6, 6, 8], is_input=True)
        return n.desc([n.pad(n.conv(x, 8, 3), [[1, 0], [0, 0], [0, 0], [0, 8]])])

    models = {"convA": conv(2 * sd + 1), "meanA": mean(8, 4), "meanB": mean(4, 8),
              "tanhA": tanh("A"), "tanhB": tanh("B"), "hcA": hc_net(hc_seed), "padNC": pad_nc(),
              "deepA": corners.deep_net(DEEP_DEPTH, ("add", "pool")[sd % 2], 3 + sd)}
    mos = {m: {"model": m, "args": [], "acc": "ethos-u65-256", "opts": []} for m in models}
    for m in ("convA", "meanA", "tanhA"):
        mos[m + "@u55"] = {"model": m, "args": list(U55), "acc": "ethos-u55-128", "opts": []}
    mos["convA+dbg"] = {"model": "convA", "args": list(DBG), "acc": "ethos-u65-256", "opts": ["ddb"]}
    mos["convA+rl"] = {"model": "convA", "args": list(LOWREC), "acc": "ethos-u65-256", "opts": ["lowrec"]}
    letters = [(e, mo, "file") for e in ("main", "convert") for mo in models if (e, mo) != ("convert", "padNC")] \
        + [("convert_bytes", mo, "ba") for mo in models if mo != "padNC"] \
        + [("convert_bytes", "padNC", c) for c in ("shared", "mvrw", "mvro")] \
        + [("main", mo, "file") for mo in mos if mo not in models]
    return models, mos, letters


def lname(letter):
    e, mo, c = letter
    return "%s%s:%s" % (e, "" if c in ("file", "ba") else "/" + c, mo)


# ------------------------------------------------------------------------------------- MC
def model_check(run):
    res = tlc.must_ok(tlc.run("History_MC", "History_MC.cfg", workers=4, coverage=True, timeout=600), "History MC (as_is plan)")
    run.add_mc("History(as_is, plan)", res)
    if res["actions"].get("History.Compile", 0) == 0:
        raise MachineryError("vacuity: History.Compile never taken")
    plan = {}
    for ln in res["printed"]:
        if ln.startswith('"PLAN|'):
            _, h, cls, kinds = ln.strip().strip('"').split("|")
            ent = plan.setdefault(tuple(h.split(";")), {"cls": None, "kinds": set(), "variants": []})
            c = cls.split(",")
            ent["variants"].append((kinds.split(","), c))
            # the exposure of step i is the same for all outcome choices of step i, but differs with the outcomes
            # of earlier steps (a failed step skips the clearing): keep the union per position
            ent["cls"] = c if ent["cls"] is None else ["".join(sorted(set(a) | set(b))) for a, b in zip(ent["cls"], c)]
            ent["kinds"].add(kinds)
    if not plan:
        raise MachineryError("History MC printed no PLAN lines")
    controls = {}
    ctl = (("History_AsIs_HI.cfg", "HistoryIndependent", "as_is must permit a changed result"),
           ("History_AsIs_NF.cfg", "NoFailureFromHistory", "as_is must permit a failure caused by history"),
           ("History_Fixed.cfg", None, "clear_at_entry with a copying reader must satisfy all invariants"),
           ("History_NoSeed.cfg", "HistoryIndependent", "without reseeding the RNG the result must depend on history"),
           ("History_CachesOnly.cfg", "HistoryIndependent", "clearing only the caches at entry must leak the debug database "
                                                            "into the files of a later --enable-debug-db compilation"),
           ("History_CachesOnly_NF.cfg", None, "... and nothing else"),
           ("History_NoCopy_CS.cfg", "CallerStateUntouched", "a reader keeping views must let an in-place rewrite modify the caller's buffer"),
           ("History_NoCopy_HI.cfg", "HistoryIndependent", "... and change the next compilation of the kept buffer"),
           ("History_NoCopy_CI.cfg", "ContainerIndependent", "... and fail on a read-only container"),
           ("History_NoLimit_EP.cfg", "EntryPointIndependent", "an entry point that does not raise the recursion limit itself must "
                                                               "fail alone on the deep network where the others succeed"),
           ("History_NoLimit_HI.cfg", "HistoryIndependent", "... and succeed on it after a call that left the limit raised"))
    with ThreadPoolExecutor(len(ctl)) as ex:
        outs = list(ex.map(lambda c: tlc.run("History_MC", c[0], workers=2, timeout=900), ctl))
    for (cfg, want, what), r in zip(ctl, outs):
        if r["status"] != ("invariant" if want else "ok") or (want and want not in str(r.get("violated"))):
            raise MachineryError("design control %s: %s (TLC status %s, violated %s)\n%s"
                                 % (cfg, what, r["status"], r.get("violated"), r["output"][-1500:]))
        run.add_mc("History(%s)" % cfg[8:-4], r)
        controls[cfg] = {"status": r["status"], "violated": r.get("violated"), "states": r["distinct"]}
    # the two new doors must be what these controls trip over, not one of the old ones
    if "ddb |-> TRUE" not in outs[4]["trace_text"] or "buf |-> TRUE" not in outs[7]["trace_text"] \
            or "lim |-> TRUE" not in outs[10]["trace_text"]:
        raise MachineryError("design controls CachesOnly / NoCopy_HI / NoLimit_HI are violated through another door than D / B / L")
    run.cov["design_controls"] = controls
    return plan


# ------------------------------------------------------------------------------------- replay of one history
def _env(hashseed):
    e = dict(os.environ)
    e.pop("PYTHONPATH", None)
    e["VERIF_HIST_REPO"] = REPO
    e["VERIF_HIST_CODEC"] = codec.build()
    e["PYTHONHASHSEED"] = str(hashseed)
    e["OPENBLAS_NUM_THREADS"] = e["OMP_NUM_THREADS"] = "1"     # no BLAS thread pool per interpreter (start-up cost only)
    return e


def _run_history(job):
    wd = os.path.join(job["dir"], "h%d" % job["id"])
    os.makedirs(wd)
    plan, out = os.path.join(wd, "plan.json"), os.path.join(wd, "result.json")
    with open(plan, "w") as f:
        json.dump({"workdir": wd, "steps": job["steps"]}, f)
    t0 = time.time()
    rc, err = None, ""
    try:
        p = subprocess.run([PY, "-P", DRIVER, plan, out], env=job["env"], cwd=wd, capture_output=True, text=True,
                           timeout=job.get("timeout", 600))
        rc, err = p.returncode, p.stderr[-600:]
    except subprocess.TimeoutExpired:
        rc, err = "timeout", ""
    res = None
    if os.path.exists(out):
        try:
            with open(out) as f:
                res = json.load(f)
        except ValueError:
            res = None
    shutil.rmtree(wd, ignore_errors=True)
    return {"id": job["id"], "rc": rc, "stderr": err, "res": res, "wall": time.time() - t0}


_NUM = re.compile(r"0x[0-9a-fA-F]+|\d+")


def _sig(exc, msg):
    msg = _NUM.sub("#", (msg or "").split("\n")[0])
    msg = re.sub(r"/[^ ']*/", "", msg)
    return ("%s %s" % (exc, msg)).strip()[:90]


def outcome(rec):
    """step record of the driver -> [ok, exc, dig, csv, art] (strings; '' where absent; art = [[file, digest]...])."""
    if rec is None:
        return {"ok": False, "exc": "ProcessDied", "dig": "", "csv": "", "art": []}
    if rec.get("died"):
        return {"ok": False, "exc": "ProcessDied rc=%s" % rec["died"], "dig": "", "csv": "", "art": []}
    if rec["exc"]:
        return {"ok": False, "exc": _sig(rec["exc"], rec["msg"]), "dig": "", "csv": "", "art": []}
    if rec["rc"] != 0:
        tail = [ln for ln in (rec.get("stdout_tail") or "").splitlines() if ln.strip()]
        return {"ok": False, "exc": _sig("Rejected", tail[-1] if tail else "rc=%s" % rec["rc"]), "dig": "", "csv": "", "art": []}
    if not rec["digest"]:
        return {"ok": False, "exc": "NoOutput", "dig": "", "csv": "", "art": []}
    return {"ok": True, "exc": "", "dig": rec["digest"], "csv": rec["csv"] or "", "art": [list(a) for a in rec.get("art") or []]}


class Replayer:
    """Runs histories (tuples of letter names) for one letter table; keeps results by (history, hashseed)."""

    def __init__(self, run, table, mdir):
        self.run = run
        self.table = table          # letter name -> {"entry", "model" (path), "args", "mo", "acc"}
        self.dir = run.tmpdir("c14h")
        self.mdir = mdir
        self.results = {}           # (history, seed) -> list of step records (None-padded)
        self.wall = 0.0
        self.n = 0

    def run_all(self, wanted, workers=16):
        wanted = [w for w in dict.fromkeys(wanted) if w not in self.results]
        envs = {}
        jobs = []
        for k, (h, sd) in enumerate(wanted):
            if sd not in envs:
                envs[sd] = _env(sd)
            steps = [{"entry": self.table[x]["entry"], "model": self.table[x]["model"], "args": self.table[x]["args"],
                      "container": self.table[x]["container"]} for x in h]
            jobs.append({"id": self.n + k, "steps": steps, "env": envs[sd], "dir": self.dir})
        self.n += len(jobs)
        t0 = time.time()
        with ThreadPoolExecutor(workers) as ex:
            outs = list(ex.map(_run_history, jobs))
        self.wall += time.time() - t0
        for (h, sd), o in zip(wanted, outs):
            res = o["res"]
            steps = list(res["steps"]) if res else []
            if res:
                vf = os.path.realpath(res.get("vela_file") or "")
                if not vf.startswith(os.path.realpath(REPO) + os.sep):
                    raise MachineryError("history driver imported ethosu.vela from %s, not from %s" % (vf, REPO))
                cf = res.get("codec_file") or ""
                if "/.cache/codec/" not in cf:
                    raise MachineryError("history driver did not load the private build of mlw_codec (%s)" % cf)
            if len(steps) < len(h):
                if o["rc"] == "timeout":
                    # far beyond any compilation of these networks: an overloaded machine, not a verdict
                    raise MachineryError("history driver timed out on [%s] (hashseed %s)" % ("; ".join(h), sd))
                if res is None and isinstance(o["rc"], int) and o["rc"] > 0:
                    # the driver itself failed before the first step (import error...): machinery, not verdict
                    raise MachineryError("history driver failed: rc=%s\n%s" % (o["rc"], o["stderr"]))
                steps.append({"died": o["rc"], "stderr": o["stderr"]})
                steps += [None] * (len(h) - len(steps))
            self.results[(h, sd)] = {"steps": steps, "init": res["init"] if res else None}
        return len(jobs)


# ------------------------------------------------------------------------------------- events
def _proj(rec, prev_after):
    if rec is None or rec.get("died"):
        z = {"vk": [], "vks": [], "wk": [], "wks": [], "amb": 0, "ama": 0, "ams": 0, "ddba": 0, "wca": 0, "eqa": 0,
             "rnga": "", "rngb": "", "rla": 0, "enva": "", "envb": "", "observed": False}
        return z
    a = rec["after"]
    return {"vk": rec["keys"]["vk"], "vks": rec["keys"]["vks"], "wk": rec["keys"]["wk"], "wks": rec["keys"]["wks"],
            "amb": prev_after["am_size"] if prev_after else 0, "ama": a["am_size"], "ams": rec["obs"]["am_stale_sets"],
            "ddba": sum(a["ddb"]), "wca": a["wc_size"], "eqa": a["eq_size"], "rnga": a["rng"],
            "rngb": prev_after["rng"] if prev_after else "", "rla": a.get("rl", 0), "enva": a.get("envd", ""),
            "envb": prev_after.get("envd", "") if prev_after else a.get("envd", ""), "observed": True}


def build_events(rp, items, tid0, peers_of, iso_of=None):
    """items: list of (history, seed).  Returns (events, meta) with meta[t] = (history, seed).
    iso_of(x) -> (step record of the reference run, "same" | "peer"): "same" = the same letter compiled alone,
    "peer" = the same model and options compiled alone through convert_bytes(bytearray) (another container)."""
    events, meta = [], {}
    if iso_of is None:
        iso_of = lambda x: (rp.results[((x,), 0)]["steps"][0], "same")
    for k, (h, sd) in enumerate(items):
        t = tid0 + k
        meta[t] = (h, sd)
        r = rp.results[(h, sd)]
        z = rp.results[(h, 0)]
        prev = r["init"]
        for i, x in enumerate(h):
            rec = r["steps"][i]
            o = outcome(rec)
            iso_rec, ref = iso_of(x)
            iso = outcome(iso_rec)
            zo = outcome(z["steps"][i])
            pj = _proj(rec, prev)
            if not pj.pop("observed"):
                # nothing is known about the caches after a crash of the interpreter: the history ends here
                pass
            seen = rec is not None and not rec.get("died")
            ev = {"t": t, "i": i + 1, "n": len(h), "e": rp.table[x]["entry"], "mo": rp.table[x]["mo"],
                  "c": rp.table[x]["container"], "mdl": rp.table[x]["mdl"], "opts": rp.table[x]["opts"], "ref": ref,
                  "acc": rp.table[x]["acc"], "seed": sd, "needs": rp.table[x].get("needs", []), "ok": o["ok"], "exc": o["exc"], "dig": o["dig"], "csv": o["csv"],
                  "art": o["art"],
                  "iok": iso["ok"], "iexc": iso["exc"], "idig": iso["dig"], "icsv": iso["csv"], "iart": iso["art"],
                  "zok": zo["ok"], "zexc": zo["exc"], "zdig": zo["dig"], "zcsv": zo["csv"], "zart": zo["art"],
                  "inb": rec["inb"] if seen else "", "ina": rec["ina"] if seen else "", "ino": rec["ino"] if seen else "",
                  "peers": peers_of(x) if (len(h) == 1 and sd == 0) else [],
                  "irnga": iso_rec["after"]["rng"] if iso_rec and not iso_rec.get("died") else ""}
            ev.update(pj)
            events.append(ev)
            if rec is None or rec.get("died"):
                break
            prev = rec["after"]
    return events, meta


def validate(run, events, name, cfg="HistoryTrace.cfg", batch=9000, account=True):
    """TLC over the batch (split on trace boundaries, a few TLC processes in parallel)."""
    chunks, cur = [], []
    for ev in events:
        if len(cur) >= batch and ev["i"] == 1:
            chunks.append(cur)
            cur = []
        cur.append(ev)
    if cur:
        chunks.append(cur)
    viol, drift = [], []

    def one(ch):
        return tlc.validate_traces("HistoryTrace", cfg, ch, timeout=1800)

    with ThreadPoolExecutor(4) as ex:
        outs = list(ex.map(one, chunks))
    for ch, (res, v) in zip(chunks, outs):
        if account:
            run.add_trace_run(name, res, len({e["t"] for e in ch}))
        viol += [tuple(x) for x in v]
        dl = [p for p in res["printed"] if p.startswith('<<"DRIFT"')]
        if not dl:
            raise MachineryError("HistoryTrace printed no DRIFT line")
        for d in dl:
            val = tlc.parse_value(d)
            drift += [tuple(x) for x in (json.loads(val[1]) if val[1] else [])]
    return sorted(set(viol)), sorted(set(drift))


def negative_controls(run, events):
    """Corrupted copies of a recorded clean two-step history must be rejected clause by clause."""
    base = None
    by_t = {}
    for ev in events:
        by_t.setdefault(ev["t"], []).append(ev)
    for t, evs in by_t.items():
        if len(evs) == 2 and all(e["ok"] and e["iok"] and e["dig"] == e["idig"] and e["csv"] == e["icsv"] and e["seed"] == 0
                                 and e["art"] == e["iart"] and e["art"] and e["ina"] == e["inb"] and e["ref"] == "same" for e in evs):
            base = evs
            break
    if base is None:
        return {"skipped": "no clean two-step history recorded"}
    def mut(tid, **kw):
        a, b = dict(base[0], t=tid, peers=[]), dict(base[1], t=tid, peers=[])
        b.update(kw)
        return [a, b]
    art2 = [list(a) for a in base[1]["art"]]
    extra = art2 + [["net_debug.xml", "corrupted"]]                   # one more file than alone
    other = art2[:-1] + [[art2[-1][0], "corrupted"]]                  # same files, one with other contents
    ctl = mut(1) + mut(2, dig="corrupted") + mut(3, ok=False, exc="AssertionError injected", dig="", csv="", art=[]) \
        + mut(4, zdig="other") + [dict(base[0], t=5, n=1, peers=[{"ok": True, "dig": "other-entry-digest", "l": "x"}])] \
        + mut(6, ama=0 if base[1]["ama"] else 7) \
        + mut(7, art=extra, zart=extra) + mut(8, art=other, zart=other) + mut(9, ina="corrupted") \
        + [dict(base[0], t=10, n=1, peers=[{"ok": False, "dig": "", "l": "x"}])] \
        + [dict(base[0], t=11, n=1, peers=[{"ok": True, "dig": base[0]["dig"], "l": "x"}])] \
        + mut(12, ref="peer", dig="corrupted", zdig="corrupted") + mut(13, zart=other) \
        + mut(14, rla=1000) + mut(15, enva="corrupted")
    res2, v = tlc.validate_traces("HistoryTrace", "HistoryTrace.cfg", ctl)
    got = {(x[0], x[2]) for x in v}
    want = {(2, "HistoryIndependent"), (3, "NoFailureFromHistory"), (4, "HashSeedIndependent"), (5, "EntryPointIndependent"),
            (7, "HistoryIndependent"), (8, "HistoryIndependent"), (9, "CallerStateUntouched"), (10, "EntryPointIndependent"),
            (12, "EntryPointIndependent"), (13, "HashSeedIndependent")}
    missing = want - got
    # controls 2 and 3 also differ from their seed-0 twin (the z fields are the clean ones): that clause fires as well
    spurious = {g for g in got if g[0] in (1, 6, 11, 14, 15) or (g not in want and g[1] != "HashSeedIndependent")}
    dl = [p for p in res2["printed"] if p.startswith('<<"DRIFT"')]
    dr = {(x[0], x[2]) for d in dl for x in json.loads(tlc.parse_value(d)[1])}
    if missing or spurious or (6, "addrmap.cleared") not in dr or (9, "cbuf.written") not in dr \
            or (14, "env.limit") not in dr or (15, "env.other") not in dr or (1, "env.limit") in dr or (1, "env.other") in dr:
        raise MachineryError("negative control of HistoryTrace failed: missing %s spurious %s drift %s" % (missing, spurious, sorted(dr)))
    return {"rejected": sorted("%d:%s" % g for g in got), "drift_detected": sorted("%d:%s" % g for g in dr if g[0] in (6, 9, 14, 15))}


# ------------------------------------------------------------------------------------- classification
def _art_diff(a, b):
    """which written files differ (kind of file, not its full name: the name carries the network)"""
    da, db = dict(map(tuple, a)), dict(map(tuple, b))
    kinds = sorted({re.sub(r"^.*?_(vela|summary|debug|per-layer)", r"\1", os.path.basename(n)) if "_" in n else n
                    for n in set(da) | set(db) if da.get(n) != db.get(n)})
    return "files differ: " + ", ".join(k if len(k) < 30 else k[:30] for k in kinds)


def what_differs(ev, prop):
    if prop == "NoFailureFromHistory":
        return ev["exc"]
    if prop == "CallerStateUntouched":
        return "the %s handed to %s was modified" % ({"file": "model file", "mvro": "bytes object behind the memoryview",
                                                       "mvrw": "bytearray behind the memoryview"}.get(ev["c"], "bytearray"), ev["e"])
    if prop == "HistoryIndependent":
        if not ev["iok"]:
            return "succeeds but fails alone"
        return "output differs" if ev["dig"] != ev["idig"] else "summary differs" if ev["csv"] != ev["icsv"] \
            else _art_diff(ev["art"], ev["iart"])
    if prop == "HashSeedIndependent":       # the seed is not part of the signature: one class per history
        if ev["ok"] != ev["zok"] or ev["exc"] != ev["zexc"]:
            return "hash seeds disagree: %s" % (ev["exc"] or "succeeds")
        return "hash seeds disagree: %s" % ("output differs" if ev["dig"] != ev["zdig"] else "summary differs"
                                            if ev["csv"] != ev["zcsv"] else _art_diff(ev["art"], ev["zart"]))
    if ev["ref"] == "peer":
        if ev["ok"] != ev["iok"]:
            return "%s while convert_bytes(bytearray) %s" % (ev["exc"] or "succeeds", ev["iexc"] or "succeeds")
        return "output differs from convert_bytes(bytearray)"
    bad = [p for p in ev["peers"] if p["ok"] != ev["ok"]]
    if bad:
        return "%s while %s %s" % (ev["exc"] or "succeeds", bad[0]["l"].split(":")[0], "succeeds" if bad[0]["ok"] else "fails")
    return "output differs between entry points"


def classify(viol, meta, evindex):
    """violations (t, i, prop) -> {key: class}; the class of a failing step is the shortest replayed history ending in
    that step that shows the same failure (the pair culprit;victim if that pair alone reproduces it).
    key = clause|minimal history|what differs|via=<doors observed at the failing step>."""
    sigs = {}       # (history prefix, seed) -> {(prop, sig)} at its last step
    for t, i, prop in viol:
        h, sd = meta[t]
        sigs.setdefault((h[:i], sd), set()).add((prop, what_differs(evindex[(t, i)], prop)))
    classes = {}
    for t, i, prop in viol:
        h, sd = meta[t]
        sig = what_differs(evindex[(t, i)], prop)
        cls = h[:i]
        if prop != "HashSeedIndependent":
            for j in range(i - 1, 0, -1):          # nearest earlier step first
                pair = (h[j - 1], h[i - 1])
                if (prop, sig) in sigs.get((pair, sd), ()) or (prop, sig) in sigs.get((pair, 0), ()):
                    cls = pair
                    break
        ent = classes.setdefault((prop, cls, sig), {"cls": cls, "prop": prop, "sig": sig, "cases": []})
        ent["cases"].append((h, sd, i, t))
    out = {}
    for (prop, cls, sig), c in classes.items():
        # the doors through which the failing step of the shortest recorded case read earlier state:
        # W stale weight-cache hit, E equivalence id served from the memo, A address assigned to an id that had one
        h, sd, i, t = min(c["cases"], key=lambda x: (len(x[0]), x[1], x[0]))
        ev = evindex[(t, i)]
        via = ("W" if ev["wks"] else "") + ("E" if ev["vks"] else "") + ("A" if ev["ams"] else "")
        c["rep"] = (h, sd, i, t)
        out["%s|%s|%s|via=%s" % (prop, ";".join(cls), sig, via or "none")] = c
    return out


# ------------------------------------------------------------------------------------- selection of histories
def select(plan, letters, tier, rng):
    names = [lname(l) for l in letters]
    l1 = [(a,) for a in names]
    l2 = [(a, b) for a in names for b in names]
    exposed3 = sorted(h for h, p in plan.items() if len(h) == 3 and any(p["cls"]))
    clean3 = sorted(h for h, p in plan.items() if len(h) == 3 and not any(p["cls"]))
    if set(plan) != set(l1) | set(l2) | set(exposed3) | set(clean3) or len(plan) != len(l1) + len(l2) + len(names) ** 3:
        raise MachineryError("alphabet of History_MC.tla and of the harness differ")
    if tier == "quick":
        # a compilation of the deep network costs ten times an ordinary letter: of the pairs that contain it, those with the
        # other deep letters, with convA through every entry point and with the low-limit command line (all in both orders)
        deep = {a for a in names if a.split(":")[1] in NEEDS}
        partner = deep | {a for a in names if a.split(":")[1] in ("convA", "convA+rl")}
        l2 = [h for h in l2 if not (set(h) & deep) or set(h) <= partner]
    items = [(h, 0) for h in l1 + l2]
    if tier == "quick":
        groups = {}
        for h in exposed3:
            g = (tuple(plan[h]["cls"]), tuple(x.split(":")[0] for x in h), tuple(x.split(":")[1][:4] for x in h))
            groups.setdefault(g, []).append(h)
        pick = [rng.choice(v) for _, v in sorted(groups.items())]
        rng.shuffle(pick)
        l3 = pick[:200] + rng.sample(clean3, 40)
        seeded = l1 + rng.sample(l2, 30) + rng.sample(l3, 12)
        items += [(h, 0) for h in l3] + [(h, s) for h in seeded for s in (1, 2)]
    else:
        l3 = exposed3 + rng.sample(clean3, 800)
        items += [(h, 0) for h in l3]
        items += [(h, 1) for h in l1 + l2] + [(h, 2) for h in l1] + [(h, 2) for h in rng.sample(l3, 300)]
    return items


def twins(sd):
    """pairs of different networks whose graph rewrites synthesise equal constants (value-keyed ids), placed next to
    each other so that the P;X histories of the sweep compile one after the other."""
    out = []

    def add(label, build):
        n = netgen.Net(sd + len(out))
        out.append({"family": "twin:" + label, "net": n.desc([build(n)]), "opts": {}})

    add("padA", lambda n: n.pad(n.fm("in", [1, 6, 6, 8], is_input=True), [[0, 0], [1, 1], [1, 1], [0, 0]]))
    add("padB", lambda n: n.pad(n.conv(n.fm("in", [1, 4, 6, 8], is_input=True), 8, 1, oscale=0.05, ozp=0),
                               [[0, 0], [1, 1], [1, 1], [0, 0]]))
    add("lreluA", lambda n: n.unary("LEAKY_RELU", n.fm("in", [1, 8, 8, 8], scale=0.05, zp=0, is_input=True), alpha=0.1))
    add("lreluB", lambda n: n.unary("LEAKY_RELU", n.conv(n.fm("in", [1, 5, 7, 8], is_input=True), 8, 3, oscale=0.05, ozp=0),
                                    alpha=0.1))
    add("sigmA", lambda n: n.unary("LOGISTIC", n.fm("in", [1, 8, 8, 8], scale=0.05, zp=0, is_input=True)))
    add("sigmB", lambda n: n.unary("LOGISTIC", n.conv(n.fm("in", [1, 5, 7, 8], is_input=True), 16, 3, oscale=0.05, ozp=0)))
    add("meanC", lambda n: n.mean(n.fm("in", [1, 6, 6, 16], is_input=True)))
    add("meanD", lambda n: n.mean(n.conv(n.fm("in", [1, 4, 9, 8], is_input=True), 16, 1)))
    # rewrites that modify a constant of the input network in place (split_pad_to_sub_pad) or replace the PAD by
    # concatenations with synthesised constants: the caller's buffer must not see any of it
    add("padNC", lambda n: n.pad(n.conv(n.fm("in", [1, 5, 6, 8], is_input=True), 8, 3), [[1, 0], [0, 0], [0, 0], [0, 8]]))
    add("padC", lambda n: n.pad(n.conv(n.fm("in", [1, 6, 5, 8], is_input=True), 8, 1), [[0, 0], [0, 0], [0, 0], [8, 8]]))
    return out


def seed_family(sd):
    """networks in which something the writer de-duplicates or orders can tie: third-party CUSTOM operators (one code,
    two codes, next to NPU operators that become 'ethos-u' custom operators), one CPU operator type in two versions,
    many operator codes, several inputs and outputs.  Equal sort keys fall back to set/dict order, and the order of a
    set of strings follows PYTHONHASHSEED, so this family is compiled alone under more hash seeds than the rest."""
    out = []

    def add(label, build):
        n = netgen.Net(sd + 100 + len(out))
        x = n.fm("in", [1, 8, 8, 8], is_input=True)
        out.append({"family": "seed:" + label, "net": n.desc(build(n, x)), "opts": {}})

    def custom(n, x, code, name):
        src = n.t[x]
        y = n.fm(name, n.shape(x), src["type"], src["scale"][0], src["zp"][0])
        n.op("CUSTOM", [x], [y], custom_code=code, custom_options=[len(code), 2, 3, 4])
        return y

    def versioned(n, x, kind, version, name):
        src = n.t[x]
        y = n.fm(name, n.shape(x), src["type"], src["scale"][0], src["zp"][0])
        n.op(kind, [x], [y], version=version)
        return y

    add("custom1+npu", lambda n, x: [n.conv(custom(n, n.conv(x, 8, 3), "ThirdPartyOp", "c0"), 8, 1)])
    add("custom2+npu", lambda n, x: [n.conv(custom(n, custom(n, n.conv(x, 8, 3), "VendorAlpha", "c0"), "VendorBeta", "c1"), 8, 1)])
    add("custom2", lambda n, x: [custom(n, custom(n, x, "VendorAlpha", "c0"), "zeta_op", "c1")])
    add("custom3+npu", lambda n, x: [n.pool(custom(n, x, "Aa", "c0")), custom(n, n.conv(x, 8, 3), "Bb", "c1"),
                                     custom(n, n.unary("TANH", x), "ThirdPartyOp", "c2")])
    add("versions+npu", lambda n, x: [n.conv(versioned(n, versioned(n, n.conv(x, 8, 3), "ROUND", 1, "r1"), "ROUND", 2, "r2"), 8, 1)])
    add("versions3", lambda n, x: [versioned(n, versioned(n, versioned(n, x, "ROUND", 1, "r1"), "ROUND", 3, "r3"),
                                             "ROUND", 2, "r2")])
    add("manycodes", lambda n, x: [n.eltwise("ADD", n.pool(n.conv(x, 8, 3), "MAX_POOL_2D", k=2, stride=1),
                                             n.unary("LOGISTIC", n.dwconv(n.cpu_op(n.unary("TANH", x), "ROUND"), 3)), oscale=0.1),
                                   custom(n, n.pool(x, "AVERAGE_POOL_2D"), "ThirdPartyOp", "c0")])
    def dup_names(n, x):
        # several tensors share one name (legal in TFLite): the writer sorts tensors by name, ties must not fall back to the
        # iteration order of a set of objects (which follows memory addresses, i.e. the history of the process)
        a = n.conv(x, 8, 3, name="x")
        b = n.conv(x, 8, 1, name="x")
        c = n.eltwise("ADD", a, b, name="x")
        d = n.cpu_op(c, "ROUND", name="s")
        e = n.cpu_op(d, "ROUND", name="s")
        return [n.conv(e, 8, 1, name="s"), n.pool(c, name="x")]
    add("dupnames", dup_names)
    add("multi_io", lambda n, x: [n.conv(x, 8, 1, name="zeta"), n.eltwise("ADD", x, n.fm("beta_in", [1, 8, 8, 8], is_input=True), name="alpha"),
                                  n.eltwise("MUL", n.fm("Gamma_in", [1, 8, 8, 8], is_input=True), x, name="Mid"),
                                  custom(n, n.fm("aux", [1, 8, 8, 8], is_input=True), "ThirdPartyOp", "c0")])
    return out


def container_history(i):
    """one caller, one kept bytearray: convert_bytes(kept); convert_bytes(writable view of it); convert_bytes(read-only
    view of a bytes copy).  The first step is the isolated reference of the others."""
    sh, rw, ro = ("convert_bytes/%s:s%d" % (c, i) for c in ("shared", "mvrw", "mvro"))
    return (sh, rw, ro)


def sweep_items(nets, tier):
    """histories over generated corpus networks (letter = main:s<i> with the entry's option point)."""
    items = []
    for i in range(len(nets)):
        x, p = "main:s%d" % i, "main:s%d" % ((i - 1) % len(nets))
        items += [((x,), 0), ((x,), 1), ((x, x), 0), ((p, x), 0), (container_history(i), 0)]
        if nets[i]["family"].startswith("seed:"):
            # string hashing differences need a few seeds to show: every entry point alone under more hash seeds
            cb, cv = "convert_bytes:s%d" % i, "convert:s%d" % i
            more = range(2, 6) if tier == "quick" else range(2, 10)
            items += [((x,), s) for s in more] + [((cb,), s) for s in [0, 1] + list(more)]
            if tier == "thorough":
                items += [((cv,), s) for s in [0, 1] + list(more)]
        if tier == "thorough":
            items += [((x,), 2), ((x, p, x), 0), ((p, x), 1), (("convert_bytes:s%d" % i,), 0),
                      (("convert_bytes:s%d" % i, "convert_bytes:s%d" % i), 0), (("convert_bytes/mvro:s%d" % i,), 0)]
    return list(dict.fromkeys(items))


# ------------------------------------------------------------------------------------- main
def _write_models(d, models):
    os.makedirs(d, exist_ok=True)
    paths = {}
    for name, desc in models.items():
        paths[name] = os.path.join(d, name + ".tflite")
        with open(paths[name], "wb") as f:
            f.write(netgen.build(desc))
    return paths


def _alphabet_table(mdir, models, mos, letters):
    paths = _write_models(mdir, models)
    return {lname((e, mo, c)): {"entry": e, "model": paths[mos[mo]["model"]], "args": mos[mo]["args"] if e == "main" else [],
                                "mo": mo, "acc": mos[mo]["acc"], "container": c, "mdl": mos[mo]["model"],
                                "needs": NEEDS.get(mos[mo]["model"], []),
                                "opts": mos[mo]["opts"] if e == "main" else []} for e, mo, c in letters}


def _sweep_table(mdir, nets, sd):
    """the option point of every third network additionally switches on --enable-debug-db, of every other third
    --enable-debug-db --verbose-performance (files written from process-wide tables); which third rotates with the seed"""
    table, models = {}, {}
    for i, ent in enumerate(nets):
        models["s%d" % i] = ent["net"]
    paths = _write_models(mdir, models)
    for i, ent in enumerate(nets):
        o = ent["opts"]
        extra = ([], DDB, DBG)[(i + sd) % 3]
        common_ = {"model": paths["s%d" % i], "family": ent["family"], "net": ent["net"], "mdl": "s%d" % i}
        table["main:s%d" % i] = dict(common_, entry="main", args=vela_run.cli_args(o) + list(extra), mo="s%d" % i,
                                     acc=o.get("accel") or "ethos-u65-256", container="file", opts=["ddb"] if extra else [])
        table["convert:s%d" % i] = dict(common_, entry="convert", args=[], mo="s%d/default" % i, acc="ethos-u65-256",
                                        container="file", opts=[])
        for c in ("ba", "shared", "mvrw", "mvro"):
            table[lname(("convert_bytes", "s%d" % i, c))] = dict(common_, entry="convert_bytes", args=[], mo="s%d/default" % i,
                                                                 acc="ethos-u65-256", container=c, opts=[])
    return table


def _report(run, rp, stage, events, meta, viol, models_of, ref_letter=None):
    """turn TLC's violation list into keyed violations (class = minimal replayed history)."""
    evindex = {(e["t"], e["i"]): e for e in events}
    classes = classify(viol, meta, evindex)
    written = {}
    listing = {}
    for key in sorted(classes, key=lambda k: (len(classes[k]["cls"]), sum(not x.startswith("main:") for x in classes[k]["cls"]), k)):
        c = classes[key]
        listing[key] = len(c["cases"])
        known = any(common._match(k, key) for k in run._known)
        g = (c["prop"], c["sig"])
        if not known and written.get(g, 0) >= CAP_PER_GROUP:
            continue
        if not known:
            written[g] = written.get(g, 0) + 1
        h, sd, i, t = c["rep"]
        ev = evindex[(t, i)]
        involved = set(h) | set(c["cls"]) | {p["l"] for p in ev["peers"]} | ({ref_letter(h[i - 1])} if ref_letter else set())
        letters = {x: {k: rp.table[x][k] for k in ("entry", "args", "mo", "acc", "container", "mdl", "opts")} for x in involved}
        what = "%s :: step %d (%s) of history [%s] under PYTHONHASHSEED=%d; alone: %s; %d recorded cases of this class" % (
            key, i, h[i - 1], "; ".join(h), sd, ("ok " + ev["idig"]) if ev["iok"] else ev["iexc"], len(c["cases"]))
        run.violation(key, what, {"stage": stage, "history": list(h), "hashseed": sd, "step": i, "minimal": list(c["cls"]),
                                  "letters": letters, "models": models_of(involved),
                                  "reference_letter": ref_letter(h[i - 1]) if ref_letter else h[i - 1],
                                  "peers": [p["l"] for p in ev["peers"]],
                                  "observed": {k: ev[k] for k in ("ok", "exc", "dig", "csv", "art", "inb", "ina", "ino", "vks", "wks", "ams")},
                                  "reference": {k: ev[k] for k in ("iok", "iexc", "idig", "icsv", "iart", "zok", "zexc", "zdig", "zcsv", "zart", "peers")},
                                  "signature": c["sig"], "property_clause": c["prop"]})
    return listing


def main(tier):
    run = Run("C14", tier)
    try:
        return _main(run, tier)
    except BaseException:
        run.cleanup()       # scratch directories must not outlive a machinery error
        raise


def _main(run, tier):
    sd = seed()
    rng = random.Random(sd)
    codec.build()
    # ---- MC: the design, its controls, and the replay plan
    plan = model_check(run)
    # ---- S2C stage 1: the alphabet of History_MC
    mroot = run.tmpdir("c14m")
    rp = hc = None
    for hs in HC_CANDIDATES:
        models, mos, letters = alphabet(sd, hs)
        rp = Replayer(run, _alphabet_table(os.path.join(mroot, "a%d" % hs), models, mos, letters), mroot)
        rp.run_all([(("main:hcA",), 0), (("main:convA",), 0)])
        a = rp.results[(("main:hcA",), 0)]["steps"][0]
        b = rp.results[(("main:convA",), 0)]["steps"][0]
        if a and b and not a.get("died") and not b.get("died") and a["after"]["rng"] != b["after"]["rng"] and a["rc"] == 0:
            hc = hs
            break
    if hc is None:
        raise MachineryError("vacuity: no candidate network makes the hill-climb allocator draw random numbers")
    items = select(plan, letters, tier, rng)
    # vacuity: the deep network must really need a raised recursion limit (it must not compile under the interpreter's default)
    rp.table["probe:deepA+rl"] = dict(rp.table["main:deepA"], args=list(LOWREC), mo="deepA+rl", opts=["lowrec"])
    rp.run_all([(("probe:deepA+rl",), 0)])
    probe = outcome(rp.results.pop((("probe:deepA+rl",), 0))["steps"][0])
    del rp.table["probe:deepA+rl"]
    if probe["ok"] or "RecursionError" not in probe["exc"]:
        raise MachineryError("vacuity: the deep network does not need a raised recursion limit (main --recursion-limit 1000: %s)"
                             % (probe["exc"] or "compiles"))
    n_runs = rp.run_all(items) + 3
    iso_ok = [x for x in rp.table if outcome(rp.results[((x,), 0)]["steps"][0])["ok"]]
    if len(iso_ok) < len(rp.table):
        bad = sorted(set(rp.table) - set(iso_ok))
        # the alphabet is meant to compile alone; if it does not, say so (C13 owns that property) and go on
        run.cov["alphabet_not_compiling_alone"] = {x: outcome(rp.results[((x,), 0)]["steps"][0])["exc"] for x in bad}
    if not iso_ok:
        raise MachineryError("vacuity: no letter of the alphabet compiles alone: %s" % run.cov["alphabet_not_compiling_alone"])

    def peers_of(x):
        """the other ways of compiling the same model with the default options, each alone in a fresh interpreter:
        the other entry points and, for convert_bytes, the other containers"""
        me = rp.table[x]
        if me["mo"] != me["mdl"]:          # main() with other options has no counterpart in convert / convert_bytes
            return []
        out = []
        for y, ty in rp.table.items():
            if y != x and ty["mo"] == me["mo"]:
                o = outcome(rp.results[((y,), 0)]["steps"][0])
                out.append({"ok": o["ok"], "dig": o["dig"], "l": y})
        return out

    events, meta = build_events(rp, items, 0, peers_of)
    run.cov["negative_controls"] = negative_controls(run, events)
    viol, drift = validate(run, events, "HistoryTrace(alphabet)")
    listing = _report(run, rp, "alphabet", events, meta, viol, lambda ls: {mos[rp.table[x]["mo"]]["model"]: models[mos[rp.table[x]["mo"]]["model"]] for x in ls})
    # plan of the model checker vs what the code did (W: stale weight-cache hit, A: address assigned to a stale id)
    plan_cmp = {"steps": 0, "agree": 0, "predicted_not_observed": 0, "observed_not_predicted": 0, "examples": []}
    exposed_steps = deviating = unexplained = 0
    bad_steps = {(t, i) for t, i, p in viol if p in ("HistoryIndependent", "NoFailureFromHistory")}
    kind_of = {(t, i): ("fail" if p == "NoFailureFromHistory" else "tainted") for t, i, p in viol
               if p in ("HistoryIndependent", "NoFailureFromHistory")}
    for ev in events:
        h, s = meta[ev["t"]]
        if s != 0:
            continue
        # the plan line that made the same choices as the code did in the earlier steps (a failed step skips the clearing)
        seen = [kind_of.get((ev["t"], j), "ok") for j in range(1, ev["i"])]
        match = [c for k, c in plan[h]["variants"] if k[:ev["i"] - 1] == seen]
        pred = match[0][ev["i"] - 1] if match else plan[h]["cls"][ev["i"] - 1]
        obs = ("W" if ev["wks"] else "") + ("A" if ev["ams"] else "")
        plan_cmp["steps"] += 1
        p2 = "".join(c for c in pred if c in "WA")
        if set(p2) == set(obs):
            plan_cmp["agree"] += 1
        else:
            k = "predicted_not_observed" if set(obs) < set(p2) else "observed_not_predicted"
            plan_cmp[k] += 1
            if len(plan_cmp["examples"]) < 5:
                plan_cmp["examples"].append({"history": list(h), "step": ev["i"], "plan": pred, "observed": obs})
        if obs:
            exposed_steps += 1
        if ev["i"] >= 2 and (obs or pred):
            # a step with a predecessor in the same process that the design model marks as exposed to (or that was
            # observed reading) state of an earlier step
            run.nontrivial(h[:ev["i"]])
        if (ev["t"], ev["i"]) in bad_steps:
            deviating += 1
            if not obs and not ev["vks"]:
                unexplained += 1
    run.evaluated(n_runs)
    for (h, s), r in list(rp.results.items())[:3]:
        run.sample({"history": list(h), "hashseed": s, "steps": [outcome(x) for x in r["steps"]]})
    # ---- S2C stage 2: generated networks with their option points
    nn = 8 if tier == "quick" else 200
    # every network costs five (quick) / eleven (thorough) fresh interpreters here: sparser sample of the operator-coverage kinds
    nets = corpus.all_singles(sd, tier=tier, rotation=18 if tier == "quick" else 3) + twins(sd) + seed_family(sd) + corpus.draw(nn, sd + 14)
    nets += corpus.shape_sample(sd, tier, k=3, thorough=2)       # graph shapes (corpus_shapes.py), a rotating sample
    rp2 = Replayer(run, _sweep_table(os.path.join(mroot, "sweep"), nets, sd), mroot)
    items2 = sweep_items(nets, tier)
    n2 = rp2.run_all(items2)
    for i in range(len(nets)):
        # the first step of the container history runs in a fresh interpreter: it IS convert_bytes(bytearray) alone
        ch = container_history(i)
        r0 = rp2.results[(ch, 0)]
        rp2.results.setdefault(((ch[0],), 0), {"steps": r0["steps"][:1], "init": r0["init"]})

    def ref_letter(x):
        return x if ((x,), 0) in rp2.results else lname(("convert_bytes", rp2.table[x]["mdl"], "shared"))

    def iso_of2(x):
        y = ref_letter(x)
        return rp2.results[((y,), 0)]["steps"][0], ("same" if y == x else "peer")

    events2, meta2 = build_events(rp2, items2, len(items), lambda x: [], iso_of2)
    viol2, drift2 = validate(run, events2, "HistoryTrace(corpus)")
    listing2 = _report(run, rp2, "corpus", events2, meta2, viol2, lambda ls: {rp2.table[x]["mdl"]: rp2.table[x]["net"] for x in ls},
                       ref_letter)
    kept_ok = sum(1 for ev in events2 if ev["i"] >= 2 and ev["c"] in ("shared", "mvrw", "mvro") and ev["ok"])
    with_files = sum(1 for ev in events2 if ev["i"] >= 2 and ev["ok"] and any(a[0].endswith("_debug.xml") for a in ev["art"]))
    if not kept_ok or not with_files:
        raise MachineryError("vacuity: no corpus step re-used a kept caller buffer (%d) / wrote a debug database after an "
                             "earlier compilation (%d)" % (kept_ok, with_files))
    run.evaluated(n2)
    stale2 = 0
    for ev in events2:
        if ev["wks"] or ev["ams"] or ev["vks"]:
            stale2 += 1
            run.nontrivial(("corpus",) + meta2[ev["t"]][0][:ev["i"]])
    # ---- evidence
    dk = {}
    for t, i, d in drift + drift2:
        dk[d] = dk.get(d, 0) + 1
    md = {"total": len(drift) + len(drift2), "by_kind": dk,
          "examples": [{"history": list((meta.get(t) or meta2.get(t))[0]), "step": i, "kind": d} for t, i, d in (drift + drift2)[:8]]}
    if md["total"]:
        # which clearing policy of History.tla describes the code better?
        _, dfix = validate(run, events, "HistoryTrace(clear_at_entry)", cfg="HistoryTrace_Fixed.cfg", account=False)
        kf = {}
        for t, i, d in dfix:
            kf[d] = kf.get(d, 0) + 1
        md["alphabet_drift_under_policy_clear_at_entry"] = {"total": len(dfix), "by_kind": kf,
                                                            "examples": [{"history": list(meta[t][0]), "step": i, "kind": d} for t, i, d in dfix[:5]]}
        md["alphabet_drift_under_policy_as_is"] = len(drift)
    run.cov["model_drift"] = md
    run.cov["plan_vs_code"] = plan_cmp
    run.cov["leaks"] = {"steps_reading_stale_state": exposed_steps, "of_which_deviating": deviating,
                        "deviating_without_observed_stale_read": unexplained, "corpus_steps_reading_stale_state": stale2}
    run.cov["violation_classes"] = dict(list(listing.items()) + list(listing2.items()))
    run.cov["histories"] = {"alphabet_letters": len(letters), "plan_histories": len(plan), "alphabet_runs": n_runs,
                            "corpus_networks": len(nets), "corpus_runs": n2, "hc_seed": hc,
                            "corpus_steps_on_a_kept_or_viewed_buffer": kept_ok,
                            "corpus_later_steps_writing_debug_db": with_files,
                            "replay_wall_s": round(rp.wall + rp2.wall, 1)}
    run.cov["rule"] = ("stage 1: histories of length <= 3 over the 30-letter alphabet of History_MC.tla (3 entry points x 7 "
                       "generated models, one of them a deep chain that needs a raised recursion limit (pairs with it: the deep "
                       "letters, convA through every entry point and main --recursion-limit 1000, both orders), "
                       "main() and convert_bytes on the in-place-rewriting PAD model through a kept bytearray, a "
                       "writable and a read-only memoryview, main() on 3 models for ethos-u55-128 and on 1 with "
                       "--enable-debug-db --verbose-performance), all of length <= 2, of length 3 "
                       + ("one per (exposure pattern, entry points, model families) class of the TLC plan (200) plus 40 unexposed"
                          if tier == "quick" else "every history the TLC plan marks as exposed plus 800 unexposed")
                       + "; hash seeds 1 and 2 on a subset; stage 2: corpus networks (every single-operator family, twin networks whose rewrites synthesise equal "
                       "constants, random draws) X with their option points (two thirds of them with --enable-debug-db, one "
                       "third also --verbose-performance) as X, X;X, "
                       "P;X (P = the previous network, other accelerator/options), and through convert_bytes as kept "
                       "bytearray; a writable memoryview of it; a read-only memoryview"
                       + (", X;P;X, convert_bytes twice, convert_bytes on a read-only memoryview alone" if tier == "thorough" else "")
                       + ". One fresh interpreter per history. evaluations = interpreters run; non-trivial = distinct "
                       "history prefixes whose last step has a predecessor in the process and is, according to the design "
                       "model's replay plan or by observation, exposed to state written by an earlier step (weight cache, "
                       "value-keyed equivalence id, address map)")
    run.assumptions += ["the isolated reference of a step is the same entry point, model and options compiled alone under "
                        "PYTHONHASHSEED=0 in a fresh interpreter",
                        "failures are compared by exception class and first line of the message with numbers masked",
                        "three run-time wrappers observe cache lookups, equivalence-id requests and address assignments; "
                        "they do not change arguments or results",
                        "every file a step writes is compared (name and digest; inside text files the path of the output "
                        "directory is masked); stdout is not compared",
                        "in the corpus stage the reference of the convert_bytes steps on a kept bytearray / memoryview is the "
                        "first step of that history (convert_bytes on a new bytearray in a fresh interpreter)",
                        "bytes objects are not handed to convert_bytes (the reader rejects them: documented input types are "
                        "bytearray and memoryview)"]
    return run.finish()


# ------------------------------------------------------------------------------------- replay of a stored violation
def replay(path):
    with open(path) as f:
        rp0 = json.load(f)["replay"]
    run = Run("C14", "quick")
    codec.build()
    mroot = run.tmpdir("c14r")
    paths = _write_models(mroot, rp0["models"])
    table = {}
    for x, l in rp0["letters"].items():
        m = l.get("mdl") or re.split(r"[@/+]", l["mo"])[0]
        table[x] = dict({"container": "ba" if l["entry"] == "convert_bytes" else "file", "mdl": m, "opts": []}, **l)
        table[x]["model"] = paths[m]
    rp = Replayer(run, table, mroot)
    h, mini, sd, i = tuple(rp0["history"]), tuple(rp0["minimal"]), rp0["hashseed"], rp0["step"]
    clause = rp0["property_clause"]
    victim = h[i - 1]
    ref = rp0.get("reference_letter") or victim
    peers = [p for p in rp0.get("peers", []) if p in table]
    rp.run_all([((ref,), 0), (h, sd), (h, 0), (mini, sd)] + [((p,), 0) for p in peers])
    iso = outcome(rp.results[((ref,), 0)]["steps"][0])
    print("alone   %-40s %s" % (ref, iso))
    bad = False
    for hh, label in ((h, "history"), (mini, "minimal")):
        k = len(hh) - 1 if hh is mini else i - 1
        rec = rp.results[(hh, sd)]["steps"][k]
        o = outcome(rec)
        z = outcome(rp.results[(hh, 0)]["steps"][k]) if (hh, 0) in rp.results else o
        if clause == "HashSeedIndependent":
            same = o == z
        elif clause == "CallerStateUntouched":
            same = not rec or rec.get("died") or rec["ina"] == rec["inb"]
            o = dict(o, inb=rec and rec.get("inb"), ina=rec and rec.get("ina"))
        elif clause == "EntryPointIndependent" and peers:
            po = {p: outcome(rp.results[((p,), 0)]["steps"][0]) for p in peers}
            same = all(q["ok"] == o["ok"] and (not q["ok"] or q["dig"] == o["dig"]) for q in po.values())
            for p, q in po.items():
                print("peer    %-40s %s" % (p, q))
        else:
            same = (o["ok"] == iso["ok"] and (not o["ok"] or (o["dig"], o["csv"], o["art"]) == (iso["dig"], iso["csv"], iso["art"]))
                    and (o["ok"] or ref != victim or o["exc"] == iso["exc"]))
        print("%-7s %-40s %s  -> %s" % (label, "; ".join(hh), o, "same" if same else "DEVIATES"))
        bad = bad or not same
    run.cleanup()
    print("reproduced" if bad else "not reproduced")
    return 1 if bad else 0
