"""C11 - interface and CPU operators preserved verbatim.

MC   : Partition.tla (pass_packing reorder rules + extract_subgraph run splitting) over all DAGs with
       <= 4 (quick) / 5 (thorough) passes, fan-in <= 2, all placements: TopoOrder at every step,
       QuotientTopo, RunsWellFormed, RunsAreMaximal, CallOpAtRunStart.  Control configuration
       Partition_Extra.cfg (a CPU pass with a data operand that is neither IFM nor IFM2) must violate
       TopoOrder: the model can tell a mis-ordered list from a good one.
S2C  : TLC -simulate of Partition.tla draws DAG x placement; every node becomes a real operator
       (NPU-able or CPU-only kind), the network is compiled by the working tree in a forked interpreter.
MC   : Fields.tla (what the round trip reader -> graph -> writer must preserve for one CPU-resident operator: option
       members with zero and non-zero schema defaults, omitted operands, several outputs, optional tensor members at every
       tensor role) under the policies of the real compiler; five broken policies (skip falsy option values, member
       unknown to the serialiser, omitted operands filtered, only the first output declared, a clone that drops
       min / max) must each violate their invariant.  The initial states of the run are the case lattice;
       harness/c11fields.py binds every case to real schema members (all builtin option tables, parsed from the
       generated schema classes), operators and tensors; the resulting networks are compiled like the others.
MC   : Partition.tla also with CPU passes whose operator has TWO outputs (nout / second: a consumer reads the first output
       or only the second one), N <= 3 quick / N <= 4 thorough; control Partition_FirstOut.cfg (the sink rule looks at the
       first output only) must violate TopoOrder.  -simulate draws such graphs; second outputs feed NPU / CPU / memory-only
       consumers in the compiled networks.  The chain Npu-Cpu-Npu-Npu is swept over (CPU-resident operator of an NPU type)
       x (NPU operator the optimiser can fold into its producer).
MC   : Fields.tla tensor cases = EVERY subset of {scale, zero point, min, max, quantised dimension, per-axis} on integer and
       float tensors at every role (partial tables: scale without zero point ...); weight cases = constant weights of a
       convolution kept on the CPU x command-line option that touches tensors (--force-symmetric-int-weights, --optimise
       Size, --cpu-tensor-alignment) x zero / non-zero zero point x per tensor / per axis x int8 / int16 activations x
       reason it is kept.  Controls: Fields_TableBoth (partial tables dropped), Fields_SharedQuant / Fields_ShallowQuant
       (a clone aliases the quantisation table / its vectors).  A third of the partition networks is compiled with
       --force-symmetric-int-weights.  Switched off because the UNCHANGED tree breaks them (c11fields.WEIGHT_CASES_OFF,
       c11fields.NOSCALE_TABLES_OFF, FORCE_SYMMETRIC_KINDS_OFF below; reproductions under harness/repro/).
C2S  : (a) the pass list recorded at build_pass_links / extract_subgraph is validated by PartitionTrace.tla
       with the predicates of Partition.tla; (b) source and output model are read by the plain flatbuffer
       parser (harness/flatmodel.py) and the pair is validated by PreserveTrace.tla: SameInterface,
       KeptOnce (operator code, version, builtin and custom options, operand / result / intermediate names with
       positions, constant data), OperandTensors (every member of every tensor table a kept operator refers to),
       OutTopo, CustomOpBoundary, Reparse; the pass list also for OutputsDeclared.  Also on networks of the shared
       corpus.
"""
import json
import os
import random

from .. import c11fields, c11run, corpus, flatmodel, netgen, tlc
from ..common import Run, MachineryError, seed

ACCELS = ["ethos-u55-128", "ethos-u65-256", "ethos-u55-64", "ethos-u65-512", "ethos-u55-256", "ethos-u55-32"]

# ------------------------------------------------------------------------------------------------
# spec -> network: instantiate a Partition.tla graph
# ------------------------------------------------------------------------------------------------
NPU1 = ["conv1", "conv3", "dw3", "maxpool", "avgpool", "tanh", "logistic", "lrelu", "add_dup", "relu"]
NPU2 = ["add", "sub", "mul"]
CPU1 = ["round", "custom1", "floordiv_dup", "conv_dil", "conv_asym", "float_island", "custom_2out", "l2norm",
        "dw_m_bad", "tconv_faf", "tconv_s3", "conv_asym_dil"]
CPU2 = ["floordiv", "custom2", "min_qmismatch", "dwconv_dyn"]
CPU1X = ["dwconv_dyn_x", "custom2", "pack_like_concat"]     # ifm + one non-ifm operand
CPU2X = ["concat3", "addn3", "custom3"]                      # ifm, ifm2 + one further operand
# CPU operators with two outputs (Partition.tla nout = 2): consumers read the first output or only the second one
CPU1_2OUT = ["custom_2out", "custom_2out_b"]
CPU2_2OUT = ["custom2_2out"]
CPU1X_2OUT = ["custom2_2out"]
CPU2X_2OUT = ["custom3_2out"]
# CPU-resident operators of a TYPE the NPU has a block for (kept off for their parameters), and NPU operators the graph
# optimiser can fold into their producer (activations turned into a look-up table / a fused clamp): the pair must stay two
# operators when the producer is not on the NPU
NPU_TYPE_ON_CPU = ("conv_dil", "conv_asym", "conv_asym_dil", "dw_m_bad")
FOLDABLE_INTO_PRODUCER = ["tanh", "logistic", "lrelu", "relu"]
MEMN = ["reshape_same", "reshape_pair"]
MEMC = ["reshape_dyn", "reshape_qmismatch", "squeeze_qmismatch"]     # memory-only operators refused for the NPU


class Builder:
    def __init__(self, rng, sd):
        self.rng = rng
        self.n = netgen.Net(sd)
        self.H, self.W, self.C = rng.choice([(8, 8, 8), (6, 6, 16), (4, 4, 8), (5, 7, 8)])
        self.shape = [1, self.H, self.W, self.C]
        self.extra_outputs = []
        self.second = {}          # node -> its second output tensor
        self.kinds = []
        self.nin = 0

    def graph_input(self):
        self.nin += 1
        return self.n.fm("in%d" % (self.nin - 1), self.shape, scale=self.rng.choice([0.05, 0.03, 0.11]),
                         zp=self.rng.choice([0, 2, -3]), is_input=True)

    def same_quant_out(self, x, name):
        src = self.n.t[x]
        return self.n.fm(name, self.shape, src["type"], src["scale"][0], src["zp"][0])

    def node(self, idx, kind, ops):
        """ops: operand tensor indices (ifm, [ifm2], [extra]).  Returns the node's output tensor."""
        n, rng, C = self.n, self.rng, self.C
        nm = "n%d_%s" % (idx, kind)
        a = ops[0]
        b = ops[1] if len(ops) > 1 else None
        c = ops[2] if len(ops) > 2 else None
        if kind == "conv1":
            return n.conv(a, C, 1, name=nm)
        if kind == "conv3":
            return n.conv(a, C, 3, name=nm, act=rng.choice([0, 1, 3]))
        if kind == "dw3":
            return n.dwconv(a, 3, name=nm)
        if kind == "maxpool":
            return n.pool(a, "MAX_POOL_2D", k=3, stride=1, name=nm)
        if kind == "avgpool":
            return n.pool(a, "AVERAGE_POOL_2D", k=3, stride=1, name=nm)
        if kind in ("tanh", "logistic", "relu"):
            return n.unary(kind.upper(), a, name=nm)
        if kind == "lrelu":
            return n.unary("LEAKY_RELU", a, name=nm)
        if kind == "add_dup":
            return n.eltwise("ADD", a, a, name=nm)
        if kind in ("add", "sub", "mul"):
            return n.eltwise(kind.upper(), a, b, name=nm, act=rng.choice([0, 0, 1]))
        # ---- CPU-only kinds
        if kind == "round":
            return n.cpu_op(a, "ROUND", name=nm)
        if kind == "l2norm":
            return n.cpu_op(a, "L2_NORMALIZATION", name=nm)
        if kind == "custom1":
            y = self.same_quant_out(a, nm)
            n.op("CUSTOM", [a], [y], custom_code=rng.choice(["ThirdPartyOp", "AnotherOp"]),
                 custom_options=[rng.randrange(256) for _ in range(rng.choice([3, 8, 5, 1, 0]))] or None)
            return y
        if kind == "floordiv_dup":
            return n.cpu_op(a, "FLOOR_DIV", name=nm)
        if kind == "conv_dil":      # constant weights, dilated kernel height 81 > 64: stays on the CPU
            return n.conv(a, C, 3, dil=40, name=nm)
        if kind == "conv_asym":     # int8 weights with a non-zero zero point: stays on the CPU
            y = n.conv(a, C, 3, name=nm)
            w = n.o[-1]["inputs"][1]
            n.t[w]["zp"] = [3] * len(n.t[w]["zp"])
            return y
        if kind == "conv_asym_dil":     # asymmetric weights (per tensor) AND a dilated kernel taller than 64: stays on the CPU
            y = n.conv(a, C, 3, dil=40, name=nm)       # whether or not --force-symmetric-int-weights is given
            wt = n.t[n.o[-1]["inputs"][1]]
            wt["scale"], wt["zp"] = [0.013], [rng.choice([3, -2, 5])]
            wt.pop("qdim", None)
            return y
        if kind == "dw_m_bad":      # depth multiplier 2 with IFM channels > 1: stays on the CPU
            y = n.dwconv(a, 3, name=nm + "_dw", mult=2)
            return n.conv(y, C, 1, name=nm, dil=70)
        if kind == "float_island":
            f1 = n.fm(nm + "_f", self.shape, "FLOAT32", None)
            f2 = n.fm(nm + "_g", self.shape, "FLOAT32", None)
            y = self.same_quant_out(a, nm)
            n.op("DEQUANTIZE", [a], [f1])
            n.op(rng.choice(["FLOOR", "CEIL", "ABS", "NEG"]), [f1], [f2])
            n.op("QUANTIZE", [f2], [y])
            return y
        if kind in ("custom_2out", "custom_2out_b", "custom2_2out", "custom3_2out"):
            y = self.same_quant_out(a, nm)
            y2 = self.same_quant_out(a, nm + "_second")
            if kind == "custom_2out_b":     # the second output has a quantisation of its own
                n.t[y2]["scale"], n.t[y2]["zp"] = [0.0371], [-4]
            n.op("CUSTOM", [x for x in (a, b, c) if x is not None], [y, y2],
                 custom_code={"custom_2out": "TwoOut", "custom_2out_b": "TwoOutB"}.get(kind, "TwoOutMany"),
                 custom_options=[7, 7])
            self.second[idx] = y2
            return y
        if kind == "floordiv":
            y = self.same_quant_out(a, nm)
            n.op("FLOOR_DIV", [a, b], [y])
            return y
        if kind == "custom2":
            y = self.same_quant_out(a, nm)
            n.op("CUSTOM", [a, b], [y], custom_code="ThirdPartyOp", custom_options=[1, 2, 3, 4])
            return y
        if kind == "min_qmismatch":     # MINIMUM whose inputs do not share the OFM quantisation: CPU
            y = n.fm(nm, self.shape, "INT8", 0.0123, 7)
            n.op(rng.choice(["MINIMUM", "MAXIMUM"]), [a, b], [y])
            return y
        if kind in ("dwconv_dyn", "dwconv_dyn_x"):      # depthwise convolution with dynamic weights
            bt = n.const(nm + "_b", [C], "INT32", -100, 100, scale=[0.0005], zp=[0])
            y = n.fm(nm, self.shape, "INT8", 0.1, 1)
            n.op("DEPTHWISE_CONV_2D", [a, b, bt], [y],
                 ["DepthwiseConv2DOptions", {"Padding": 0, "StrideW": 1, "StrideH": 1, "DepthMultiplier": 1,
                                             "DilationWFactor": 1, "DilationHFactor": 1,
                                             "FusedActivationFunction": 0}])
            return y
        if kind in ("concat3", "pack_like_concat"):
            xs = [c, a, b] if kind == "concat3" else [b, a]
            cat = n.fm(nm + "_cat", [1, self.H, self.W, C * len(xs)], "INT8", 0.09, 0)
            n.op("CONCATENATION", xs, [cat], ["ConcatenationOptions", {"Axis": 3, "FusedActivationFunction": 5}])
            return n.conv(cat, C, 1, name=nm, dil=70)
        if kind == "addn3":
            y = self.same_quant_out(a, nm)
            n.op("ADD_N", [a, b, c], [y])
            return y
        if kind == "custom3":
            y = self.same_quant_out(a, nm)
            n.op("CUSTOM", [a, b, c], [y], custom_code="Three", custom_options=[9])
            return y
        # ---- memory-only kinds
        if kind == "reshape_same":
            return n.reshape(a, self.shape, name=nm)
        if kind == "reshape_pair":
            t = n.reshape(a, [1, self.H * self.W, 1, C], name=nm + "_a")
            return n.reshape(t, self.shape, name=nm)
        if kind in ("tconv_faf", "tconv_s3"):
            # TRANSPOSE_CONV kept on the CPU (unsupported fused activation / stride 3x3), constant weights; its feature
            # map is operand 2, not operand 0
            st = 3 if kind == "tconv_s3" else 1
            oh, ow = self.H * st, self.W * st
            osz = n.const(nm + "_oshape", [4], "INT32", data=[1, oh, ow, C])
            wt = n.const(nm + "_w", [C, 3, 3, C], "INT8", -127, 127, scale=[0.01] * C, zp=[0] * C, qdim=0)
            bt = n.const(nm + "_b", [C], "INT32", -100, 100, scale=[0.0005] * C, zp=[0] * C, qdim=0)
            y = n.fm(nm + ("_up" if st == 3 else ""), [1, oh, ow, C], "INT8", 0.1, 0)
            n.op("TRANSPOSE_CONV", [osz, wt, a, bt], [y],
                 ["TransposeConvOptions", {"Padding": 0, "StrideW": st, "StrideH": st,
                                           "FusedActivationFunction": 5 if st == 1 else 0}])
            if st == 3:
                z = n.fm(nm, self.shape, "INT8", 0.1, 0)
                n.op("MAX_POOL_2D", [y], [z], ["Pool2DOptions", {"Padding": 1, "StrideW": 3, "StrideH": 3, "FilterWidth": 3,
                                                                 "FilterHeight": 3, "FusedActivationFunction": 0}])
                return z
            return y
        if kind == "reshape_qmismatch":     # constant shape but input / output quantisation differ: refused for the NPU
            sh = n.const(nm + "_shape", [4], "INT32", data=list(self.shape))
            y = n.fm(nm, self.shape, "INT8", 0.0777, 4)
            n.op("RESHAPE", [a, sh], [y], ["ReshapeOptions", {"NewShape": list(self.shape)}])
            return y
        if kind == "squeeze_qmismatch":
            t = n.fm(nm + "_sq", self.shape[1:], "INT8", 0.0666, -2)
            n.op("SQUEEZE", [a], [t], ["SqueezeOptions", {"SqueezeDims": [0]}])
            return n.reshape(t, self.shape, name=nm)
        if kind == "reshape_dyn":
            s = n.fm(nm + "_shape", [4], "INT32", None, is_input=True)
            src = n.t[a]
            y = n.fm(nm, self.shape, src["type"], src["scale"][0], src["zp"][0])
            n.op("RESHAPE", [a, s], [y], ["ReshapeOptions", {"NewShape": list(self.shape)}])
            return y
        raise MachineryError("unknown node kind " + kind)


# --force-symmetric-int-weights x operators whose "weights" are not constants: the UNCHANGED tree zeroes the zero point of
# the tensor in the weights position BEFORE it knows that the operator stays on the CPU; for dynamic weights that tensor is
# a feature map of the source graph (a network input, the result of a kept operator), which is then written with zero
# point 0 (genuine finding of this check, reproduction harness/repro/c11_force_symmetric_peraxis.py, second part).  While this
# entry exists, networks compiled with the option do not contain the kinds listed; delete it to generate them.
FORCE_SYMMETRIC_KINDS_OFF = {}      # (dynamic weights under --force-symmetric-int-weights: repaired in /repo, finding T1)


def instantiate(g, rng, sd, avoid=(), fixed=None):
    """g = {"n", "ifm": [[..]..], "extra": [[..]..], "plc": [..]} (1-based lists stored 0-based).
    avoid: node kinds not to use; fixed: {node: kind} chosen by the caller (single-operand kinds)."""
    b = Builder(rng, sd)
    pick = lambda kinds: rng.choice([k_ for k_ in kinds if k_ not in avoid])
    in0 = b.graph_input()
    in1 = None
    outs = {}
    consumed = set()
    consumed2 = set()          # nodes whose second output somebody reads
    kinds = []
    for i in range(1, g["n"] + 1):
        ifm = sorted(g["ifm"][i - 1])
        ext = sorted(g["extra"][i - 1])
        pl = g["plc"][i - 1]
        two = g.get("nout", [1] * g["n"])[i - 1] == 2
        snd = set(g.get("second", [[]] * g["n"])[i - 1])

        def tens(p, second=False):
            nonlocal in1
            if p == 0:
                if second or rng.random() < 0.3:
                    if in1 is None:
                        in1 = b.graph_input()
                    return in1
                return in0
            if p in snd and p in b.second:      # this node reads the second output of p, and only that one
                consumed2.add(p)
                return b.second[p]
            consumed.add(p)
            return outs[p]

        ops = [tens(ifm[0])]
        if len(ifm) == 2:
            ops.append(tens(ifm[1], second=(ifm[1] == 0)))
        if pl == "Npu":
            kind = pick(NPU1 if len(ops) == 1 else NPU2)
            if len(ops) == 1 and ifm[0] != 0 and kinds[ifm[0] - 1] in NPU_TYPE_ON_CPU and rng.random() < 0.7:
                kind = pick(FOLDABLE_INTO_PRODUCER)
        elif pl == "MemN":
            kind = pick(MEMN)
            ops = ops[:1]
        elif pl == "MemC":
            kind = pick(MEMC)
            ops = ops[:1]
        else:
            if ext and (rng.random() < 0.45 or ext[0] in snd):   # a data operand that is neither IFM nor IFM2
                kind = pick((CPU1X_2OUT if two else CPU1X) if len(ops) == 1 else (CPU2X_2OUT if two else CPU2X))
                ops.append(tens(ext[0]))
            elif len(ops) == 1 and ifm == [0] and rng.random() < 0.3:
                kind = pick(CPU2_2OUT if two else CPU2)          # binary CPU operator on two graph inputs
                ops.append(tens(0, second=True))
            elif two:
                kind = pick(CPU1_2OUT if len(ops) == 1 else CPU2_2OUT)
            else:
                kind = pick(CPU1 if len(ops) == 1 else CPU2)
        if fixed and i in fixed:
            kind, ops = fixed[i], ops[:1]
        kinds.append(kind)
        first_new = len(b.n.o)
        outs[i] = b.node(i, kind, ops)
        if pl == "Cpu":          # operator versions are part of what must be preserved
            for o in b.n.o[first_new:]:
                o["version"] = rng.choice([1, 1, 2, 3])
    # a second output nobody reads: a network output (mostly), or a dead result of the operator
    b.extra_outputs += [t for i, t in sorted(b.second.items()) if i not in consumed2 and rng.random() < 0.6]
    # a node of which only the second output is read: its first output is a network output or dead
    sinks = [outs[i] for i in range(1, g["n"] + 1) if i not in consumed and (i not in consumed2 or rng.random() < 0.5)]
    extra = [outs[i] for i in range(1, g["n"] + 1) if i in consumed and rng.random() < 0.15]
    outputs = sinks + extra + b.extra_outputs
    rng.shuffle(outputs)
    return b.n.desc(outputs), kinds


def graphs_from_tlc(run, n, sd, maxn):
    d = run.tmpdir("c11sim")
    cfg = "Partition_Sim%d.cfg" % maxn
    res = tlc.run("Partition", cfg, workers=1, simulate="file=%s/tr,num=%d" % (d, n), depth=3 * maxn + 6, seed=sd + 11,
                  timeout=900)
    if not res.ok:
        raise MachineryError("Partition simulation failed: " + res["output"][-2000:])
    run.add_mc("Partition(simulate,%s)" % cfg, res)
    out = []
    for fn in sorted(os.listdir(d)):
        st = tlc.parse_states(open(os.path.join(d, fn)).read())
        if not st:
            continue
        last = st[-1][1]
        if not isinstance(last.get("n"), int) or last["n"] < 1:
            continue
        g = {"n": last["n"], "ifm": [sorted(x) for x in last["ifm"]], "extra": [sorted(x) for x in last["extra"]],
             "plc": list(last["plc"]), "nout": list(last["nout"]), "second": [sorted(x) for x in last["second"]]}
        if last.get("phase") == "done":
            g["spec_runs"] = last.get("runs")
            g["spec_cseq"] = last.get("cseq")
            g["spec_list"] = last.get("list")
        out.append(g)
    return out


# ------------------------------------------------------------------------------------------------
# artefact -> abstract graphs -> trace records
# ------------------------------------------------------------------------------------------------
def tla_graph(g):
    sg = g["subgraphs"][0]
    T = sg["tensors"]

    def sig(t):
        return [t["fields"][f] for f in flatmodel.TENSOR_FIELDS]

    def iface(idxs):
        return [[T[i]["name"], sig(T[i])] for i in idxs]

    ops = []
    for o in sg["ops"]:
        cdat = []
        for i in o["in_idx"]:
            if i >= 0 and T[i]["const"]:
                cdat.append("%s|%s|%s" % (T[i]["type"], ",".join(map(str, T[i]["shape"])), T[i]["data"]))
            else:
                cdat.append("")
        ops.append({"code": o["code"] if o["code"] != "CUSTOM" else "CUSTOM:" + o["custom_code"],
                    "ver": o["version"], "opts": o["opts_digest"], "copt": o["custom_opts"],
                    "optv": {k: repr(v) for k, v in sorted(o["opts_nondefault"].items())},     # explanation only
                    "ins": o["inputs"], "outs": o["outputs"], "inter": o["intermediates"], "cdat": cdat,
                    "tsig": [sig(T[i]) if i >= 0 else [] for i in o["in_idx"] + o["out_idx"] + o["inter_idx"]]})
    return {"ins": iface(sg["inputs"]), "outs": iface(sg["outputs"]), "ops": ops,
            "consts": sorted({t["name"] for t in T if t["const"]})}


def infer_absorbed(S, O):
    """Which source operators does each ethos-u operator of O stand for?  A claim, validated by TLC."""
    prod = {}
    for i, o in enumerate(S["ops"]):
        for t in o["outs"]:
            if t:
                prod.setdefault(t, []).append(i)
    consts = set(S["consts"])
    out_sigs = {(o["code"], tuple(o["outs"])) for o in O["ops"]}
    missing = {i for i, o in enumerate(S["ops"]) if (o["code"], tuple(o["outs"])) not in out_sigs}
    A = []
    for o in O["ops"]:
        if o["code"] != "CUSTOM:ethos-u":
            A.append([])
            continue
        bound = set(o["ins"][4:])
        got, todo = set(), []
        for t in o["outs"]:
            for p in prod.get(t, []):
                if p in missing and p not in got:
                    got.add(p)
                    todo.append(p)
        while todo:
            i = todo.pop()
            for t in S["ops"][i]["ins"]:
                if not t or t in consts or t in bound:
                    continue
                for p in prod.get(t, []):
                    if p in missing and p not in got:
                        got.add(p)
                        todo.append(p)
        A.append(sorted(x + 1 for x in got))
    return A


def cpu_marked(S, passlog):
    """Source operators the compiler itself kept off the NPU when it packed the passes (run_on_npu False):
    1-based indices into S.ops, matched by operator name (= name of the first output tensor)."""
    names = set()
    for e in passlog or []:
        if e["ev"] == "packed":
            for p in e["passes"]:
                if p["pl"] in ("Cpu", "Mem") and not p["na"]:
                    names.update(p.get("opnames", []))
    return [i for i, o in enumerate(S["ops"], 1) if o["outs"] and o["outs"][0] in names]


def preserve_event(t, src_bytes, out_bytes, reparse, passlog=None):
    S = tla_graph(flatmodel.abstract(src_bytes))
    marked = cpu_marked(S, passlog)
    try:
        og = flatmodel.abstract(out_bytes)
        plain_ok = True
    except flatmodel.ParseError as e:
        og, plain_ok = None, False
        why = str(e)
    if not plain_ok:
        return {"t": t, "src": S, "out": {"ins": [], "outs": [], "ops": [], "consts": []}, "absorbed": [],
                "marked": marked, "reparse_plain": False, "reparse_vela": bool(reparse and reparse.get("ok")), "why": why}
    O = tla_graph(og)
    return {"t": t, "src": S, "out": O, "absorbed": infer_absorbed(S, O), "marked": marked, "reparse_plain": True,
            "reparse_vela": bool(reparse and reparse.get("ok"))}


def partition_events(t, passlog):
    """One PartitionTrace record per CPU-level subgraph that pack_into_passes finished."""
    evs = []
    packed = [e for e in passlog if e["ev"] == "packed"]
    extracted = {e["sg"]: e for e in passlog if e["ev"] == "extracted"}
    for e in packed:
        ps = e["passes"]
        ev = {"t": t, "pl": [p["pl"] for p in ps], "na": [p["na"] for p in ps], "prod": [p["prod"] for p in ps],
              "esc": [p.get("esc", []) for p in ps], "decl": [p.get("decl", []) for p in ps],
              "has_runs": False, "runs": [], "cseq": []}
        x = extracted.get(e["sg"])
        if x is not None and x["m"] == len(ps):
            ev.update(has_runs=True, runs=x["runs"], cseq=x["cseq"])
        evs.append(ev)
    return evs


# ------------------------------------------------------------------------------------------------
# explanation of a failing record (stable keys)
# ------------------------------------------------------------------------------------------------
def explain_preserve(name, ev):
    S, O, A = ev["src"], ev["out"], ev["absorbed"]
    if name == "Reparse":
        return "Reparse|%s" % ("plain" if not ev["reparse_plain"] else "vela"), ev.get("why", "")
    if name == "SameInterface":
        for role in ("ins", "outs"):
            a, b = S[role], O[role]
            if a != b:
                if [x[0] for x in a] != [x[0] for x in b]:
                    what = "names/order %s -> %s" % ([x[0] for x in a], [x[0] for x in b])
                    return "SameInterface|%s|names" % role, what
                d = [(x, y) for x, y in zip(a, b) if x != y][0]
                fields = sig_diff(d[0][1], d[1][1])
                return ("SameInterface|%s|%s" % (role, ",".join(fields)),
                        "%s: %s" % (d[0][0], sig_diff_text(d[0][1], d[1][1])))
    if name == "KeptOnce":
        absorbed = {i for a in A for i in a} - set(ev.get("marked", []))
        for i in ev.get("marked", []):
            o = S["ops"][i - 1]
            if not [q for q in O["ops"] if q["code"] == o["code"] and q["outs"] == o["outs"]]:
                return ("KeptOnce|cpu-marked-but-missing|%s" % o["code"],
                        "the compiler kept %s producing %s off the NPU, yet it does not appear in the output "
                        "(absorbed claim %s)" % (o["code"], o["outs"], A))
        for i, o in enumerate(S["ops"], 1):
            if i in absorbed:
                continue
            same = [q for q in O["ops"] if all(q[f] == o[f] for f in q if f != "optv")]
            if len(same) == 1:
                continue
            cands = [q for q in O["ops"] if q["code"] == o["code"] and q["outs"] == o["outs"]]
            if len(same) > 1:
                return "KeptOnce|duplicated|%s" % o["code"], "operator producing %s appears %d times" % (o["outs"], len(same))
            if not cands:
                # dead and foldable operators are exempt; TLC decided this one is neither
                continue
            diff = [f for f in ("ver", "opts", "copt", "ins", "inter", "cdat") if cands[0][f] != o[f]]
            tag = ",".join(diff)
            if diff == ["ver"]:      # which version did it get: the highest one used by this operator type, or another
                hi = max(q["ver"] for q in S["ops"] if q["code"] == o["code"])
                tag = "ver=highest-of-type" if cands[0]["ver"] == hi else "ver=other"
            if "opts" in diff:      # which members of the builtin options changed (value in the source -> in the output)
                a, b = o.get("optv", {}), cands[0].get("optv", {})
                ch = ["%s:%s->%s" % (k, a.get(k, "default"), b.get(k, "default")) for k in sorted(set(a) | set(b)) if a.get(k) != b.get(k)]
                tag = tag.replace("opts", "opts[%s]" % ";".join(ch))
            return ("KeptOnce|%s|%s" % (tag, o["code"]),
                    "operator producing %s changed in %s: %s -> %s" % (o["outs"], diff, {f: o[f] for f in diff},
                                                                      {f: cands[0][f] for f in diff}))
        for i, o in enumerate(S["ops"], 1):
            if i not in absorbed and not [q for q in O["ops"] if q["code"] == o["code"] and q["outs"] == o["outs"]]:
                return "KeptOnce|missing|%s" % o["code"], "source operator producing %s is neither kept nor absorbed" % o["outs"]
    if name == "OperandTensors":
        must = ({i for i in range(1, len(S["ops"]) + 1)} - ({i for a in A for i in a} - set(ev.get("marked", []))))
        for i in sorted(must):
            o = S["ops"][i - 1]
            for q in O["ops"]:
                if all(q[f] == o[f] for f in ("code", "ver", "opts", "copt", "ins", "outs", "inter", "cdat")) \
                        and q["tsig"] != o["tsig"]:
                    names = o["ins"] + o["outs"] + o["inter"]
                    k = [k for k in range(len(names)) if q["tsig"][k] != o["tsig"][k]][0]
                    role = "input" if k < len(o["ins"]) else ("output" if k < len(o["ins"]) + len(o["outs"]) else "intermediate")
                    return ("OperandTensors|%s|%s" % (role, ",".join(sig_diff(o["tsig"][k], q["tsig"][k]))),
                            "%s tensor %s of kept %s: %s" % (role, names[k], o["code"], sig_diff_text(o["tsig"][k], q["tsig"][k])))
    if name == "OutTopo":
        prod = {}
        for j, o in enumerate(O["ops"]):
            for t in o["outs"]:
                prod.setdefault(t, j)
        for j, o in enumerate(O["ops"]):
            for t in o["ins"]:
                if t in prod and prod[t] >= j:
                    return "OutTopo|%s" % o["code"], "operator %d (%s) reads %s produced by operator %d" % (j, o["code"], t, prod[t])
    if name == "CustomOpBoundary":
        return "CustomOpBoundary", "ethos-u operators %s with absorbed claim %s" % (
            [(o["ins"][4:], o["outs"]) for o in O["ops"] if o["code"] == "CUSTOM:ethos-u"], A)
    return name, ""


def sig_diff(a, b):
    """names of the tensor-table members that differ, followed by a qualifier of the SOURCE tensor (element type, whether it
    carries a scale): the identity of a finding must not cover the loss of the same member on a different kind of tensor"""
    d = [f for f, x, y in zip(flatmodel.TENSOR_FIELDS, a, b) if x != y] or ["length"]
    src = dict(zip(flatmodel.TENSOR_FIELDS, a))
    return d + ["@%s/%s" % (src.get("type", "?"), "scaled" if src.get("scale") else "noscale")]


def sig_diff_text(a, b):
    return "; ".join("%s %r -> %r" % (f, x, y) for f, x, y in zip(flatmodel.TENSOR_FIELDS, a, b) if x != y)


def explain_partition(name, ev, passes):
    if name == "OutputsDeclared":
        for b, (esc, decl) in enumerate(zip(ev["esc"], ev["decl"]), 1):
            if not set(esc) <= set(decl):
                p = passes[b - 1] if b - 1 < len(passes) else {"pl": "?", "ops": [], "escnames": []}
                return ("OutputsDeclared|%s:%s" % (p["pl"], "+".join(p["ops"])),
                        "pass %d (%s %s) produces %s, used outside the pass, but does not list it among its outputs" % (
                            b, p["pl"], p["ops"], p.get("escnames")))
    if name == "TopoOrder":
        for b, pr in enumerate(ev["prod"], 1):
            for a in pr:
                if a >= b:
                    p = passes[b - 1]
                    return ("TopoOrder|%s:%s" % (p["pl"], "+".join(p["ops"])),
                            "pass %d (%s %s) is placed before pass %d (%s) which produces one of its operands" % (
                                b, p["pl"], p["ops"], a, passes[a - 1]["ops"]))
    return name, json.dumps({k: ev[k] for k in ("pl", "na", "runs", "cseq")})


# ------------------------------------------------------------------------------------------------
GOLDEN = os.path.join(os.path.dirname(os.path.dirname(os.path.abspath(__file__))), "golden", "c11_controls.json")


def negative_controls(run):
    """Corrupt *frozen* records (harness/golden/c11_controls.json: compilations recorded from the unchanged tree) in
    ways the properties must reject.  Nothing here depends on the tree under test."""
    import copy
    with open(GOLDEN) as f:
        gold = json.load(f)
    base, pb = gold["preserve"], gold["partition"]
    muts = [("golden record itself", None, dict(copy.deepcopy(base), t=0)),
            ("golden record (tensor roles) itself", None, dict(copy.deepcopy(gold["tensors"]), t=1)),
            ("golden record (float island) itself", None, dict(copy.deepcopy(gold["island"]), t=2))]

    def mut(name, expect, f, rec="preserve"):
        e = copy.deepcopy(gold[rec])
        f(e)
        e["t"] = len(muts)
        muts.append((name, expect, e))

    FI = {f: k for k, f in enumerate(flatmodel.TENSOR_FIELDS)}
    cpu_j = next(j for j, o in enumerate(base["out"]["ops"]) if o["code"] == "ROUND")
    npu_j = next(j for j, o in enumerate(base["out"]["ops"]) if o["code"] == "CUSTOM:ethos-u")
    src_round = next(i for i, o in enumerate(base["src"]["ops"], 1) if o["code"] == "ROUND")
    mut("drop kept operator", "KeptOnce", lambda e: (e["out"]["ops"].pop(cpu_j), e["absorbed"].pop(cpu_j)))
    mut("change options", "KeptOnce", lambda e: e["out"]["ops"][cpu_j].update(opts="X:000"))
    mut("change version", "KeptOnce", lambda e: e["out"]["ops"][cpu_j].update(ver=e["out"]["ops"][cpu_j]["ver"] + 1))
    mut("rewire kept operator", "KeptOnce", lambda e: e["out"]["ops"][cpu_j].update(ins=["conv0_cpu"]))
    mut("duplicate kept operator", "KeptOnce",
        lambda e: (e["out"]["ops"].append(copy.deepcopy(e["out"]["ops"][cpu_j])), e["absorbed"].append([])))

    def swallow(e):     # the CPU-marked ROUND disappears into the following ethos-u operator, claim adjusted to match
        e["out"]["ops"].pop(cpu_j)
        e["absorbed"].pop(cpu_j)
        last = len(e["out"]["ops"]) - 1
        e["absorbed"][last] = sorted(set(e["absorbed"][last]) | {src_round})
        e["out"]["ops"][last]["ins"] = [("conv0" if t == "cpu1" else t) for t in e["out"]["ops"][last]["ins"]]
    mut("cpu-marked operator absorbed", "KeptOnce", swallow)
    mut("reverse operator order", "OutTopo", lambda e: (e["out"]["ops"].reverse(), e["absorbed"].reverse()))
    mut("change output quantisation", "SameInterface",
        lambda e: e["out"]["outs"][0][1].__setitem__(FI["scale"], e["out"]["outs"][0][1][FI["scale"]] + "x"))
    mut("swap subgraph outputs", "SameInterface", lambda e: e["out"]["outs"].reverse())
    mut("extra NPU result", "CustomOpBoundary",
        lambda e: e["out"]["ops"][npu_j].update(outs=e["out"]["ops"][npu_j]["outs"] + ["bogus"]))
    mut("absorbed claim too large", "CustomOpBoundary",
        lambda e: e["absorbed"].__setitem__(npu_j, sorted(set(e["absorbed"][npu_j]) | {src_round})))
    mut("vela reader rejects", "Reparse", lambda e: e.update(reparse_vela=False))

    # ---- field level, on the record with every tensor role (all tensors carry min / max and a quantised dimension)
    def out_op(e, code):
        return next(o for o in e["out"]["ops"] if o["code"] == code)

    def iface_drop(e):        # an NPU-produced subgraph output comes back without min / max
        k = next(k for k, x in enumerate(e["out"]["outs"]) if x[0] == "tail")
        e["out"]["outs"][k][1][FI["min"]] = ""
        e["out"]["outs"][k][1][FI["max"]] = ""
    mut("NPU-produced subgraph output loses min/max", "SameInterface", iface_drop, "tensors")
    mut("subgraph input loses its quantised dimension", "SameInterface",
        lambda e: e["out"]["ins"][0][1].__setitem__(FI["qdim"], "0"), "tensors")

    def operand_drop(k, field, value=""):
        return lambda e: out_op(e, "CUSTOM:Mix")["tsig"][k].__setitem__(FI[field], value)
    mut("NPU-produced operand of a CPU operator loses min/max", "OperandTensors", operand_drop(0, "max"), "tensors")
    mut("constant operand of a CPU operator requantised", "OperandTensors", operand_drop(2, "scale", "0x1.0p-3"), "tensors")
    mut("state operand of a CPU operator no longer variable", "OperandTensors", operand_drop(3, "variable", "0"), "tensors")
    mut("result of a CPU operator changes type", "OperandTensors", operand_drop(4, "type", "INT16"), "tensors")
    mut("intermediate of a CPU operator loses its scale", "OperandTensors", operand_drop(6, "scale"), "tensors")

    # partial quantisation tables and option-rewritten weights (Fields.tla: TableKept, CloneQuant)
    mut("subgraph input keeps its scale but loses its zero point", "SameInterface",
        lambda e: e["out"]["ins"][0][1].__setitem__(FI["zp"], ""), "tensors")
    mut("subgraph output keeps its zero point but loses its scale", "SameInterface",
        lambda e: e["out"]["outs"][0][1].__setitem__(FI["scale"], ""), "tensors")
    mut("operand of a CPU operator loses its zero point only", "OperandTensors", operand_drop(1, "zp"), "tensors")
    mut("zero point of the constant operand of a CPU operator zeroed", "OperandTensors", operand_drop(2, "zp", "77"), "tensors")

    def drop_inter(e):
        o = out_op(e, "CUSTOM:Mix")
        o["inter"] = []
        o["tsig"] = o["tsig"][:-1]
    mut("intermediates of a CPU operator dropped", "KeptOnce", drop_inter, "tensors")

    # ---- field level, on the float island record
    def compact(e):           # omitted operands left out: later operands move to the left
        o = out_op(e, "CUSTOM:OptionalInputs")
        keep = [k for k, t in enumerate(o["ins"]) if t != ""]
        n_in = len(o["ins"])
        o["tsig"] = [o["tsig"][k] for k in keep] + o["tsig"][n_in:]
        o["ins"] = [o["ins"][k] for k in keep]
        o["cdat"] = [o["cdat"][k] for k in keep]
    mut("omitted operands dropped from the input vector", "KeptOnce", compact, "island")
    mut("omitted operand shifted to the end", "KeptOnce",
        lambda e: out_op(e, "CUSTOM:OptionalInputs").update(ins=["f0", "p1_custom_k2", "", ""]), "island")
    sub_src = next(o for o in gold["island"]["src"]["ops"] if o["code"] == "SUB")
    if sub_src["opts"] == flatmodel.options_digest("SubOptions", {"FusedActivationFunction": 1}):
        raise MachineryError("golden island record: SUB does not carry pot_scale_int16 = false")
    mut("pot_scale_int16 = false reads back as the schema default", "KeptOnce",
        lambda e: out_op(e, "SUB").update(opts=flatmodel.options_digest("SubOptions", {"FusedActivationFunction": 1})),
        "island")

    def one_out(e):
        o = out_op(e, "CUSTOM:ManyOutputs")
        o["tsig"] = o["tsig"][:len(o["ins"]) + 1]
        o["outs"] = o["outs"][:1]
    mut("second output of a CPU operator dropped", "KeptOnce", one_out, "island")

    res, viol = tlc.validate_traces("PreserveTrace", "PreserveTrace.cfg", [m[2] for m in muts])
    got = {}
    for t, name in viol:
        got.setdefault(t, set()).add(name)
    for k, (name, expect, _) in enumerate(muts):
        if expect is None:
            if got.get(k):
                raise MachineryError("negative control: the %s is rejected (%s)" % (name, got[k]))
        elif expect not in got.get(k, set()):
            raise MachineryError("negative control '%s' not rejected as %s (got %s)" % (name, expect, got.get(k)))
    pm = [("golden pass list itself", None, copy.deepcopy(pb)),
          ("golden pass list (float island) itself", None, copy.deepcopy(gold["partition_island"]))]
    e = copy.deepcopy(pb)
    e["prod"][1] = e["prod"][1] + [len(e["pl"])]
    pm.append(("producer after consumer", "TopoOrder", e))
    e = copy.deepcopy(pb)
    e["cseq"] = list(reversed(e["cseq"]))
    pm.append(("call operator misplaced", "CallOpAtRunStart", e))
    e = copy.deepcopy(pb)
    cpu_pass = next(i + 1 for i, p in enumerate(e["pl"]) if p == "Cpu")
    e["runs"][0] = e["runs"][0] + [cpu_pass]
    pm.append(("CPU pass inside a run", "RunsWellFormed", e))
    e = copy.deepcopy(pb)           # a memory-only pass that was refused for the NPU, swallowed by the neighbouring run
    e["pl"][3], e["na"][3] = "Mem", False
    e["runs"], e["cseq"] = [[2], [4, 5, 6]], [1, -1, 3, -2]
    pm.append(("CPU-only memory-only pass inside a run", "RunsWellFormed", e))
    e = copy.deepcopy(pb)
    e["runs"], e["cseq"] = [[2], [5], [6]], [1, -1, 3, 4, -2, -3]
    pm.append(("run split in two", "RunsAreMaximal", e))
    e = copy.deepcopy(gold["partition_island"])     # the two-output pass lists only its first output
    two = next(i for i, d_ in enumerate(e["decl"]) if len(d_) == 2 and e["pl"][i] == "Cpu")
    e["decl"][two] = e["decl"][two][:1]
    pm.append(("second output of a CPU pass not declared", "OutputsDeclared", e))
    e = copy.deepcopy(gold["partition_island"])     # the two-output CPU pass behind a consumer of one of its outputs
    m_ = len(e["pl"])
    cons = next((i for i in range(m_) if (two + 1) in e["prod"][i]), None)
    if cons is None:
        raise MachineryError("golden island pass list: nobody reads the two-output CPU pass")
    perm = list(range(m_))
    perm.remove(two)
    perm.insert(perm.index(cons) + 1, two)               # new order: position -> old index
    new_of = {old: new for new, old in enumerate(perm)}
    for f in ("pl", "na", "esc", "decl"):
        e[f] = [e[f][old] for old in perm]
    e["prod"] = [[new_of[q - 1] + 1 for q in e["prod"][old]] for old in perm]
    e["has_runs"], e["runs"], e["cseq"] = False, [], []
    pm.append(("two-output CPU pass moved behind its consumer", "TopoOrder", e))
    for k, (_, _, e) in enumerate(pm):
        e["t"] = k
    res2, viol2 = tlc.validate_traces("PartitionTrace", "PartitionTrace.cfg", [m_[2] for m_ in pm])
    got = {}
    for t, name in viol2:
        got.setdefault(t, set()).add(name)
    for k, (name, expect, _) in enumerate(pm):
        if expect is None:
            if got.get(k):
                raise MachineryError("negative control: the %s is rejected (%s)" % (name, got[k]))
        elif expect not in got.get(k, set()):
            raise MachineryError("negative control '%s' not rejected as %s (got %s)" % (name, expect, got.get(k)))
    run.cov["negative_controls"] = ([m[0] for m in muts if m[1]] + [m[0] for m in pm if m[1]]
                                    + ["Fields.tla: " + c[2] for c in FIELD_CONTROLS])


def _validate(module, cfg, events, timeout=1800):
    if not events:          # nothing was observed (e.g. the tree under test compiles nothing): no verdict from this trace
        return tlc.TlcResult(status="ok", distinct=0, generated=0, wall=0, printed=[], output=""), []
    return tlc.validate_traces(module, cfg, events, timeout=timeout)


def model_check(run, tier):
    from concurrent.futures import ThreadPoolExecutor
    acts = ("AddNode", "FilterTop", "SinkStep", "SinkDone", "Absorb", "Split")
    plan = [("Partition_MC.cfg", "Partition(N<=4, all placements)", dict(workers=16, coverage=True, timeout=900)),
            # CPU passes whose operator has two outputs, consumers of the first / of the second output only
            ("Partition_MCMulti3.cfg", "Partition(N<=3, all placements, two-output CPU passes)",
             dict(workers=4, coverage=True, timeout=900)),
            ("Partition_Extra.cfg", None, dict(workers=2, timeout=600)),
            ("Partition_FirstOut.cfg", None, dict(workers=2, timeout=600))]
    if tier == "thorough":
        plan.append(("Partition_MCMultiFull.cfg", "Partition(N<=4, all placements, two-output CPU passes)",
                     dict(workers=8, coverage=True, timeout=2400, heap="10g")))
    with ThreadPoolExecutor(len(plan)) as ex:
        results = list(ex.map(lambda it: tlc.run("Partition", it[0], **it[2]), plan))
    for (cfg, label, _), res in zip(plan, results):
        if label is None:
            continue
        tlc.must_ok(res, "Partition MC " + cfg)
        run.add_mc(label, res)
        for a in acts:
            if res["actions"].get("Partition." + a, 0) == 0:
                raise MachineryError("vacuity: action %s never taken (%s)" % (a, cfg))
    if tier == "thorough":
        res5 = tlc.must_ok(tlc.run("Partition", "Partition_MC5.cfg", workers=16, coverage=True, timeout=2400, heap="10g"),
                           "Partition MC N=5")
        run.add_mc("Partition(N<=5, Cpu/Npu/MemN)", res5)
    ctl = results[2]
    if ctl["status"] != "invariant" or ctl.get("violated") != "TopoOrder":
        raise MachineryError("control: a CPU pass with a non-IFM operand must break TopoOrder in the model, got %s" % ctl["status"])
    run.add_mc("Partition(AllowExtra control: TopoOrder violated)", ctl)
    ctl = results[3]
    if ctl["status"] != "invariant" or ctl.get("violated") != "TopoOrder":
        raise MachineryError("control: a sink rule that looks at the first output of a CPU pass only must break TopoOrder "
                             "in the model, got %s" % ctl["status"])
    run.add_mc("Partition(SinkSees = first control: TopoOrder violated)", ctl)


FIELD_CONTROLS = [("Fields_SkipFalsy.cfg", "OptionRoundTrip", "option values that are zero / false are not written"),
                  ("Fields_Unknown.cfg", "OptionRoundTrip", "the serialiser table does not list the member"),
                  ("Fields_Filter.cfg", "OperandPositions", "omitted operands are filtered out of the input vector"),
                  ("Fields_FirstOut.cfg", "OutputsDeclared", "a pass declares only the first output of its operator"),
                  ("Fields_CloneDrops.cfg", "TensorRoundTrip", "a clone of a tensor does not carry min / max"),
                  ("Fields_TableBoth.cfg", "TensorRoundTrip", "a quantisation table with a scale but no zero point (or the "
                                                              "reverse) is dropped by the reader"),
                  ("Fields_SharedQuant.cfg", "WeightRoundTrip", "a clone of the weights shares the quantisation table with "
                                                                "its source: --force-symmetric-int-weights rewrites a "
                                                                "kept operator"),
                  ("Fields_ShallowQuant.cfg", "WeightRoundTrip", "a clone of the weights owns its table but shares the zero "
                                                                 "point vector (the unchanged tree: c11fields.WEIGHT_CASES_OFF)")]


def field_lattice(run):
    """Model check Fields.tla under the policies of the real compiler (all invariants hold) and under each broken
    policy (the matching invariant must fail); returns the case lattice = the initial states of the good run."""
    from concurrent.futures import ThreadPoolExecutor
    d = run.tmpdir("c11fields")
    dump = os.path.join(d, "lattice")

    def one(item):
        cfg = item[0]
        return tlc.run("Fields", cfg, workers=1, coverage=(cfg == "Fields_MC.cfg"), timeout=300,
                       dump=dump if cfg == "Fields_MC.cfg" else None)
    with ThreadPoolExecutor(8) as ex:
        results = list(ex.map(one, [("Fields_MC.cfg",)] + FIELD_CONTROLS))
    good = tlc.must_ok(results[0], "Fields MC")
    run.add_mc("Fields(all cases, policies of the compiler)", good)
    if good["actions"].get("Fields.Compile", 0) == 0:
        raise MachineryError("vacuity: Fields.Compile never taken")
    for (cfg, inv, what), res in zip(FIELD_CONTROLS, results[1:]):
        if res["status"] != "invariant" or res.get("violated") != inv:
            raise MachineryError("control %s (%s) must violate %s in the model, got %s %s" % (
                cfg, what, inv, res["status"], res.get("violated")))
        run.add_mc("Fields(control %s: %s violated)" % (cfg[7:-4], inv), res)
    path = dump + ".dump" if os.path.exists(dump + ".dump") else dump
    states = c11fields.parse_dump(open(path).read())
    cases = [st["case"] for st in states if st.get("stage") == "src"]
    if len(cases) < 50 or {c["sort"] for c in cases} != {"option", "operand", "output", "tensor", "weight"}:
        raise MachineryError("Fields.tla produced an implausible case lattice (%d cases)" % len(cases))
    return cases


def build_jobs(tier, sd, run):
    rng = random.Random(sd)
    quick = tier == "quick"
    ngraphs = 150 if quick else 1500
    graphs = graphs_from_tlc(run, ngraphs, sd, 5 if quick else 6)
    jobs, meta = [], []
    for gi, g in enumerate(graphs):
        forced = gi % 3 == 2      # compiler options are part of the case space: none may show on what is kept
        net, kinds = instantiate(g, random.Random(sd * 7919 + gi), sd * 1000 + gi,
                                 avoid=FORCE_SYMMETRIC_KINDS_OFF if forced else ())
        if gi % 2:        # every other network also stores min / max on some of its feature maps
            net = c11fields.dress_minmax(net, random.Random(sd * 7919 + gi + 1))
        ncfg = 1 if quick else 2
        for ci in range(ncfg):
            if ci == 0:
                opts = {"accel": ACCELS[gi % 2]}
            else:
                opts = corpus.config_point(rng)
            if forced:
                opts = dict(opts, extra=["--force-symmetric-int-weights"])
            jobs.append({"id": len(jobs), "net": net, "opts": opts})
            meta.append({"family": "partition", "graph": g, "kinds": kinds, "opts": opts})
    # ---- the chain  Npu -> Cpu -> Npu -> Npu  (a graph of Partition.tla) with every pair (CPU-resident operator of a type
    # the NPU has a block for, NPU operator the optimiser can fold into its producer); thorough: every CPU x NPU kind
    chain = {"n": 4, "ifm": [[0], [1], [2], [3]], "extra": [[], [], [], []], "plc": ["Npu", "Cpu", "Npu", "Npu"],
             "nout": [1, 1, 1, 1], "second": [[], [], [], []]}
    pairs = [(c, f) for c in (NPU_TYPE_ON_CPU if quick else CPU1) for f in (FOLDABLE_INTO_PRODUCER if quick else NPU1)]
    for pi, (ck, fk) in enumerate(pairs):
        net, kinds = instantiate(chain, random.Random(sd * 7919 + 100000 + pi), sd * 1000 + 500 + pi,
                                 fixed={1: "conv1", 2: ck, 3: fk, 4: "conv1"})
        opts = {"accel": ACCELS[(pi + sd) % (2 if quick else len(ACCELS))]}
        jobs.append({"id": len(jobs), "net": net, "opts": opts})
        meta.append({"family": "partition", "graph": chain, "kinds": kinds, "opts": opts})
    # ---- field level: the case lattice of Fields.tla bound to schema members / operators / tensors
    cases = field_lattice(run)
    nets, uninst = c11fields.plan(cases, tier, sd, random.Random(sd * 104729 + 3))
    for k, net in enumerate(nets):
        planned = net.pop("c11_cases")
        opts = {"accel": ACCELS[k % 2]} if quick or k % 2 == 0 else corpus.config_point(rng)
        opts = dict(opts, **net.pop("c11_opts", {}))     # weight cases: the option of the case
        jobs.append({"id": len(jobs), "net": net, "opts": opts})
        meta.append({"family": "fields", "opts": opts, "cases": planned})
    run.cov["field_cases"] = {"lattice": len(cases), "without_instance": uninst,
                              "all_keys": sorted(c11fields.case_key(c) for c in cases)}
    ncorp = 60 if quick else 600
    # + graph shapes (corpus_shapes.py); emphasis: tensors with two interface roles, several NPU subgraphs
    for ci, e in enumerate(corpus.draw(ncorp, sd + 5) + corpus.shape_jobs(sd, tier, extra=["io_alias"] * 2 + ["islands"], thorough=15)):
        net = c11fields.dress_minmax(e["net"], random.Random(sd * 31 + ci)) if ci % 2 else e["net"]
        jobs.append({"id": len(jobs), "net": net, "opts": e["opts"]})
        meta.append({"family": e["family"], "opts": e["opts"]})
    return jobs, meta


def crash_signature(r):
    lines = [ln for ln in ((r.get("exc") or "") + "\n" + r.get("stdout", "")).splitlines() if ln.strip()]
    tb = [ln.strip() for ln in (r.get("exc") or "").splitlines() if ln.strip()]
    if tb:
        where = [ln for ln in tb if ln.startswith("File ")]
        return "%s @ %s" % (tb[-1][:80], where[-1].split(",")[-1].strip() if where else "?")
    errs = [ln for ln in lines if "Error" in ln]
    return (errs[-1] if errs else (lines[-1] if lines else "no output"))[:120]


def main(tier, only=None):
    run = Run("C11", tier)
    try:
        return _main(run, tier)
    except BaseException:
        run.cleanup()          # scratch directories must not outlive a machinery error
        raise


def _main(run, tier):
    sd = seed()
    model_check(run, tier)
    jobs, meta = build_jobs(tier, sd, run)
    results = c11run.compile_many(jobs, timeout=600)
    pres, part, part_passes = [], [], {}
    crashes = {}
    seen_cases, seen_members = {}, set()
    for job, m, r in zip(jobs, meta, results):
        t = job["id"]
        run.evaluated()
        for e in r.get("passlog", []):
            if e["ev"] == "hook_error":
                raise MachineryError("observation wrapper failed: " + e["tb"])
        pe = partition_events(t, r.get("passlog", []))
        for e in pe:
            part.append(e)
        part_passes[t] = [e["passes"] for e in r.get("passlog", []) if e["ev"] == "packed"]
        if r["rc"] == 0 and r.get("out_bytes"):
            ev = preserve_event(t, r["in_bytes"], r["out_bytes"], r.get("reparse"), r.get("passlog"))
            pres.append(ev)
            ncpu = sum(1 for o in ev["out"]["ops"] if o["code"] != "CUSTOM:ethos-u")
            nnpu = len(ev["out"]["ops"]) - ncpu
            if ncpu and nnpu:
                run.nontrivial((m["family"], tuple(m.get("kinds", [])), tuple(o["code"] for o in ev["out"]["ops"])))
            if m["family"] == "fields":
                kept_names = {o["outs"][0] for o in ev["out"]["ops"] if o["code"] != "CUSTOM:ethos-u" and o["outs"]}
                for key, what, *opname in m["cases"]:
                    if opname and opname[0] not in kept_names:
                        continue        # a weight case counts when its convolution really stayed on the CPU
                    seen_cases.setdefault(key, what)
                    run.nontrivial(("fields", key))
                    if key.startswith("option|"):
                        seen_members.add(what.split("=")[0])
            if len(run.cov["samples"]) < 4 and ncpu and nnpu:
                run.sample({"family": m["family"], "kinds": m.get("kinds"), "opts": m["opts"],
                            "out_ops": [(o["code"], o["ins"][4:] if o["code"] == "CUSTOM:ethos-u" else o["ins"], o["outs"])
                                        for o in ev["out"]["ops"]], "absorbed": ev["absorbed"]})
        else:
            sig = crash_signature(r)
            crashes[sig] = crashes.get(sig, 0) + 1
    # ---- C2S
    res1, viol1 = _validate("PartitionTrace", "PartitionTrace.cfg", part)
    run.add_trace_run("PartitionTrace", res1, len(part))
    drift = []
    for p in res1["printed"]:
        if p.startswith('<<"DRIFT"'):
            drift = json.loads(tlc.parse_value(p)[1] or "[]")
    res2, viol2 = _validate("PreserveTrace", "PreserveTrace.cfg", pres)
    run.add_trace_run("PreserveTrace", res2, len(pres))
    by_t_part = {}
    for e in part:
        by_t_part.setdefault(e["t"], []).append(e)
    for t, name in viol1:
        for k, e in enumerate(by_t_part[t]):
            key, what = explain_partition(name, e, part_passes[t][k] if k < len(part_passes[t]) else [])
            if name in ("TopoOrder", "OutputsDeclared") and not key.startswith(name + "|"):
                continue
            run.violation(key, "%s: %s [%s %s]" % (name, what, meta[t]["family"], meta[t].get("kinds", "")),
                          {"net": jobs[t]["net"], "opts": jobs[t]["opts"], "passes": part_passes[t], "event": e})
            break
    by_t = {e["t"]: e for e in pres}
    for t, name in viol2:
        key, what = explain_preserve(name, by_t[t])
        run.violation(key, "%s: %s [%s %s]" % (name, what, meta[t]["family"], meta[t].get("kinds", "")),
                      {"net": jobs[t]["net"], "opts": jobs[t]["opts"], "event": by_t[t]})
    negative_controls(run)
    run.cov["model_drift"] = {"partition_transcription_vs_code": len(drift), "examples": drift[:5]}
    run.cov["compilations"] = {"total": len(jobs), "compiled": len(pres), "not_compiled": crashes}
    fc = run.cov["field_cases"]
    all_keys = fc.pop("all_keys")
    fc["observed_in_a_compiled_model"] = len(set(all_keys) & set(seen_cases))
    fc["not_observed"] = sorted(set(all_keys) - set(seen_cases))
    fc["by_sort"] = {srt: "%d/%d" % (len([k for k in seen_cases if k.startswith(srt + "|")]),
                                      len([k for k in all_keys if k.startswith(srt + "|")]))
                     for srt in ("option", "operand", "output", "tensor", "weight")}
    fc["option_members_bound"] = len(seen_members)
    fc["option_members_in_schema"] = sum(len(v) for v in c11fields.schema_members().values())
    fc["tensor_classes_switched_off"] = dict(c11fields.TENSOR_CLASSES_OFF, **c11fields.NOSCALE_TABLES_OFF)
    forced = [k for k in seen_cases if k.startswith("weight|force_symmetric|zp=nonzero")]
    if jobs and len(pres) > len(jobs) // 2 and not forced:
        raise MachineryError("vacuity: no convolution with asymmetric weights stayed on the CPU under "
                             "--force-symmetric-int-weights")
    fc["weight_cases_switched_off"] = {"|".join(k): v for k, v in c11fields.WEIGHT_CASES_OFF.items()}
    fc["kinds_switched_off_under_force_symmetric"] = dict(FORCE_SYMMETRIC_KINDS_OFF)
    fc["option_values_switched_off"] = {"%s.%s=%r" % k: v for k, v in c11fields.OPTION_VALUES_OFF.items()}
    fc["option_members_switched_off"] = {"%s.%s" % k: v for k, v in c11fields.OPTION_MEMBERS_OFF.items()}
    for srt in ("option", "operand", "output", "tensor", "weight"):
        if not [k for k in all_keys if k.startswith(srt + "|")]:
            raise MachineryError("field lattice has no %s case" % srt)
    run.cov["rule"] = ("graphs = final states of Partition.tla behaviours drawn by TLC -simulate (DAG x placement, extra "
                       "non-IFM operands allowed), each node instantiated as a real NPU-able / CPU-only / memory-only "
                       "operator, plus networks of the shared corpus; every compilation runs in its own forked interpreter; "
                       "non-trivial = output model contains both ethos-u and preserved CPU operators "
                       "(distinct by node kinds and output operator sequence)")
    run.assumptions += ["tensor names identify tensors across source and output (generated names are unique)",
                        "the first four operands of an ethos-u operator are the driver tensors",
                        "a compilation that does not produce an output file is outside C11's quantifier, except that the "
                        "pass list it built is still checked for TopoOrder"]
    return run.finish()


def replay(path):
    rp = json.load(open(path))["replay"]
    r = c11run.compile_many([{"id": 0, "net": rp["net"], "opts": rp["opts"]}])[0]
    part = partition_events(0, r.get("passlog", []))
    bad = []
    if part:
        _, v = tlc.validate_traces("PartitionTrace", "PartitionTrace.cfg", part)
        bad += v
    if r["rc"] == 0 and r.get("out_bytes"):
        ev = preserve_event(0, r["in_bytes"], r["out_bytes"], r.get("reparse"), r.get("passlog"))
        _, v = tlc.validate_traces("PreserveTrace", "PreserveTrace.cfg", [ev])
        bad += v
    print("rc=%s violations=%s" % (r["rc"], bad))
    if r.get("exc"):
        print(r["exc"][-600:])
    return 1 if bad else 0
