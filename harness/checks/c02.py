"""C02 - every NPU memory access stays inside the region the output model declares.

C2S : every command stream of the compiled corpus (sweeping accelerators, memory modes, allocators, arena
      cache sizes) is decoded from the *output file*; exact byte footprints (A-HW4) are computed from the
      register state; extents are the published shapes of the flash / scratch / scratch_fast tensors wired to
      the custom operator; NpuMemTrace.tla decides InBounds, NoWriteToConst, KnownRegion, FastWithinCache.
S2C : streams generated from OpSeq.tla behaviours through the public API are validated against the API's own
      region limits (a stream the generator accepts must not name a region outside 0..7/SHRAM).
"""
import json

from .. import corpus, faststorage, schedule, stream_events, streams, tlc, vela_run, weightbuf
from ..common import Run, MachineryError, seed

N_FC_BATCH, N_MEMONLY = 6, 2      # networks of the opt-in families per quick run (tiny: well below a second each)
CONFIG_ARENA = {"Dedicated_Sram": 393216, "Dedicated_Sram_512KB": 524288}


def spill_info(opts):
    mm = opts.get("memory_mode", "")
    spilling = mm.startswith("Dedicated_Sram")
    cache = opts.get("arena") or CONFIG_ARENA.get(mm, 393216)
    return spilling, cache


def schedule_component(run, tier, sd):
    """growth beyond the listed property (DESIGN.md section 8): Schedule.tla - the scheduler's search for a schedule of an
    NPU subgraph (cascade building over the minimal schedule, choice of the Max schedule, per-cascade striping proposals
    accepted while the estimate stays within the SRAM limit) model-checked with its two negative controls, and every
    schedule / cascade-builder call / sub-schedule optimisation of real compilations validated against the same
    predicates (ScheduleTrace.tla).  None of its predicates is the listed property: a finding is reported as data
    (LATENT line, evidence), the verdict of C02 comes from the footprints of the emitted stream below."""
    for name, res in schedule.mc(tier):
        run.add_mc(name, res)
    sjobs = schedule.jobs(sd, 40 if tier == "quick" else 600)
    schedule.install()
    try:
        srs = vela_run.compile_many(sjobs, extractor=schedule.extractor)
    finally:
        schedule.uninstall()
    bad = [x.get("extract_error") for x in srs if x.get("extract_error")]
    if bad:
        raise MachineryError("schedule extractor failed: %s" % bad[0])
    recs = [x.get("extract") for x in srs]
    res, findings = schedule.validate(recs)
    events, _, _ = schedule.events_of(recs)
    controls = schedule.negative_controls(events)
    run.add_trace_run("ScheduleTrace", res, res["counters"].get("schedules", 0))
    run.cov["schedule"] = {"counters": res["counters"], "negative_controls": controls,
                           "latent": sum(1 for f in findings if f["kind"] == "latent"),
                           "drift": sum(1 for f in findings if f["kind"] == "drift"),
                           "first": [{"kind": f["kind"], "pred": f["pred"], "family": sjobs[f["record"]]["family"], "sg": f["sg"],
                                      "what": str(f["what"])[:200]} for f in findings[:10]]}
    for f in findings[:20]:
        print("LATENT: Schedule %s %s in %s: %s" % (f["kind"], f["pred"], sjobs[f["record"]]["family"], str(f["what"])[:200]))


def main(tier):
    run = Run("C02", tier)
    sd = seed()
    n = 60 if tier == "quick" else 1500
    # design level (growth beyond the listed property): the scheduler's fast-storage allocation keeps usage within the
    # staging limit (FastStorage.tla); negative control = best score not reset between components
    sfx = "_Quick.cfg" if tier == "quick" else ".cfg"
    for cfg, want in (("FastStorage_MC" + sfx, "ok"), ("FastStorage_Broken" + sfx, "invariant")):
        res = tlc.run("FastStorageMC", cfg, workers=16, timeout=2400)
        if res["status"] != want:
            raise MachineryError("FastStorage %s: expected %s, got %s\n%s" % (cfg, want, res["status"], res["output"][-1500:]))
        run.add_mc("FastStorage/" + cfg, res)
    jobs = corpus.all_singles(sd, tier=tier) + corpus.draw(n, sd, dedicated_bias=0.5)
    jobs += corpus.draw(12 if tier == "quick" else 150, sd + 7, families=["diamonds", "branch", "inplace"])
    # WeightBuffer_Deep: 4 slice sizes (16..96) x up to 6 slices x 11 limits = 60 060 instances (MC: 3 x 5 x 8 = 2 904)
    for cfg, want in (("WeightBuffer_MC.cfg", "ok"), ("WeightBuffer_Broken.cfg", "invariant"), ("WeightBuffer_Deep.cfg", "ok")):
        res = tlc.run("WeightBuffer", cfg, workers=8, timeout=900)
        if res["status"] != want:
            raise MachineryError("WeightBuffer %s: expected %s, got %s\n%s" % (cfg, want, res["status"], res["output"][-1500:]))
        run.add_mc("WeightBuffer/" + cfg, res)
    jobs += corpus.draw(10 if tier == "quick" else 150, sd + 13, families=["pruned", "wide", "tied"])
    # graph shapes (corpus_shapes.py); emphasis: depth-changing memory-only operators between NPU operators in spilling
    # memory modes, transposes of non-square feature maps, tensors leaving their subgraph, few channels on two cores
    jobs += corpus.shape_jobs(sd, tier, extra=["reshape_between"] * 3 + ["tr_hw"] * 2 + ["skip_out", "tiny_depth", "fsgroups", "fsgroups"], thorough=25)
    # opt-in graph shapes: FULLY_CONNECTED with batches 1..17 (laid out over H x W by the compiler; alone = its result ends
    # the arena), memory-only operators on tensors entering the NPU subgraph (copies from the arena into the fast storage)
    jobs += corpus.shape_jobs(sd, tier, families=[], extra=["fc_batch"] * N_FC_BATCH + ["memonly_first"] * N_MEMONLY + ["odd_cascade"] * 2, thorough=12)

    def both(nng, arch, res):
        return {"fs": faststorage.extractor(nng, arch, res), "wb": weightbuf.extract(nng, arch, res)}
    both.on_failure = True
    faststorage.install()
    try:
        rs = vela_run.compile_many(jobs, extractor=both)
    finally:
        faststorage.uninstall()
    schedule_component(run, tier, sd)
    wb_events, wb_index = [], {}
    for j, x in zip(jobs, rs):
        for rec in ((x.get("extract") or {}).get("wb") or []):
            rec["t"] = len(wb_events) + 1
            wb_events.append(rec)
            wb_index[rec["t"]] = j
    if wb_events:
        res, viol = tlc.validate_traces("WeightBufferTrace", "WeightBufferTrace.cfg", wb_events, timeout=1800)
        run.add_trace_run("WeightBufferTrace", res, len(wb_events))
        for v in viol:
            j = wb_index[v[0]]
            run.violation("WeightBuffer|Fits|%s|%s" % (v[3], j["family"].split(":")[0]),
                          "a depth slice is larger than the %s weight buffer it is DMA'd into (operator %s of %s with %s)" % (
                              v[3], v[2], j["family"], j["opts"]), {"net": j["net"], "opts": j["opts"], "record": wb_events[v[0] - 1]})
        run.cov["weight_buffering"] = {"operators": len(wb_events), "single": sum(1 for e in wb_events if e["kind"] == "single"),
                                       "double": sum(1 for e in wb_events if e["kind"] == "double")}
    fs_events, fs_index = [], {}
    for j, x in zip(jobs, rs):
        for rec in ((x.get("extract") or {}).get("fs") or []):
            rec["t"] = len(fs_events) + 1
            fs_events.append(rec)
            fs_index[rec["t"]] = j
    if fs_events:
        import re
        res, viol = tlc.validate_traces("FastStorageTrace", "FastStorageTrace.cfg", fs_events, timeout=1800)
        run.add_trace_run("FastStorageTrace", res, len(fs_events))
        for v in viol:
            j = fs_index[v[0]]
            run.violation("FastStorage|%s|%s" % (v[1], j["family"].split(":")[0]),
                          "fast-storage allocation %s violated for %s with %s" % (v[1], j["family"], j["opts"]),
                          {"net": j["net"], "opts": j["opts"], "record": fs_events[v[0] - 1]})
        m = re.search(r'<<\s*"DRIFT",\s*"((?:[^"\\\\]|\\\\.)*)"\s*>>', res["output"], re.S)
        dr = json.loads(json.loads('"' + m.group(1).replace("\n", " ") + '"')) if m and m.group(1) else []
        run.cov["fast_storage"] = {"component_allocations": len(fs_events), "model_drift": len(dr),
                                   "largest_component": max(len(e["lrs"]) for e in fs_events)}
    events, index, tid = [], {}, 0
    for j, x in zip(jobs, rs):
        if x["rc"] != 0 or "out_bytes" not in x:
            continue      # failures to compile are C13's business
        try:
            _, ss = streams.analyse(x["out_bytes"], j["opts"]["accel"])
        except Exception as e:
            run.violation("ArtefactParses|" + type(e).__name__, "output model of %s cannot be analysed: %r" % (j["family"], e),
                          {"net": j["net"], "opts": j["opts"]})
            continue
        for s in ss:
            tid += 1
            run.evaluated()
            spilling, cache = spill_info(j["opts"])
            bad = [o for o in s["ops"] if o["fp"] is None]
            if bad:
                run.violation("StreamDecodes|" + j["family"], bad[0]["fp_error"], {"net": j["net"], "opts": j["opts"]})
                continue
            ev, ncls = stream_events.c02_events(tid, s, spilling, cache)
            events += ev
            index[tid] = (j, s)
            regions = {a["region"] for e in ev if e["e"] == "Op" for a in e["acc"]}
            if len(s["ops"]) > 1 or spilling:
                run.nontrivial((j["family"], json.dumps(j["opts"], sort_keys=True)))
            run.sample({"family": j["family"], "opts": j["opts"], "ops": len(s["ops"]), "extent": {str(k): v for k, v in s["extent"].items()},
                        "regions_touched": sorted(regions), "cells": ncls})
    if not events:
        raise MachineryError("no stream was produced by the corpus")
    ids = sorted(index)
    B = 800
    for b in range(0, len(ids), B):
        sel = set(ids[b:b + B])
        res, viol = tlc.validate_traces("NpuMemTrace", "NpuMemTrace.cfg", [e for e in events if e["t"] in sel], timeout=1800)
        run.add_trace_run("NpuMemTrace", res, len(sel))
        for v in viol:
            j, s = index[v[0]]
            key = "%s|%s|%s|%s" % (v[1], v[3], j["family"], j["opts"]["accel"])
            run.violation(key, "%s: access '%s' of operation %d (%s, %s)" % (v[1], v[3], v[2], j["family"], j["opts"]),
                          {"net": j["net"], "opts": j["opts"], "violated": v[1:], "extent": {str(k): x for k, x in s["extent"].items()}})
    # negative controls: shrink the published scratch extent of one stream by one byte; mark one as spilling with tiny cache
    t0 = ids[0]
    j, s = index[t0]
    s2 = dict(s, extent=dict(s["extent"]))
    hi = max((iv[-1][1] for o in s["ops"] for (_, reg, iv) in o["fp"]["rd"] + o["fp"]["wr"] if reg == 1 and iv), default=None)
    if hi is not None:
        s2["extent"][1] = hi - 1
        ev, _ = stream_events.c02_events(1, s2, True, 1)
        _, viol = tlc.validate_traces("NpuMemTrace", "NpuMemTrace.cfg", ev)
        names = {v[1] for v in viol}
        if "InBounds" not in names or ("FastWithinCache" not in names and s2["extent"][2] > 1):
            raise MachineryError("negative control failed: shrunken extent accepted (%s)" % names)
        run.cov["negative_control"] = "extent shrunk by one byte / cache of 1 byte rejected: %s" % sorted(names)
    run.cov["rule"] = ("one trace per ethos-u custom operator of each compiled corpus network; non-trivial = stream with more "
                       "than one operation or compiled for a spilling (Dedicated SRAM) memory mode; distinct = (family, options)")
    run.assumptions += ["A-HW4 footprints (DESIGN.md section 4)", "region r of the command stream is custom-operator input r+1 "
                        "(flash, scratch, scratch_fast) as bound by the Ethos-U driver"]
    return run.finish()


def replay(path):
    rp = json.load(open(path))["replay"]
    x = vela_run.compile_many([{"id": 0, "net": rp["net"], "opts": rp["opts"]}])[0]
    _, ss = streams.analyse(x["out_bytes"], rp["opts"]["accel"])
    bad = 0
    for t, s in enumerate(ss, 1):
        sp, cache = spill_info(rp["opts"])
        ev, _ = stream_events.c02_events(t, s, sp, cache)
        _, viol = tlc.validate_traces("NpuMemTrace", "NpuMemTrace.cfg", ev)
        for v in viol:
            print("replay:", v)
            bad += 1
    return 1 if bad else 0
