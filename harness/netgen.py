"""Independent .tflite generator: JSON-able network descriptions -> flatbuffer bytes.

Uses only the flatbuffers runtime and the generated schema accessors under
ethosu/vela/tflite (pure data classes); it does not use tflite_writer.py.

A network description is
  {"tensors":[{"name","shape","type","scale"?, "zp"?, "qdim"?, "data"?}...],
   "ops":[{"op":"CONV_2D","inputs":[..],"outputs":[..],"opts":["Conv2DOptions",{field:value}]?,
           "version"?, "custom_code"?, "custom_options"?}],
   "inputs":[..], "outputs":[..]}
"data" is either a list of numbers or {"rng":seed,"lo":a,"hi":b} (integers drawn with numpy default_rng)
or {"fill": v}.
"""
import importlib

import flatbuffers
import numpy as np

from .common import ensure_repo_on_path

ensure_repo_on_path()
from ethosu.vela.tflite import (Model, SubGraph, Tensor, Buffer, Operator, OperatorCode,  # noqa: E402
                                QuantizationParameters, BuiltinOperator, BuiltinOptions, TensorType)

BO = BuiltinOperator.BuiltinOperator
BOPT = BuiltinOptions.BuiltinOptions
TT = TensorType.TensorType
NP = {"INT8": np.int8, "UINT8": np.uint8, "INT16": np.int16, "INT32": np.int32, "INT64": np.int64,
      "FLOAT32": np.float32, "BOOL": np.bool_, "FLOAT16": np.float16, "UINT32": np.uint32}


def _data(t):
    d = t.get("data")
    if d is None:
        return None
    dt = NP[t["type"]]
    n = int(np.prod(t["shape"])) if len(t["shape"]) else 1
    if isinstance(d, dict):
        if "rng" in d:
            rng = np.random.default_rng(d["rng"])
            a = rng.integers(d["lo"], d["hi"] + 1, size=n).astype(dt)
            if d.get("zero_filters"):        # structured sparsity: whole output filters (axis 0) set to zero
                a = a.reshape(t["shape"])
                for lo, hi in d["zero_filters"]:
                    a[lo:hi] = d.get("zero_value", 0)
                a = a.reshape(-1)
            return a
        if "fill" in d:
            return np.full(n, d["fill"], dtype=dt)
        if "iota" in d:
            return ((np.arange(n) * d.get("mul", 1) + d["iota"]) % d.get("mod", 1 << 30) + d.get("off", 0)).astype(dt)
    return np.asarray(d).astype(dt).reshape(-1)


def build(net):
    b = flatbuffers.Builder(4096)
    buffers = [b""]

    def vec(kind, v):
        if kind == "i32":
            b.StartVector(4, len(v), 4)
            for e in reversed(v):
                b.PrependInt32(int(e))
        elif kind == "i64":
            b.StartVector(8, len(v), 8)
            for e in reversed(v):
                b.PrependInt64(int(e))
        elif kind == "f32":
            b.StartVector(4, len(v), 4)
            for e in reversed(v):
                b.PrependFloat32(float(e))
        elif kind == "off":
            b.StartVector(4, len(v), 4)
            for e in reversed(v):
                b.PrependUOffsetTRelative(e)
        elif kind == "u8":
            return b.CreateByteVector(bytes(v))
        return b.EndVector()

    tens = []
    for t in net["tensors"]:
        name = b.CreateString(t["name"])
        shape = vec("i32", t["shape"]) if t.get("shape") is not None else None
        q = None
        if t.get("scale") is not None:
            sc = vec("f32", t["scale"])
            zp = vec("i64", t.get("zp", [0] * len(t["scale"])))
            QuantizationParameters.Start(b)
            QuantizationParameters.AddScale(b, sc)
            QuantizationParameters.AddZeroPoint(b, zp)
            if t.get("qdim") is not None:
                QuantizationParameters.AddQuantizedDimension(b, t["qdim"])
            q = QuantizationParameters.End(b)
        bi = 0
        d = _data(t)
        if d is not None:
            buffers.append(d.tobytes())
            bi = len(buffers) - 1
        Tensor.Start(b)
        if shape is not None:
            Tensor.AddShape(b, shape)
        Tensor.AddType(b, getattr(TT, t["type"]))
        Tensor.AddBuffer(b, bi)
        Tensor.AddName(b, name)
        if q is not None:
            Tensor.AddQuantization(b, q)
        if t.get("is_variable"):
            Tensor.AddIsVariable(b, True)
        tens.append(Tensor.End(b))

    opcodes = []
    ops = []
    for o in net["ops"]:
        key = (o["op"], o.get("version", 1), o.get("custom_code"))
        if key not in opcodes:
            opcodes.append(key)
        ins = vec("i32", o["inputs"])
        outs = vec("i32", o["outputs"])
        opt = None
        opt_type = 0
        if o.get("opts"):
            modname, fields = o["opts"]
            mod = importlib.import_module("ethosu.vela.tflite." + modname)
            pre = {k: vec("i32", v) for k, v in fields.items() if isinstance(v, (list, tuple))}
            mod.Start(b)
            for k, v in fields.items():
                getattr(mod, "Add" + k)(b, pre.get(k, v))
            opt = mod.End(b)
            opt_type = getattr(BOPT, modname)
        cust = vec("u8", o["custom_options"]) if o.get("custom_options") is not None else None
        Operator.Start(b)
        Operator.AddOpcodeIndex(b, opcodes.index(key))
        Operator.AddInputs(b, ins)
        Operator.AddOutputs(b, outs)
        if opt is not None:
            Operator.AddBuiltinOptionsType(b, opt_type)
            Operator.AddBuiltinOptions(b, opt)
        if cust is not None:
            Operator.AddCustomOptions(b, cust)
        ops.append(Operator.End(b))

    tv = vec("off", tens)
    ov = vec("off", ops)
    iv = vec("i32", net["inputs"])
    outv = vec("i32", net["outputs"])
    sgname = b.CreateString(net.get("name", "main"))
    SubGraph.Start(b)
    SubGraph.AddTensors(b, tv)
    SubGraph.AddInputs(b, iv)
    SubGraph.AddOutputs(b, outv)
    SubGraph.AddOperators(b, ov)
    SubGraph.AddName(b, sgname)
    sg = SubGraph.End(b)

    ocs = []
    for (opn, ver, cc) in opcodes:
        code = getattr(BO, opn)
        ccs = b.CreateString(cc) if cc else None
        OperatorCode.Start(b)
        OperatorCode.AddDeprecatedBuiltinCode(b, min(code, 127))
        OperatorCode.AddBuiltinCode(b, code)
        OperatorCode.AddVersion(b, ver)
        if ccs is not None:
            OperatorCode.AddCustomCode(b, ccs)
        ocs.append(OperatorCode.End(b))
    ocv = vec("off", ocs)
    bufs = []
    for d in buffers:
        dv = None
        if len(d):
            b.StartVector(1, len(d), 16)
            b.head = b.head - len(d)
            b.Bytes[b.head:b.head + len(d)] = d
            dv = b.EndVector()
        Buffer.Start(b)
        if dv is not None:
            Buffer.AddData(b, dv)
        bufs.append(Buffer.End(b))
    bv = vec("off", bufs)
    sgv = vec("off", [sg])
    desc = b.CreateString(net.get("description", "verif"))
    Model.Start(b)
    Model.AddVersion(b, 3)
    Model.AddOperatorCodes(b, ocv)
    Model.AddSubgraphs(b, sgv)
    Model.AddDescription(b, desc)
    Model.AddBuffers(b, bv)
    m = Model.End(b)
    b.Finish(m, b"TFL3")
    return bytes(b.Output())


# ----------------------------------------------------------------------------- description helpers
class Net:
    """Incremental builder of a network description."""

    def __init__(self, seed=0):
        self.t = []
        self.o = []
        self.inputs = []
        self.outputs = []
        self.seed = seed
        self._k = 0

    def _dseed(self):
        self._k += 1
        return self.seed * 1000 + self._k

    def fm(self, name, shape, dt="INT8", scale=0.05, zp=0, is_input=False):
        t = {"name": name, "shape": list(shape), "type": dt}
        if scale is not None:
            t["scale"] = [scale]
            t["zp"] = [zp]
        self.t.append(t)
        if is_input:
            self.inputs.append(len(self.t) - 1)
        return len(self.t) - 1

    def const(self, name, shape, dt, lo=None, hi=None, scale=None, zp=None, qdim=None, data=None):
        t = {"name": name, "shape": list(shape), "type": dt}
        t["data"] = data if data is not None else {"rng": self._dseed(), "lo": lo, "hi": hi}
        if scale is not None:
            t["scale"] = list(scale)
            t["zp"] = list(zp) if zp is not None else [0] * len(scale)
        if qdim is not None:
            t["qdim"] = qdim
        self.t.append(t)
        return len(self.t) - 1

    def op(self, op, inputs, outputs, opts=None, **kw):
        d = {"op": op, "inputs": list(inputs), "outputs": list(outputs)}
        if opts:
            d["opts"] = opts
        d.update(kw)
        self.o.append(d)
        return d

    def shape(self, i):
        return self.t[i]["shape"]

    def desc(self, outputs=None):
        return {"tensors": self.t, "ops": self.o, "inputs": self.inputs,
                "outputs": list(outputs) if outputs is not None else self.outputs}

    # ---- operator helpers (return output tensor index) -----------------------
    def _out_hw(self, h, w, kh, kw, s, pad, dil=1):
        ekh, ekw = (kh - 1) * dil + 1, (kw - 1) * dil + 1
        if pad == "SAME":
            return (h + s - 1) // s, (w + s - 1) // s
        return (h - ekh) // s + 1, (w - ekw) // s + 1

    def conv(self, x, oc, k=3, stride=1, pad="SAME", dil=1, act=0, name=None, dt=None, per_channel=True,
             kh=None, kw=None, oscale=0.07, ozp=-5, bias=True):
        n, h, w, c = self.shape(x)
        kh, kw = kh or k, kw or k
        dt = dt or self.t[x]["type"]
        name = name or "conv%d" % len(self.o)
        ns = oc if per_channel else 1
        wt = self.const(name + "_w", [oc, kh, kw, c], "INT8" if dt != "UINT8" else "UINT8",
                        -127 if dt != "UINT8" else 0, 127 if dt != "UINT8" else 255,
                        scale=[0.01 + 0.001 * (i % 7) for i in range(ns)],
                        zp=[0 if dt != "UINT8" else 128] * ns, qdim=0 if per_channel else None)
        ins = [x, wt]
        if bias:
            bt = self.const(name + "_b", [oc], "INT64" if dt == "INT16" else "INT32", -1000, 1000,
                            scale=[0.0005] * ns, zp=[0] * ns, qdim=0 if per_channel else None)
            ins.append(bt)
        oh, ow = self._out_hw(h, w, kh, kw, stride, pad, dil)
        y = self.fm(name, [n, oh, ow, oc], dt, oscale, ozp if dt != "INT16" else 0)
        self.op("CONV_2D", ins, [y], ["Conv2DOptions", {"Padding": 0 if pad == "SAME" else 1, "StrideW": stride,
                                                       "StrideH": stride, "DilationWFactor": dil,
                                                       "DilationHFactor": dil, "FusedActivationFunction": act}])
        return y

    def dwconv(self, x, k=3, stride=1, pad="SAME", dil=1, act=0, name=None, mult=1):
        n, h, w, c = self.shape(x)
        dt = self.t[x]["type"]
        name = name or "dw%d" % len(self.o)
        oc = c * mult
        wt = self.const(name + "_w", [1, k, k, oc], "INT8", -127, 127, scale=[0.01] * oc, zp=[0] * oc, qdim=3)
        bt = self.const(name + "_b", [oc], "INT32", -100, 100, scale=[0.0005] * oc, zp=[0] * oc, qdim=0)
        oh, ow = self._out_hw(h, w, k, k, stride, pad, dil)
        y = self.fm(name, [n, oh, ow, oc], dt, 0.1, 1)
        self.op("DEPTHWISE_CONV_2D", [x, wt, bt], [y],
                ["DepthwiseConv2DOptions", {"Padding": 0 if pad == "SAME" else 1, "StrideW": stride, "StrideH": stride,
                                            "DepthMultiplier": mult, "DilationWFactor": dil, "DilationHFactor": dil,
                                            "FusedActivationFunction": act}])
        return y

    def pool(self, x, kind="MAX_POOL_2D", k=2, stride=2, pad="SAME", name=None, act=0):
        n, h, w, c = self.shape(x)
        name = name or "pool%d" % len(self.o)
        oh, ow = self._out_hw(h, w, k, k, stride, pad)
        src = self.t[x]
        y = self.fm(name, [n, oh, ow, c], src["type"], src["scale"][0], src["zp"][0])
        self.op(kind, [x], [y], ["Pool2DOptions", {"Padding": 0 if pad == "SAME" else 1, "StrideW": stride,
                                                   "StrideH": stride, "FilterWidth": k, "FilterHeight": k,
                                                   "FusedActivationFunction": act}])
        return y

    def eltwise(self, kind, a, b_, name=None, act=0, oscale=0.1, ozp=-1):
        name = name or "%s%d" % (kind.lower(), len(self.o))
        sa, sb = self.shape(a), self.shape(b_)
        shp = [max(p, q) for p, q in zip(sa, sb)] if len(sa) == len(sb) else (sa if len(sa) > len(sb) else sb)
        y = self.fm(name, shp, self.t[a]["type"], oscale, ozp)
        on = {"ADD": "AddOptions", "SUB": "SubOptions", "MUL": "MulOptions"}.get(kind)
        if on:
            self.op(kind, [a, b_], [y], [on, {"FusedActivationFunction": act}])
        else:  # MINIMUM / MAXIMUM
            self.t[y]["scale"] = self.t[a]["scale"]
            self.t[y]["zp"] = self.t[a]["zp"]
            self.op(kind, [a, b_], [y])
        return y

    def unary(self, kind, x, name=None, **kw):
        name = name or "%s%d" % (kind.lower(), len(self.o))
        dt = self.t[x]["type"]
        sc, zp = self.t[x]["scale"][0], self.t[x]["zp"][0]
        if kind == "TANH":
            sc, zp = (1 / 128, 0) if dt == "INT8" else (1 / 32768, 0)
        elif kind == "LOGISTIC":
            sc, zp = (1 / 256, -128) if dt == "INT8" else (1 / 32768, 0)
        y = self.fm(name, self.shape(x), dt, sc, zp)
        opts = None
        if kind == "LEAKY_RELU":
            opts = ["LeakyReluOptions", {"Alpha": kw.get("alpha", 0.1)}]
        elif kind == "SOFTMAX":
            opts = ["SoftmaxOptions", {"Beta": 1.0}]
            self.t[y]["scale"], self.t[y]["zp"] = [1 / 256], [-128]
        self.op(kind, [x], [y], opts)
        return y

    def reshape(self, x, new_shape, name=None):
        name = name or "reshape%d" % len(self.o)
        s = self.const(name + "_shape", [len(new_shape)], "INT32", data=list(new_shape))
        src = self.t[x]
        y = self.fm(name, new_shape, src["type"], src["scale"][0], src["zp"][0])
        self.op("RESHAPE", [x, s], [y], ["ReshapeOptions", {"NewShape": list(new_shape)}])
        return y

    def concat(self, xs, axis=3, name=None):
        name = name or "concat%d" % len(self.o)
        shp = list(self.shape(xs[0]))
        shp[axis] = sum(self.shape(x)[axis] for x in xs)
        src = self.t[xs[0]]
        y = self.fm(name, shp, src["type"], src["scale"][0], src["zp"][0])
        self.op("CONCATENATION", xs, [y], ["ConcatenationOptions", {"Axis": axis, "FusedActivationFunction": 0}])
        return y

    def split(self, x, n, axis=3, name=None):
        name = name or "split%d" % len(self.o)
        ax = self.const(name + "_axis", [], "INT32", data=[axis])
        shp = list(self.shape(x))
        shp[axis] //= n
        src = self.t[x]
        ys = [self.fm("%s_%d" % (name, i), shp, src["type"], src["scale"][0], src["zp"][0]) for i in range(n)]
        self.op("SPLIT", [ax, x], ys, ["SplitOptions", {"NumSplits": n}])
        return ys

    def fc(self, x, oc, name=None, act=0):
        n, c = self.shape(x)
        name = name or "fc%d" % len(self.o)
        wt = self.const(name + "_w", [oc, c], "INT8", -127, 127, scale=[0.01], zp=[0])
        bt = self.const(name + "_b", [oc], "INT32", -100, 100, scale=[0.0005], zp=[0])
        y = self.fm(name, [n, oc], self.t[x]["type"], 0.1, 0)
        self.op("FULLY_CONNECTED", [x, wt, bt], [y], ["FullyConnectedOptions", {"FusedActivationFunction": act,
                                                                               "KeepNumDims": False}])
        return y

    def mean(self, x, axes=(1, 2), keep=True, name=None):
        name = name or "mean%d" % len(self.o)
        ax = self.const(name + "_axis", [len(axes)], "INT32", data=list(axes))
        shp = [1 if i in axes else d for i, d in enumerate(self.shape(x))]
        if not keep:
            shp = [d for i, d in enumerate(self.shape(x)) if i not in axes]
        src = self.t[x]
        y = self.fm(name, shp, src["type"], src["scale"][0], src["zp"][0])
        self.op("MEAN", [x, ax], [y], ["ReducerOptions", {"KeepDims": keep}])
        return y

    def resize(self, x, kind="RESIZE_BILINEAR", factor=2, name=None, align=False, half=False):
        n, h, w, c = self.shape(x)
        name = name or "resize%d" % len(self.o)
        sz = self.const(name + "_size", [2], "INT32", data=[h * factor, w * factor])
        src = self.t[x]
        y = self.fm(name, [n, h * factor, w * factor, c], src["type"], src["scale"][0], src["zp"][0])
        on = "ResizeBilinearOptions" if kind == "RESIZE_BILINEAR" else "ResizeNearestNeighborOptions"
        self.op(kind, [x, sz], [y], [on, {"AlignCorners": align, "HalfPixelCenters": half}])
        return y

    def tconv(self, x, oc, k=3, stride=2, pad="SAME", name=None):
        n, h, w, c = self.shape(x)
        name = name or "tconv%d" % len(self.o)
        if pad == "SAME":
            oh, ow = h * stride, w * stride
        else:
            oh, ow = (h - 1) * stride + k, (w - 1) * stride + k
        osz = self.const(name + "_oshape", [4], "INT32", data=[n, oh, ow, oc])
        wt = self.const(name + "_w", [oc, k, k, c], "INT8", -127, 127, scale=[0.01] * oc, zp=[0] * oc, qdim=0)
        bt = self.const(name + "_b", [oc], "INT32", -100, 100, scale=[0.0005] * oc, zp=[0] * oc, qdim=0)
        y = self.fm(name, [n, oh, ow, oc], self.t[x]["type"], 0.1, 0)
        self.op("TRANSPOSE_CONV", [osz, wt, x, bt], [y],
                ["TransposeConvOptions", {"Padding": 0 if pad == "SAME" else 1, "StrideW": stride, "StrideH": stride}])
        return y

    def pad(self, x, pads, name=None):
        name = name or "pad%d" % len(self.o)
        p = self.const(name + "_p", [4, 2], "INT32", data=[v for pr in pads for v in pr])
        shp = [d + a + b for d, (a, b) in zip(self.shape(x), pads)]
        src = self.t[x]
        y = self.fm(name, shp, src["type"], src["scale"][0], src["zp"][0])
        self.op("PAD", [x, p], [y])
        return y

    def cpu_op(self, x, kind="FLOOR_F32", name=None):
        """An operator Vela cannot place on the NPU; the feature map stays int8 so NPU neighbours connect.
        kinds: CUSTOM third-party, int8 ops outside the supported set."""
        name = name or "cpu%d" % len(self.o)
        src = self.t[x]
        y = self.fm(name, self.shape(x), src["type"], src["scale"][0], src["zp"][0])
        if kind == "CUSTOM":
            self.op("CUSTOM", [x], [y], custom_code="ThirdPartyOp", custom_options=[1, 2, 3, 4])
        elif kind == "FLOOR_DIV":
            self.op("FLOOR_DIV", [x, x], [y])
        elif kind == "ROUND":
            self.op("ROUND", [x], [y])
        elif kind == "L2_NORMALIZATION":
            self.op("L2_NORMALIZATION", [x], [y], ["L2NormOptions", {"FusedActivationFunction": 0}])
        else:
            self.op(kind, [x], [y])
        return y
