"""Independent .tflite generator: JSON-able network descriptions -> flatbuffer bytes.

Uses only the flatbuffers runtime and the generated schema accessors under
ethosu/vela/tflite (pure data classes); it does not use tflite_writer.py.

A network description is
  {"tensors":[{"name","shape","type","scale"?, "zp"?, "qdim"?, "data"?}...],
   "ops":[{"op":"CONV_2D","inputs":[..],"outputs":[..],"opts":["Conv2DOptions",{field:value}]?,
           "version"?, "custom_code"?, "custom_options"?}],
   "inputs":[..], "outputs":[..]}
"data" is either a list of numbers or {"rng":seed,"lo":a,"hi":b} (integers drawn with numpy default_rng)
or {"fill": v}.
Optional fields (only written when the key is present, so descriptions without them build byte-identically):
tensor  "min"/"max" (float lists of the quantisation table, with or without "scale"), "shape_signature" (int list),
        "qpresent" (list: exactly these members of scale / zp / min / max / qdim are stored in the quantisation table,
        [] = an empty table), "has_rank" (bool), "is_variable" (bool), "buffer_of" (index of an earlier tensor whose buffer is shared);
operator inputs / outputs / intermediates may contain -1 (omitted optional operand), "mutating_variable_inputs"
        (bool list); option values may be ints / bools / floats, int lists (int32 vector), {"f32": [..]} (float
        vector) or str (string);
model   "metadata": [{"name": str, "data": [byte values]}].
"""
import importlib

import flatbuffers
import numpy as np

from .common import ensure_repo_on_path

ensure_repo_on_path()
from ethosu.vela.tflite import (Model, SubGraph, Tensor, Buffer, Operator, OperatorCode,  # noqa: E402
                                QuantizationParameters, BuiltinOperator, BuiltinOptions, TensorType, Metadata)

BO = BuiltinOperator.BuiltinOperator
BOPT = BuiltinOptions.BuiltinOptions
TT = TensorType.TensorType
NP = {"INT8": np.int8, "UINT8": np.uint8, "INT16": np.int16, "INT32": np.int32, "INT64": np.int64,
      "FLOAT32": np.float32, "BOOL": np.bool_, "FLOAT16": np.float16, "UINT32": np.uint32}


def _data(t):
    d = t.get("data")
    if d is None:
        return None
    dt = NP[t["type"]]
    n = int(np.prod(t["shape"])) if len(t["shape"]) else 1
    if isinstance(d, dict):
        if "rng" in d:
            rng = np.random.default_rng(d["rng"])
            a = rng.integers(d["lo"], d["hi"] + 1, size=n).astype(dt)
            if d.get("zero_filters"):        # structured sparsity: whole output filters (axis 0) set to zero
                a = a.reshape(t["shape"])
                for lo, hi in d["zero_filters"]:
                    a[lo:hi] = d.get("zero_value", 0)
                a = a.reshape(-1)
            return a
        if "fill" in d:
            return np.full(n, d["fill"], dtype=dt)
        if "iota" in d:
            return ((np.arange(n) * d.get("mul", 1) + d["iota"]) % d.get("mod", 1 << 30) + d.get("off", 0)).astype(dt)
    return np.asarray(d).astype(dt).reshape(-1)


def build(net):
    b = flatbuffers.Builder(4096)
    buffers = [b""]

    def vec(kind, v):
        if kind == "i32":
            b.StartVector(4, len(v), 4)
            for e in reversed(v):
                b.PrependInt32(int(e))
        elif kind == "i64":
            b.StartVector(8, len(v), 8)
            for e in reversed(v):
                b.PrependInt64(int(e))
        elif kind == "f32":
            b.StartVector(4, len(v), 4)
            for e in reversed(v):
                b.PrependFloat32(float(e))
        elif kind == "off":
            b.StartVector(4, len(v), 4)
            for e in reversed(v):
                b.PrependUOffsetTRelative(e)
        elif kind == "u8":
            return b.CreateByteVector(bytes(v))
        return b.EndVector()

    tens = []
    tbuf = []
    for t in net["tensors"]:
        name = b.CreateString(t["name"])
        shape = vec("i32", t["shape"]) if t.get("shape") is not None else None
        q = None
        if t.get("qpresent") is not None:
            # explicit member list (subset of scale / zp / min / max / qdim): a table with exactly these members, values
            # from the usual keys; [] = an empty table.  (A scale without a zero point, a zero point alone ... are valid.)
            pres = set(t["qpresent"])
            vs = {k_: vec("i64" if k_ == "zp" else "f32", t[k_]) for k_ in ("min", "max", "scale", "zp") if k_ in pres}
            QuantizationParameters.Start(b)
            for k_, add in (("min", QuantizationParameters.AddMin), ("max", QuantizationParameters.AddMax),
                            ("scale", QuantizationParameters.AddScale), ("zp", QuantizationParameters.AddZeroPoint)):
                if k_ in vs:
                    add(b, vs[k_])
            if "qdim" in pres:
                QuantizationParameters.AddQuantizedDimension(b, t["qdim"])
            q = QuantizationParameters.End(b)
        elif t.get("scale") is not None or t.get("min") is not None or t.get("max") is not None:
            mn = vec("f32", t["min"]) if t.get("min") is not None else None
            mx = vec("f32", t["max"]) if t.get("max") is not None else None
            sc = zp = None
            if t.get("scale") is not None:
                sc = vec("f32", t["scale"])
                zp = vec("i64", t.get("zp", [0] * len(t["scale"])))
            QuantizationParameters.Start(b)
            if mn is not None:
                QuantizationParameters.AddMin(b, mn)
            if mx is not None:
                QuantizationParameters.AddMax(b, mx)
            if sc is not None:
                QuantizationParameters.AddScale(b, sc)
                QuantizationParameters.AddZeroPoint(b, zp)
            if t.get("qdim") is not None:
                QuantizationParameters.AddQuantizedDimension(b, t["qdim"])
            q = QuantizationParameters.End(b)
        bi = 0
        d = _data(t)
        if t.get("buffer_of") is not None:
            bi = tbuf[t["buffer_of"]]
        elif d is not None:
            buffers.append(d.tobytes())
            bi = len(buffers) - 1
        tbuf.append(bi)
        ssig = vec("i32", t["shape_signature"]) if t.get("shape_signature") is not None else None
        Tensor.Start(b)
        if shape is not None:
            Tensor.AddShape(b, shape)
        Tensor.AddType(b, getattr(TT, t["type"]))
        Tensor.AddBuffer(b, bi)
        Tensor.AddName(b, name)
        if q is not None:
            Tensor.AddQuantization(b, q)
        if t.get("is_variable"):
            Tensor.AddIsVariable(b, True)
        if ssig is not None:
            Tensor.AddShapeSignature(b, ssig)
        if t.get("has_rank"):
            Tensor.AddHasRank(b, True)
        tens.append(Tensor.End(b))

    opcodes = []
    ops = []
    for o in net["ops"]:
        key = (o["op"], o.get("version", 1), o.get("custom_code"))
        if key not in opcodes:
            opcodes.append(key)
        ins = vec("i32", o["inputs"])
        outs = vec("i32", o["outputs"])
        opt = None
        opt_type = 0
        if o.get("opts"):
            modname, fields = o["opts"]
            mod = importlib.import_module("ethosu.vela.tflite." + modname)
            pre = {k: vec("i32", v) for k, v in fields.items() if isinstance(v, (list, tuple))}
            for k, v in fields.items():
                if isinstance(v, dict):
                    pre[k] = vec("f32", v["f32"])
                elif isinstance(v, str):
                    pre[k] = b.CreateString(v)
            mod.Start(b)
            for k, v in fields.items():
                getattr(mod, "Add" + k)(b, pre.get(k, v))
            opt = mod.End(b)
            opt_type = getattr(BOPT, modname)
        cust = vec("u8", o["custom_options"]) if o.get("custom_options") is not None else None
        inter = vec("i32", o["intermediates"]) if o.get("intermediates") else None
        mvi = None
        if o.get("mutating_variable_inputs") is not None:
            mvi = b.CreateByteVector(bytes(1 if x else 0 for x in o["mutating_variable_inputs"]))
        Operator.Start(b)
        Operator.AddOpcodeIndex(b, opcodes.index(key))
        Operator.AddInputs(b, ins)
        Operator.AddOutputs(b, outs)
        if opt is not None:
            Operator.AddBuiltinOptionsType(b, opt_type)
            Operator.AddBuiltinOptions(b, opt)
        if cust is not None:
            Operator.AddCustomOptions(b, cust)
        if inter is not None:
            Operator.AddIntermediates(b, inter)
        if mvi is not None:
            Operator.AddMutatingVariableInputs(b, mvi)
        ops.append(Operator.End(b))

    tv = vec("off", tens)
    ov = vec("off", ops)
    iv = vec("i32", net["inputs"])
    outv = vec("i32", net["outputs"])
    sgname = b.CreateString(net.get("name", "main"))
    SubGraph.Start(b)
    SubGraph.AddTensors(b, tv)
    SubGraph.AddInputs(b, iv)
    SubGraph.AddOutputs(b, outv)
    SubGraph.AddOperators(b, ov)
    SubGraph.AddName(b, sgname)
    sg = SubGraph.End(b)

    ocs = []
    for (opn, ver, cc) in opcodes:
        code = getattr(BO, opn)
        ccs = b.CreateString(cc) if cc else None
        OperatorCode.Start(b)
        OperatorCode.AddDeprecatedBuiltinCode(b, min(code, 127))
        OperatorCode.AddBuiltinCode(b, code)
        OperatorCode.AddVersion(b, ver)
        if ccs is not None:
            OperatorCode.AddCustomCode(b, ccs)
        ocs.append(OperatorCode.End(b))
    ocv = vec("off", ocs)
    md_first = len(buffers)
    for md in net.get("metadata") or []:
        buffers.append(bytes(md["data"]))
    bufs = []
    for d in buffers:
        dv = None
        if len(d):
            b.StartVector(1, len(d), 16)
            b.head = b.head - len(d)
            b.Bytes[b.head:b.head + len(d)] = d
            dv = b.EndVector()
        Buffer.Start(b)
        if dv is not None:
            Buffer.AddData(b, dv)
        bufs.append(Buffer.End(b))
    mdv = None
    if net.get("metadata"):
        mds = []
        for k, md in enumerate(net["metadata"]):
            nm = b.CreateString(md["name"])
            Metadata.Start(b)
            Metadata.AddName(b, nm)
            Metadata.AddBuffer(b, md_first + k)
            mds.append(Metadata.End(b))
        mdv = vec("off", mds)
    bv = vec("off", bufs)
    sgv = vec("off", [sg])
    desc = b.CreateString(net.get("description", "verif"))
    Model.Start(b)
    Model.AddVersion(b, 3)
    Model.AddOperatorCodes(b, ocv)
    Model.AddSubgraphs(b, sgv)
    Model.AddDescription(b, desc)
    Model.AddBuffers(b, bv)
    if mdv is not None:
        Model.AddMetadata(b, mdv)
    m = Model.End(b)
    b.Finish(m, b"TFL3")
    return bytes(b.Output())


# ----------------------------------------------------------------------------- description helpers
class Net:
    """Incremental builder of a network description."""

    def __init__(self, seed=0):
        self.t = []
        self.o = []
        self.inputs = []
        self.outputs = []
        self.seed = seed
        self._k = 0

    def _dseed(self):
        self._k += 1
        return self.seed * 1000 + self._k

    def fm(self, name, shape, dt="INT8", scale=0.05, zp=0, is_input=False):
        t = {"name": name, "shape": list(shape), "type": dt}
        if scale is not None:
            t["scale"] = [scale]
            t["zp"] = [zp]
        self.t.append(t)
        if is_input:
            self.inputs.append(len(self.t) - 1)
        return len(self.t) - 1

    def const(self, name, shape, dt, lo=None, hi=None, scale=None, zp=None, qdim=None, data=None):
        t = {"name": name, "shape": list(shape), "type": dt}
        t["data"] = data if data is not None else {"rng": self._dseed(), "lo": lo, "hi": hi}
        if scale is not None:
            t["scale"] = list(scale)
            t["zp"] = list(zp) if zp is not None else [0] * len(scale)
        if qdim is not None:
            t["qdim"] = qdim
        self.t.append(t)
        return len(self.t) - 1

    def op(self, op, inputs, outputs, opts=None, **kw):
        d = {"op": op, "inputs": list(inputs), "outputs": list(outputs)}
        if opts:
            d["opts"] = opts
        d.update(kw)
        self.o.append(d)
        return d

    def shape(self, i):
        return self.t[i]["shape"]

    def desc(self, outputs=None):
        return {"tensors": self.t, "ops": self.o, "inputs": self.inputs,
                "outputs": list(outputs) if outputs is not None else self.outputs}

    # ---- operator helpers (return output tensor index) -----------------------
    def _out_hw(self, h, w, kh, kw, s, pad, dil=1):
        ekh, ekw = (kh - 1) * dil + 1, (kw - 1) * dil + 1
        if pad == "SAME":
            return (h + s - 1) // s, (w + s - 1) // s
        return (h - ekh) // s + 1, (w - ekw) // s + 1

    def conv(self, x, oc, k=3, stride=1, pad="SAME", dil=1, act=0, name=None, dt=None, per_channel=True,
             kh=None, kw=None, oscale=0.07, ozp=-5, bias=True):
        n, h, w, c = self.shape(x)
        kh, kw = kh or k, kw or k
        dt = dt or self.t[x]["type"]
        name = name or "conv%d" % len(self.o)
        ns = oc if per_channel else 1
        wt = self.const(name + "_w", [oc, kh, kw, c], "INT8" if dt != "UINT8" else "UINT8",
                        -127 if dt != "UINT8" else 0, 127 if dt != "UINT8" else 255,
                        scale=[0.01 + 0.001 * (i % 7) for i in range(ns)],
                        zp=[0 if dt != "UINT8" else 128] * ns, qdim=0 if per_channel else None)
        ins = [x, wt]
        if bias:
            bt = self.const(name + "_b", [oc], "INT64" if dt == "INT16" else "INT32", -1000, 1000,
                            scale=[0.0005] * ns, zp=[0] * ns, qdim=0 if per_channel else None)
            ins.append(bt)
        oh, ow = self._out_hw(h, w, kh, kw, stride, pad, dil)
        y = self.fm(name, [n, oh, ow, oc], dt, oscale, ozp if dt != "INT16" else 0)
        self.op("CONV_2D", ins, [y], ["Conv2DOptions", {"Padding": 0 if pad == "SAME" else 1, "StrideW": stride,
                                                       "StrideH": stride, "DilationWFactor": dil,
                                                       "DilationHFactor": dil, "FusedActivationFunction": act}])
        return y

    def dwconv(self, x, k=3, stride=1, pad="SAME", dil=1, act=0, name=None, mult=1):
        n, h, w, c = self.shape(x)
        dt = self.t[x]["type"]
        name = name or "dw%d" % len(self.o)
        oc = c * mult
        wt = self.const(name + "_w", [1, k, k, oc], "INT8", -127, 127, scale=[0.01] * oc, zp=[0] * oc, qdim=3)
        bt = self.const(name + "_b", [oc], "INT32", -100, 100, scale=[0.0005] * oc, zp=[0] * oc, qdim=0)
        oh, ow = self._out_hw(h, w, k, k, stride, pad, dil)
        y = self.fm(name, [n, oh, ow, oc], dt, 0.1, 1)
        self.op("DEPTHWISE_CONV_2D", [x, wt, bt], [y],
                ["DepthwiseConv2DOptions", {"Padding": 0 if pad == "SAME" else 1, "StrideW": stride, "StrideH": stride,
                                            "DepthMultiplier": mult, "DilationWFactor": dil, "DilationHFactor": dil,
                                            "FusedActivationFunction": act}])
        return y

    def pool(self, x, kind="MAX_POOL_2D", k=2, stride=2, pad="SAME", name=None, act=0):
        n, h, w, c = self.shape(x)
        name = name or "pool%d" % len(self.o)
        oh, ow = self._out_hw(h, w, k, k, stride, pad)
        src = self.t[x]
        y = self.fm(name, [n, oh, ow, c], src["type"], src["scale"][0], src["zp"][0])
        self.op(kind, [x], [y], ["Pool2DOptions", {"Padding": 0 if pad == "SAME" else 1, "StrideW": stride,
                                                   "StrideH": stride, "FilterWidth": k, "FilterHeight": k,
                                                   "FusedActivationFunction": act}])
        return y

    def eltwise(self, kind, a, b_, name=None, act=0, oscale=0.1, ozp=-1):
        name = name or "%s%d" % (kind.lower(), len(self.o))
        sa, sb = self.shape(a), self.shape(b_)
        shp = [max(p, q) for p, q in zip(sa, sb)] if len(sa) == len(sb) else (sa if len(sa) > len(sb) else sb)
        y = self.fm(name, shp, self.t[a]["type"], oscale, ozp)
        on = {"ADD": "AddOptions", "SUB": "SubOptions", "MUL": "MulOptions"}.get(kind)
        if on:
            self.op(kind, [a, b_], [y], [on, {"FusedActivationFunction": act}])
        else:  # MINIMUM / MAXIMUM
            self.t[y]["scale"] = self.t[a]["scale"]
            self.t[y]["zp"] = self.t[a]["zp"]
            self.op(kind, [a, b_], [y])
        return y

    def unary(self, kind, x, name=None, **kw):
        name = name or "%s%d" % (kind.lower(), len(self.o))
        dt = self.t[x]["type"]
        sc, zp = self.t[x]["scale"][0], self.t[x]["zp"][0]
        if kind == "TANH":
            sc, zp = (1 / 128, 0) if dt == "INT8" else (1 / 32768, 0)
        elif kind == "LOGISTIC":
            sc, zp = (1 / 256, -128) if dt == "INT8" else (1 / 32768, 0)
        y = self.fm(name, self.shape(x), dt, sc, zp)
        opts = None
        if kind == "LEAKY_RELU":
            opts = ["LeakyReluOptions", {"Alpha": kw.get("alpha", 0.1)}]
        elif kind == "SOFTMAX":
            opts = ["SoftmaxOptions", {"Beta": 1.0}]
            self.t[y]["scale"], self.t[y]["zp"] = [1 / 256], [-128]
        self.op(kind, [x], [y], opts)
        return y

    def reshape(self, x, new_shape, name=None):
        name = name or "reshape%d" % len(self.o)
        s = self.const(name + "_shape", [len(new_shape)], "INT32", data=list(new_shape))
        src = self.t[x]
        y = self.fm(name, new_shape, src["type"], src["scale"][0], src["zp"][0])
        self.op("RESHAPE", [x, s], [y], ["ReshapeOptions", {"NewShape": list(new_shape)}])
        return y

    def concat(self, xs, axis=3, name=None):
        name = name or "concat%d" % len(self.o)
        shp = list(self.shape(xs[0]))
        shp[axis] = sum(self.shape(x)[axis] for x in xs)
        src = self.t[xs[0]]
        y = self.fm(name, shp, src["type"], src["scale"][0], src["zp"][0])
        self.op("CONCATENATION", xs, [y], ["ConcatenationOptions", {"Axis": axis, "FusedActivationFunction": 0}])
        return y

    def split(self, x, n, axis=3, name=None):
        name = name or "split%d" % len(self.o)
        ax = self.const(name + "_axis", [], "INT32", data=[axis])
        shp = list(self.shape(x))
        shp[axis] //= n
        src = self.t[x]
        ys = [self.fm("%s_%d" % (name, i), shp, src["type"], src["scale"][0], src["zp"][0]) for i in range(n)]
        self.op("SPLIT", [ax, x], ys, ["SplitOptions", {"NumSplits": n}])
        return ys

    def fc(self, x, oc, name=None, act=0):
        n, c = self.shape(x)
        name = name or "fc%d" % len(self.o)
        wt = self.const(name + "_w", [oc, c], "INT8", -127, 127, scale=[0.01], zp=[0])
        bt = self.const(name + "_b", [oc], "INT32", -100, 100, scale=[0.0005], zp=[0])
        y = self.fm(name, [n, oc], self.t[x]["type"], 0.1, 0)
        self.op("FULLY_CONNECTED", [x, wt, bt], [y], ["FullyConnectedOptions", {"FusedActivationFunction": act,
                                                                               "KeepNumDims": False}])
        return y

    def mean(self, x, axes=(1, 2), keep=True, name=None):
        name = name or "mean%d" % len(self.o)
        ax = self.const(name + "_axis", [len(axes)], "INT32", data=list(axes))
        shp = [1 if i in axes else d for i, d in enumerate(self.shape(x))]
        if not keep:
            shp = [d for i, d in enumerate(self.shape(x)) if i not in axes]
        src = self.t[x]
        y = self.fm(name, shp, src["type"], src["scale"][0], src["zp"][0])
        self.op("MEAN", [x, ax], [y], ["ReducerOptions", {"KeepDims": keep}])
        return y

    def resize(self, x, kind="RESIZE_BILINEAR", factor=2, name=None, align=False, half=False):
        n, h, w, c = self.shape(x)
        name = name or "resize%d" % len(self.o)
        sz = self.const(name + "_size", [2], "INT32", data=[h * factor, w * factor])
        src = self.t[x]
        y = self.fm(name, [n, h * factor, w * factor, c], src["type"], src["scale"][0], src["zp"][0])
        on = "ResizeBilinearOptions" if kind == "RESIZE_BILINEAR" else "ResizeNearestNeighborOptions"
        self.op(kind, [x, sz], [y], [on, {"AlignCorners": align, "HalfPixelCenters": half}])
        return y

    def tconv(self, x, oc, k=3, stride=2, pad="SAME", name=None):
        n, h, w, c = self.shape(x)
        name = name or "tconv%d" % len(self.o)
        if pad == "SAME":
            oh, ow = h * stride, w * stride
        else:
            oh, ow = (h - 1) * stride + k, (w - 1) * stride + k
        osz = self.const(name + "_oshape", [4], "INT32", data=[n, oh, ow, oc])
        wt = self.const(name + "_w", [oc, k, k, c], "INT8", -127, 127, scale=[0.01] * oc, zp=[0] * oc, qdim=0)
        bt = self.const(name + "_b", [oc], "INT32", -100, 100, scale=[0.0005] * oc, zp=[0] * oc, qdim=0)
        y = self.fm(name, [n, oh, ow, oc], self.t[x]["type"], 0.1, 0)
        self.op("TRANSPOSE_CONV", [osz, wt, x, bt], [y],
                ["TransposeConvOptions", {"Padding": 0 if pad == "SAME" else 1, "StrideW": stride, "StrideH": stride}])
        return y

    def pad(self, x, pads, name=None):
        name = name or "pad%d" % len(self.o)
        p = self.const(name + "_p", [4, 2], "INT32", data=[v for pr in pads for v in pr])
        shp = [d + a + b for d, (a, b) in zip(self.shape(x), pads)]
        src = self.t[x]
        y = self.fm(name, shp, src["type"], src["scale"][0], src["zp"][0])
        self.op("PAD", [x, p], [y])
        return y

    def cpu_op(self, x, kind="FLOOR_F32", name=None):
        """An operator Vela cannot place on the NPU; the feature map stays int8 so NPU neighbours connect.
        kinds: CUSTOM third-party, int8 ops outside the supported set."""
        name = name or "cpu%d" % len(self.o)
        src = self.t[x]
        y = self.fm(name, self.shape(x), src["type"], src["scale"][0], src["zp"][0])
        if kind == "CUSTOM":
            self.op("CUSTOM", [x], [y], custom_code="ThirdPartyOp", custom_options=[1, 2, 3, 4])
        elif kind == "FLOOR_DIV":
            self.op("FLOOR_DIV", [x, x], [y])
        elif kind == "ROUND":
            self.op("ROUND", [x], [y])
        elif kind == "L2_NORMALIZATION":
            self.op("L2_NORMALIZATION", [x], [y], ["L2NormOptions", {"FusedActivationFunction": 0}])
        else:
            self.op(kind, [x], [y])
        return y

    # ---- generic operators added for the widened corpus (rank-agnostic; do not change the helpers above:
    #      existing corpus entries must stay byte-identical) -------------------------------------------------
    def like(self, x, name, shape=None, dt=None, scale=None, zp=None):
        """a new feature map with the quantisation (and by default shape/type) of tensor x"""
        src = self.t[x]
        sc = src["scale"][0] if scale is None and src.get("scale") else scale
        z = src["zp"][0] if zp is None and src.get("zp") else (zp or 0)
        return self.fm(name, list(shape) if shape is not None else list(src["shape"]), dt or src["type"], sc, z)

    def i32(self, name, values, shape=None, dt="INT32"):
        values = list(values)
        return self.const(name, [len(values)] if shape is None else shape, dt, data=values)

    def conv2(self, x, oc, kh=3, kw=3, sh=1, sw=1, dh=1, dw=1, pad="SAME", act=0, name=None, oscale=0.07, ozp=-5,
              groups=1, bias=True, per_channel=True):
        """CONV_2D with independent kernel extents, strides and dilations per axis (and grouped convolution)"""
        n, h, w, c = self.shape(x)
        dt = self.t[x]["type"]
        name = name or "conv%d" % len(self.o)
        ns = oc if per_channel else 1
        u8 = dt == "UINT8"
        wt = self.const(name + "_w", [oc, kh, kw, c // groups], "UINT8" if u8 else "INT8", 0 if u8 else -127, 255 if u8 else 127,
                        scale=[0.01 + 0.001 * (i % 7) for i in range(ns)], zp=[128 if u8 else 0] * ns,
                        qdim=0 if per_channel else None)
        ins = [x, wt]
        if bias:
            ins.append(self.const(name + "_b", [oc], "INT64" if dt == "INT16" else "INT32", -1000, 1000,
                                  scale=[0.0005] * ns, zp=[0] * ns, qdim=0 if per_channel else None))
        ekh, ekw = (kh - 1) * dh + 1, (kw - 1) * dw + 1
        if pad == "SAME":
            oh, ow = -(-h // sh), -(-w // sw)
        else:
            oh, ow = (h - ekh) // sh + 1, (w - ekw) // sw + 1
        y = self.fm(name, [n, oh, ow, oc], dt, oscale, ozp if dt != "INT16" else 0)
        self.op("CONV_2D", ins, [y], ["Conv2DOptions", {"Padding": 0 if pad == "SAME" else 1, "StrideW": sw, "StrideH": sh,
                                                       "DilationWFactor": dw, "DilationHFactor": dh,
                                                       "FusedActivationFunction": act}])
        return y

    def dwconv2(self, x, kh=3, kw=3, sh=1, sw=1, dh=1, dw=1, pad="SAME", act=0, name=None, mult=1):
        n, h, w, c = self.shape(x)
        dt = self.t[x]["type"]
        name = name or "dw%d" % len(self.o)
        oc = c * mult
        u8 = dt == "UINT8"
        wt = self.const(name + "_w", [1, kh, kw, oc], "UINT8" if u8 else "INT8", 0 if u8 else -127, 255 if u8 else 127,
                        scale=[0.01] * oc, zp=[128 if u8 else 0] * oc, qdim=3)
        bt = self.const(name + "_b", [oc], "INT64" if dt == "INT16" else "INT32", -100, 100, scale=[0.0005] * oc,
                        zp=[0] * oc, qdim=0)
        ekh, ekw = (kh - 1) * dh + 1, (kw - 1) * dw + 1
        if pad == "SAME":
            oh, ow = -(-h // sh), -(-w // sw)
        else:
            oh, ow = (h - ekh) // sh + 1, (w - ekw) // sw + 1
        y = self.fm(name, [n, oh, ow, oc], dt, 0.1, 1 if dt != "INT16" else 0)
        self.op("DEPTHWISE_CONV_2D", [x, wt, bt], [y],
                ["DepthwiseConv2DOptions", {"Padding": 0 if pad == "SAME" else 1, "StrideW": sw, "StrideH": sh,
                                            "DepthMultiplier": mult, "DilationWFactor": dw, "DilationHFactor": dh,
                                            "FusedActivationFunction": act}])
        return y

    def pool2(self, x, kind="MAX_POOL_2D", kh=2, kw=2, sh=2, sw=2, pad="SAME", name=None, act=0):
        n, h, w, c = self.shape(x)
        name = name or "pool%d" % len(self.o)
        if pad == "SAME":
            oh, ow = -(-h // sh), -(-w // sw)
        else:
            oh, ow = (h - kh) // sh + 1, (w - kw) // sw + 1
        y = self.like(x, name, [n, oh, ow, c])
        self.op(kind, [x], [y], ["Pool2DOptions", {"Padding": 0 if pad == "SAME" else 1, "StrideW": sw, "StrideH": sh,
                                                   "FilterWidth": kw, "FilterHeight": kh, "FusedActivationFunction": act}])
        return y

    def fc2(self, x, oc, name=None, act=0, keep_num_dims=False, bias=True, oscale=0.1):
        """FULLY_CONNECTED on an input of any rank: [..., c] -> [prod(...), oc] (or [..., oc] with keep_num_dims)"""
        shp = self.shape(x)
        c = shp[-1]
        dt = self.t[x]["type"]
        name = name or "fc%d" % len(self.o)
        u8 = dt == "UINT8"
        wt = self.const(name + "_w", [oc, c], "UINT8" if u8 else "INT8", 0 if u8 else -127, 255 if u8 else 127,
                        scale=[0.01], zp=[128 if u8 else 0])
        ins = [x, wt]
        if bias:
            ins.append(self.const(name + "_b", [oc], "INT64" if dt == "INT16" else "INT32", -100, 100, scale=[0.0005], zp=[0]))
        batch = 1
        for d in shp[:-1]:
            batch *= d
        oshape = list(shp[:-1]) + [oc] if keep_num_dims else [batch, oc]
        y = self.fm(name, oshape, dt, oscale, 0)
        self.op("FULLY_CONNECTED", ins, [y], ["FullyConnectedOptions", {"FusedActivationFunction": act,
                                                                       "KeepNumDims": bool(keep_num_dims)}])
        return y

    def binary(self, kind, a, b_, name=None, act=0, oscale=0.1, ozp=-1, odt=None):
        """binary elementwise with numpy broadcasting of operands of any (possibly different) rank"""
        name = name or "%s%d" % (kind.lower(), len(self.o))
        sa, sb = list(self.shape(a)), list(self.shape(b_))
        r = max(len(sa), len(sb))
        pa, pb = [1] * (r - len(sa)) + sa, [1] * (r - len(sb)) + sb
        shp = [max(p, q) for p, q in zip(pa, pb)]
        dt = odt or self.t[a]["type"]
        on = {"ADD": "AddOptions", "SUB": "SubOptions", "MUL": "MulOptions"}.get(kind)
        if kind in ("MINIMUM", "MAXIMUM"):
            y = self.like(a, name, shp)
            self.op(kind, [a, b_], [y])
        elif on:
            y = self.fm(name, shp, dt, oscale, ozp if dt in ("INT8", "UINT8") else 0)
            self.op(kind, [a, b_], [y], [on, {"FusedActivationFunction": act}])
        else:                                   # SQUARED_DIFFERENCE, ...
            y = self.fm(name, shp, dt, oscale, ozp if dt in ("INT8", "UINT8") else 0)
            self.op(kind, [a, b_], [y])
        return y

    def act_op(self, kind, x, name=None, oscale=None, ozp=None, **kw):
        """unary activation-like operator with explicit output quantisation (any data type)"""
        name = name or "%s%d" % (kind.lower(), len(self.o))
        y = self.like(x, name, scale=oscale, zp=ozp)
        opts = None
        if kind == "LEAKY_RELU":
            opts = ["LeakyReluOptions", {"Alpha": kw.get("alpha", 0.1)}]
        elif kind == "SOFTMAX":
            opts = ["SoftmaxOptions", {"Beta": kw.get("beta", 1.0)}]
        self.op(kind, [x], [y], opts)
        return y

    def quantize(self, x, dt, scale, zp, name=None):
        name = name or "quantize%d" % len(self.o)
        y = self.fm(name, self.shape(x), dt, scale, zp)
        self.op("QUANTIZE", [x], [y])
        return y

    def argmax(self, x, axis=None, out="INT32", name=None):
        name = name or "argmax%d" % len(self.o)
        shp = list(self.shape(x))
        axis = len(shp) - 1 if axis is None else axis
        ax = self.const(name + "_axis", [], "INT32", data=[axis])
        y = self.fm(name, shp[:axis] + shp[axis + 1:], out, None)
        self.op("ARG_MAX", [x, ax], [y], ["ArgMaxOptions", {"OutputType": getattr(TT, out)}])
        return y

    def slice(self, x, begin, size, name=None):
        name = name or "slice%d" % len(self.o)
        b_ = self.i32(name + "_begin", begin)
        s = self.i32(name + "_size", size)
        shp = [d - bb if sz == -1 else sz for d, bb, sz in zip(self.shape(x), begin, size)]
        y = self.like(x, name, shp)
        self.op("SLICE", [x, b_, s], [y])
        return y

    def strided_slice(self, x, begin, end, strides=None, begin_mask=0, end_mask=0, shrink=0, new_axis=0, ellipsis=0,
                      offset=False, name=None, oshape=None):
        name = name or "sslice%d" % len(self.o)
        strides = strides or [1] * len(begin)
        ins = [x, self.i32(name + "_begin", begin), self.i32(name + "_end", end), self.i32(name + "_strides", strides)]
        if oshape is None:
            oshape = []
            for i, d in enumerate(self.shape(x)):
                b0 = 0 if begin_mask & (1 << i) else (begin[i] + d if begin[i] < 0 else begin[i])
                e0 = d if end_mask & (1 << i) else (end[i] + d if end[i] < 0 else end[i])
                if shrink & (1 << i):
                    continue
                oshape.append(max(0, -(-(e0 - b0) // strides[i])))
        y = self.like(x, name, oshape)
        self.op("STRIDED_SLICE", ins, [y], ["StridedSliceOptions", {"BeginMask": begin_mask, "EndMask": end_mask,
                                                                   "EllipsisMask": ellipsis, "NewAxisMask": new_axis,
                                                                   "ShrinkAxisMask": shrink, "Offset": bool(offset)}])
        return y

    def split_v(self, x, sizes, axis, name=None):
        name = name or "splitv%d" % len(self.o)
        st = self.i32(name + "_sizes", sizes)
        ax = self.const(name + "_axis", [], "INT32", data=[axis])
        d = self.shape(x)[axis]
        known = sum(s for s in sizes if s >= 0)
        ys = []
        for i, s in enumerate(sizes):
            shp = list(self.shape(x))
            shp[axis] = d - known if s < 0 else s
            ys.append(self.like(x, "%s_%d" % (name, i), shp))
        self.op("SPLIT_V", [x, st, ax], ys, ["SplitVOptions", {"NumSplits": len(sizes)}])
        return ys

    def squeeze(self, x, dims, name=None):
        name = name or "squeeze%d" % len(self.o)
        y = self.like(x, name, [d for i, d in enumerate(self.shape(x)) if i not in dims])
        self.op("SQUEEZE", [x], [y], ["SqueezeOptions", {"SqueezeDims": list(dims)}])
        return y

    def expand_dims(self, x, axis, name=None):
        name = name or "expand%d" % len(self.o)
        ax = self.const(name + "_axis", [], "INT32", data=[axis])
        shp = list(self.shape(x))
        shp.insert(axis if axis >= 0 else len(shp) + 1 + axis, 1)
        y = self.like(x, name, shp)
        self.op("EXPAND_DIMS", [x, ax], [y], ["ExpandDimsOptions", {}])
        return y

    def transpose(self, x, perm, name=None):
        name = name or "transpose%d" % len(self.o)
        p = self.i32(name + "_perm", perm)
        y = self.like(x, name, [self.shape(x)[i] for i in perm])
        self.op("TRANSPOSE", [x, p], [y], ["TransposeOptions", {}])
        return y

    def pack(self, xs, axis, name=None):
        name = name or "pack%d" % len(self.o)
        shp = list(self.shape(xs[0]))
        shp.insert(axis, len(xs))
        y = self.like(xs[0], name, shp)
        self.op("PACK", list(xs), [y], ["PackOptions", {"ValuesCount": len(xs), "Axis": axis}])
        return y

    def unpack(self, x, axis, name=None):
        name = name or "unpack%d" % len(self.o)
        shp = list(self.shape(x))
        num = shp.pop(axis)
        ys = [self.like(x, "%s_%d" % (name, i), shp) for i in range(num)]
        self.op("UNPACK", [x], ys, ["UnpackOptions", {"Num": num, "Axis": axis}])
        return ys

    def concat2(self, xs, axis, name=None, act=0):
        name = name or "concat%d" % len(self.o)
        shp = list(self.shape(xs[0]))
        shp[axis] = sum(self.shape(x)[axis] for x in xs)
        y = self.like(xs[0], name, shp)
        self.op("CONCATENATION", list(xs), [y], ["ConcatenationOptions", {"Axis": axis, "FusedActivationFunction": act}])
        return y

    def split2(self, x, n, axis, name=None):
        name = name or "split%d" % len(self.o)
        ax = self.const(name + "_axis", [], "INT32", data=[axis])
        shp = list(self.shape(x))
        shp[axis] //= n
        ys = [self.like(x, "%s_%d" % (name, i), shp) for i in range(n)]
        self.op("SPLIT", [ax, x], ys, ["SplitOptions", {"NumSplits": n}])
        return ys

    def mean2(self, x, axes, keep=True, name=None, oscale=None, ozp=None):
        name = name or "mean%d" % len(self.o)
        ax = self.i32(name + "_axis", axes)
        shp = [1 if i in axes else d for i, d in enumerate(self.shape(x))]
        if not keep:
            shp = [d for i, d in enumerate(self.shape(x)) if i not in axes]
        y = self.like(x, name, shp, scale=oscale, zp=ozp)
        self.op("MEAN", [x, ax], [y], ["ReducerOptions", {"KeepDims": bool(keep)}])
        return y

    def resize2(self, x, oh, ow, kind="RESIZE_BILINEAR", align=False, half=False, name=None):
        n, h, w, c = self.shape(x)
        name = name or "resize%d" % len(self.o)
        sz = self.i32(name + "_size", [oh, ow])
        y = self.like(x, name, [n, oh, ow, c])
        on = "ResizeBilinearOptions" if kind == "RESIZE_BILINEAR" else "ResizeNearestNeighborOptions"
        self.op(kind, [x, sz], [y], [on, {"AlignCorners": bool(align), "HalfPixelCenters": bool(half)}])
        return y

    def tconv2(self, x, oc, kh=3, kw=3, sh=2, sw=2, pad="SAME", name=None, bias=True):
        n, h, w, c = self.shape(x)
        name = name or "tconv%d" % len(self.o)
        if pad == "SAME":
            oh, ow = h * sh, w * sw
        else:
            oh, ow = (h - 1) * sh + kh, (w - 1) * sw + kw
        osz = self.i32(name + "_oshape", [n, oh, ow, oc])
        wt = self.const(name + "_w", [oc, kh, kw, c], "INT8", -127, 127, scale=[0.01] * oc, zp=[0] * oc, qdim=0)
        ins = [osz, wt, x]
        if bias:
            ins.append(self.const(name + "_b", [oc], "INT32", -100, 100, scale=[0.0005] * oc, zp=[0] * oc, qdim=0))
        y = self.fm(name, [n, oh, ow, oc], self.t[x]["type"], 0.1, 0)
        self.op("TRANSPOSE_CONV", ins, [y],
                ["TransposeConvOptions", {"Padding": 0 if pad == "SAME" else 1, "StrideW": sw, "StrideH": sh}])
        return y

    def pad2(self, x, pads, name=None, kind="PAD", dt="INT32"):
        """PAD (rank-3 or rank-4 padding tensor) / MIRROR_PAD"""
        name = name or "pad%d" % len(self.o)
        p = self.const(name + "_p", [len(pads), 2], dt, data=[v for pr in pads for v in pr])
        shp = [d + a + b_ for d, (a, b_) in zip(self.shape(x), pads)]
        y = self.like(x, name, shp)
        self.op(kind, [x, p], [y], ["MirrorPadOptions", {"Mode": 0}] if kind == "MIRROR_PAD" else None)
        return y

    def prelu(self, x, alphas=None, ashape=None, ascale=0.01, azp=0, name=None, oscale=None, ozp=None):
        name = name or "prelu%d" % len(self.o)
        c = self.shape(x)[-1]
        ashape = ashape or [1, 1, c]
        dt = self.t[x]["type"]
        data = alphas if alphas is not None else None
        lo, hi = (0, 255) if dt == "UINT8" else (-127, 127)
        a = self.const(name + "_alpha", ashape, dt, lo, hi, scale=[ascale], zp=[azp], data=data)
        y = self.like(x, name, scale=oscale, zp=ozp)
        self.op("PRELU", [x, a], [y])
        return y

    def shape_op(self, x, name=None):
        name = name or "shape%d" % len(self.o)
        y = self.fm(name, [len(self.shape(x))], "INT32", None)
        self.op("SHAPE", [x], [y], ["ShapeOptions", {"OutType": TT.INT32}])
        return y

    def lstm(self, x, n_cell, time_major=False, cell_clip=0.0, name=None):
        """UNIDIRECTIONAL_SEQUENCE_LSTM (no CIFG / peephole / projection / layer normalisation): x is [batch, time, feature]
        (or [time, batch, feature] when time_major); int8 activations, int16 cell state."""
        name = name or "lstm%d" % len(self.o)
        shp = self.shape(x)
        nb = shp[1] if time_major else shp[0]
        nf = shp[2]
        dt = self.t[x]["type"]

        def w(nm, cols):
            return self.const("%s_%s" % (name, nm), [n_cell, cols], "INT8", -127, 127, scale=[0.01], zp=[0])

        def bias(nm):
            return self.const("%s_%s" % (name, nm), [n_cell], "INT32", -500, 500, scale=[0.0005], zp=[0])
        ins = [x] + [w("i2" + g, nf) for g in "ifco"] + [w("r2" + g, n_cell) for g in "ifco"] + [-1, -1, -1]
        ins += [bias("b" + g) for g in "ifco"] + [-1, -1]
        out_state = self.fm(name + "_output_state", [nb, n_cell], dt, 1 / 128, 0)
        cell_state = self.fm(name + "_cell_state", [nb, n_cell], "INT16", 2.0 ** -11, 0)
        self.t[out_state]["is_variable"] = True
        self.t[cell_state]["is_variable"] = True
        ins += [out_state, cell_state, -1, -1, -1, -1]
        inter = [self.fm("%s_inter%d" % (name, i), [1], "INT16" if i < 4 else dt, 2.0 ** -12 if i < 4 else 1 / 128, 0)
                 for i in range(5)]
        y = self.fm(name, list(shp[:2]) + [n_cell], dt, 1 / 128, 0)
        self.op("UNIDIRECTIONAL_SEQUENCE_LSTM", ins, [y],
                ["UnidirectionalSequenceLSTMOptions", {"FusedActivationFunction": 4, "CellClip": float(cell_clip),
                                                       "ProjClip": 0.0, "TimeMajor": bool(time_major),
                                                       "AsymmetricQuantizeInputs": False,
                                                       "DiagonalRecurrentTensors": False}],
                intermediates=inter)
        return y
