"""Python rendering of spec/WeightOrder.tla `Order(c)` (same nest, vectorised with numpy) for volumes that are
too large to pass through TLC.  It is *not* trusted by itself: harness/checks/c07.py has TLC compare its output
with WeightOrder!Order on a lattice of small configurations in every run (trace kind "xcheck").

A configuration is a dict  od, kh, kw, id  (OHWI source volume), acc (accelerator name as in WeightOrder.tla),
oblk, trav in {"depth","part","dw"}, bits in {8,16}, dily, dilx in {1,2}."""
import numpy as np

UBLOCKS = {"U55_32": (8, 4), "U55_64": (8, 8), "U55_128": (8, 8), "U55_256": (8, 8), "U65_256": (8, 8),
           "U65_512": (8, 8)}
SUB_KERNEL_LIMIT = 8


def ublocks(cfg):
    if "iub" in cfg:
        return cfg["iub"], cfg["oub"]
    return UBLOCKS[cfg["acc"]]


def valid(cfg):
    iub, oub = ublocks(cfg)
    return (min(cfg["od"], cfg["kh"], cfg["kw"], cfg["id"]) >= 1 and cfg["trav"] in ("depth", "part", "dw")
            and cfg["bits"] in (8, 16) and cfg["dily"] in (1, 2) and cfg["dilx"] in (1, 2) and cfg["oblk"] >= 1
            and (cfg["oblk"] % oub == 0 or cfg["od"] <= cfg["oblk"]) and (cfg["trav"] != "dw" or cfg["id"] == 1))


def order_offsets(cfg):
    """int64 array: for every stream position the row-major OHWI offset of the source weight, -1 for a Pad."""
    od, kh, kw, idp = cfg["od"], cfg["kh"], cfg["kw"], cfg["id"]
    iub, oub = ublocks(cfg)
    trav, bits, oblk = cfg["trav"], cfg["bits"], cfg["oblk"]
    sub_h, sub_w = SUB_KERNEL_LIMIT // cfg["dily"], SUB_KERNEL_LIMIT // cfg["dilx"]
    ifm_blk = 16 if (trav == "part" or bits == 16) else 32
    elem_pad = (2 if bits == 16 else 4) if trav == "part" else (4 if trav == "dw" else 1)
    ifm_extent = 1 if trav == "dw" else idp
    uz = 1 if trav == "dw" else iub
    out = []
    oz = np.arange(oub).reshape(1, 1, oub, 1)
    iz = np.arange(uz).reshape(1, 1, 1, uz)
    for ob in range(0, od, oblk):
        ob_depth = min(oblk, od - ob)
        for ib in range(0, ifm_extent, ifm_blk):
            ib_depth = iub if trav == "dw" else (min(ifm_blk, idp - ib) if trav == "part" else ifm_blk)
            iub_seq = list(range(0, ib_depth, iub))
            outer = iub_seq if trav == "part" else [0]
            inner = np.array([0] if trav == "part" else iub_seq).reshape(1, -1, 1, 1)
            for sy in range(0, kh, sub_h):
                sh = min(sub_h, kh - sy)
                for sx in range(0, kw, sub_w):
                    sw = min(sub_w, kw - sx)
                    n_elem = -(-(sw * sh) // elem_pad) * elem_pad
                    e = np.arange(n_elem).reshape(-1, 1, 1, 1)
                    ky, kx = e // sw, e % sw
                    for iuo in outer:
                        for ou in range(0, ob_depth, oub):
                            o = ob + ou + oz
                            i = ib + iuo + inner + iz
                            ok = (o < od) & (i < idp) & (ky < sh)
                            off = ((o * kh + (sy + ky)) * kw + (sx + kx)) * idp + i
                            out.append(np.where(ok, off, -1).reshape(-1))
    return np.concatenate(out) if out else np.zeros(0, dtype=np.int64)


def reordered(cfg, flat_weights):
    """The weight stream the hardware must see for row-major OHWI source weights (numpy int array)."""
    off = order_offsets(cfg)
    w = np.asarray(flat_weights)
    return np.where(off >= 0, w[np.maximum(off, 0)], 0)


def order_coords(cfg):
    """Order as a list of [o, y, x, i] / [-1,-1,-1,-1], the shape TLC compares with WeightOrder!Order."""
    off = order_offsets(cfg)
    kh, kw, idp = cfg["kh"], cfg["kw"], cfg["id"]
    res = []
    for v in off.tolist():
        if v < 0:
            res.append([-1, -1, -1, -1])
        else:
            i = v % idp
            x = (v // idp) % kw
            y = (v // (idp * kw)) % kh
            o = v // (idp * kw * kh)
            res.append([o, y, x, i])
    return res
