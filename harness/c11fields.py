"""C11, field level: instantiate the case lattice of spec/Fields.tla with real schema members, operators and tensors.

spec/Fields.tla enumerates abstract cases of four sorts (one options member / the operand vector / the outputs /
one tensor with optional members).  This module turns them into networks:

  * option cases are bound to *every* member of *every* builtin options table of the schema the working tree ships
    (ethosu/vela/tflite/<Table>.py: member name, scalar kind and schema default are parsed from the generated builder
    functions, nothing is taken from tflite_mapping.py), carried by an operator that uses the table (OPS, the TFLite
    convention) placed in a float32 island  DEQUANTIZE -> op .. op -> QUANTIZE  between two NPU convolutions: float
    operators always stay on the CPU;
  * operand / output cases become third-party custom operators and builtin operators with optional operands in the
    same island (omitted operands at every position, one or two outputs used by the network and / or the next operator);
  * tensor cases become an int8 network  conv(NPU) -> custom(CPU) -> round(CPU) -> conv(NPU)  (+ an NPU branch that is a
    network output) in which every tensor role of the model exists, each carrying the optional members of its case.

Every network description carries  "c11_cases": [[case key, concrete instance]...]  so that the check can account
which lattice points were observed in a compiled model."""
import glob
import os
import re

from . import netgen
from .common import REPO, MachineryError

# --------------------------------------------------------------------------------------------------------------------
# schema introspection
# --------------------------------------------------------------------------------------------------------------------
_SCALAR = {"Bool": "bool", "Int8": "int", "Uint8": "int", "Int16": "int", "Int32": "int", "Uint32": "int", "Int64": "int",
           "Float32": "float"}
_MEMBERS = None


def schema_members():
    """{table: [(Member, kind, default, element)]}: kind in bool / int / float / vec / str; default as python value
    (None for vec / str); element = element kind of a vector."""
    global _MEMBERS
    if _MEMBERS is not None:
        return _MEMBERS
    out = {}
    for f in sorted(glob.glob(os.path.join(REPO, "ethosu", "vela", "tflite", "*Options.py"))):
        name = os.path.basename(f)[:-3]
        if name == "BuiltinOptions":
            continue
        src = open(f).read()
        mems = []
        pat = r"def %sAdd(\w+)\(builder, \w+\):\s*(?:return\s+)?builder\.Prepend(\w+)Slot\(\s*(\d+),\s*(.*),\s*([^,)]+)\)" % name
        for m in re.finditer(pat, src):
            mem, kind, _slot, _arg, dflt = m.groups()
            if kind in _SCALAR:
                k = _SCALAR[kind]
                d = float(dflt) if k == "float" else int(dflt)
                mems.append((mem, k, bool(d) if k == "bool" else d, None))
            elif kind == "UOffsetTRelative":
                a = re.search(r"def %s\(self(, j)?\):(.*?)(?=\n    # |\ndef |\Z)" % mem, src, re.S)
                body = a.group(2) if a else ""
                if a and not a.group(1) and "self._tab.String" in body:
                    mems.append((mem, "str", None, None))
                else:
                    t = re.search(r"number_types\.(\w+)Flags, a", body)
                    mems.append((mem, "vec", None, _SCALAR.get(t.group(1) if t else "", "?")))
            else:
                raise MachineryError("schema introspection: unknown slot kind %s in %s.%s" % (kind, name, mem))
        out[name] = mems
    if sum(len(v) for v in out.values()) < 100:
        raise MachineryError("schema introspection found too few option members (%d)" % sum(len(v) for v in out.values()))
    _MEMBERS = out
    return out


# operator -> (options table, number of inputs, number of outputs).  TFLite convention (schema.fbs); operators that
# need further subgraphs / resources (CALL, CALL_ONCE, IF, WHILE, VAR_HANDLE, READ/ASSIGN_VARIABLE) are left out, and so
# are BUCKETIZE and CONCAT_EMBEDDINGS, whose options the compiler's reader cannot decode at all (a C13 matter).
OPS = {
    "ADD": ("AddOptions", 2, 1), "SUB": ("SubOptions", 2, 1), "MUL": ("MulOptions", 2, 1), "DIV": ("DivOptions", 2, 1),
    "ARG_MAX": ("ArgMaxOptions", 2, 1), "ARG_MIN": ("ArgMinOptions", 2, 1),
    "BATCH_MATMUL": ("BatchMatMulOptions", 2, 1),
    "BIDIRECTIONAL_SEQUENCE_LSTM": ("BidirectionalSequenceLSTMOptions", 3, 2),
    "BIDIRECTIONAL_SEQUENCE_RNN": ("BidirectionalSequenceRNNOptions", 3, 2),
    "CAST": ("CastOptions", 1, 1), "CONCATENATION": ("ConcatenationOptions", 2, 1),
    "CONV_3D": ("Conv3DOptions", 3, 1), "CONV_3D_TRANSPOSE": ("Conv3DOptions", 3, 1),
    "CUMSUM": ("CumsumOptions", 2, 1), "DEPTH_TO_SPACE": ("DepthToSpaceOptions", 1, 1),
    "EMBEDDING_LOOKUP_SPARSE": ("EmbeddingLookupSparseOptions", 3, 1), "FAKE_QUANT": ("FakeQuantOptions", 1, 1),
    "GATHER": ("GatherOptions", 2, 1), "GELU": ("GeluOptions", 1, 1), "HASHTABLE": ("HashtableOptions", 1, 1),
    "L2_NORMALIZATION": ("L2NormOptions", 1, 1), "LSH_PROJECTION": ("LSHProjectionOptions", 2, 1),
    "LSTM": ("LSTMOptions", 3, 1), "LEAKY_RELU": ("LeakyReluOptions", 1, 1),
    "LOCAL_RESPONSE_NORMALIZATION": ("LocalResponseNormalizationOptions", 1, 1),
    "MIRROR_PAD": ("MirrorPadOptions", 2, 1), "ONE_HOT": ("OneHotOptions", 2, 1), "PACK": ("PackOptions", 2, 1),
    "RNN": ("RNNOptions", 3, 1), "RANDOM_STANDARD_NORMAL": ("RandomOptions", 1, 1),
    "RANDOM_UNIFORM": ("RandomOptions", 1, 1),
    "MEAN": ("ReducerOptions", 2, 1), "SUM": ("ReducerOptions", 2, 1), "REDUCE_PROD": ("ReducerOptions", 2, 1),
    "REDUCE_MAX": ("ReducerOptions", 2, 1), "REDUCE_MIN": ("ReducerOptions", 2, 1),
    "REDUCE_ANY": ("ReducerOptions", 2, 1), "REDUCE_ALL": ("ReducerOptions", 2, 1),
    "RESHAPE": ("ReshapeOptions", 2, 1), "RESIZE_BILINEAR": ("ResizeBilinearOptions", 2, 1),
    "RESIZE_NEAREST_NEIGHBOR": ("ResizeNearestNeighborOptions", 2, 1),
    "REVERSE_SEQUENCE": ("ReverseSequenceOptions", 2, 1), "SVDF": ("SVDFOptions", 4, 1),
    "UNIDIRECTIONAL_SEQUENCE_RNN": ("SequenceRNNOptions", 3, 1), "SHAPE": ("ShapeOptions", 1, 1),
    "SKIP_GRAM": ("SkipGramOptions", 1, 1), "SOFTMAX": ("SoftmaxOptions", 1, 1),
    "SPACE_TO_DEPTH": ("SpaceToDepthOptions", 1, 1), "SPARSE_TO_DENSE": ("SparseToDenseOptions", 3, 1),
    "SPLIT": ("SplitOptions", 2, 2), "SPLIT_V": ("SplitVOptions", 3, 2), "SQUEEZE": ("SqueezeOptions", 1, 1),
    "STRIDED_SLICE": ("StridedSliceOptions", 4, 1),
    "UNIDIRECTIONAL_SEQUENCE_LSTM": ("UnidirectionalSequenceLSTMOptions", 3, 1),
    "UNIQUE": ("UniqueOptions", 1, 2), "UNPACK": ("UnpackOptions", 1, 2),
    # operators the compiler rewrites when it reads them (weights reshaped, bias added, strides / kernels expanded): a
    # float instance with well-formed shapes, see _shaped()
    "CONV_2D": ("Conv2DOptions", 3, 1), "DEPTHWISE_CONV_2D": ("DepthwiseConv2DOptions", 3, 1),
    "FULLY_CONNECTED": ("FullyConnectedOptions", 3, 1), "TRANSPOSE_CONV": ("TransposeConvOptions", 4, 1),
    "AVERAGE_POOL_2D": ("Pool2DOptions", 1, 1), "MAX_POOL_2D": ("Pool2DOptions", 1, 1), "L2_POOL_2D": ("Pool2DOptions", 1, 1),
}
SHAPED = ("CONV_2D", "DEPTHWISE_CONV_2D", "FULLY_CONNECTED", "TRANSPOSE_CONV", "AVERAGE_POOL_2D", "MAX_POOL_2D",
          "L2_POOL_2D")

# members whose integer value is an enumeration (valid non-zero values, in the order "a", "b")
_TT = (2, 9, 4, 7)            # INT32, INT8, INT64, INT16
ENUMS = {"FusedActivationFunction": (1, 3, 2, 4, 5), "Padding": (1,), "WeightsFormat": (1,), "KernelType": (1,),
         "Mode": (1,), "Type": (1, 2), "Combiner": (1, 2), "OutputType": _TT, "InDataType": _TT, "OutDataType": _TT,
         "OutType": _TT, "IdxOutType": _TT, "KeyDtype": _TT, "ValueDtype": _TT}


# kernel strides and dilations must be positive: zero is not a value of these members (the compiler asserts on it)
POSITIVE = ("StrideW", "StrideH", "StrideD", "DilationWFactor", "DilationHFactor", "DilationDFactor")

# Option members the UNCHANGED tree does not carry through the round trip (genuine findings of this check, reported to
# the lead; reproduction: harness/repro/c11_fields_findings.py).  The bindings are switched off, not special-cased in
# the oracle: remove an entry to have the sweep cover the member again.
OPTION_MEMBERS_OFF = {}      # (the TransposeConvOptions entry was repaired in /repo, finding M1)


# single values the unchanged tree rewrites (reported likewise)
OPTION_VALUES_OFF = {}       # implicit depth multiplier 0: known finding M2, reported by the check


# Tensor members the UNCHANGED tree loses (findings as above).  A class listed here is not generated; delete the entry
# to switch the class on (plan() then adds networks that carry the member on interface and CPU-operator tensors).
TENSOR_CLASSES_OFF = {}      # float min/max-only tables, shape_signature, has_rank: known findings M3, M4, reported by the check
TENSOR_CLASSES = ("float_minmax_only", "shape_signature", "has_rank")

# Fields.tla enumerates EVERY subset of the members of the quantisation table.  The subsets with neither a scale nor a zero
# point (min / max / quantised dimension only, on integer and float tensors) are all lost by the unchanged tree for the
# reason of known finding M3 (tflite_reader.py drops a table that has neither), but only the float {min, max} instance of
# them carries M3's match key.  They are not instantiated while this entry exists (reproduction:
# harness/repro/c11_partial_quant_tables.py); delete the entry to have plan() generate them.
NOSCALE_TABLES_OFF = {}     # tables with neither scale nor zero point: known finding M3 (match keys widened), reported by the check


def dflt_class(kind, dflt):
    if kind in ("vec", "str"):
        return "absent"
    return "z" if not dflt else "a"


def concrete_value(member, kind, dflt, elem, val):
    """python value of abstract value `val` ("absent" / "z" / "a" / "b") for this member, or KeyError when the member has
    no such value (an enumeration with a single non-zero value has no "b")."""
    if kind == "bool":
        return {"z": False, "a": True}[val]
    if kind == "float":
        return {"z": 0.0, "a": 0.5}[val]
    if kind == "int":
        if val == "z":
            if member in POSITIVE:
                raise KeyError((member, val))
            return 0
        nz = list(ENUMS.get(member, (2, 3)))
        if dflt:                     # "a" is the schema default itself, "b" another non-zero value
            nz = [dflt] + [v for v in nz if v != dflt]
        idx = {"a": 0, "b": 1}[val]
        if idx >= len(nz):
            raise KeyError((member, val))
        return nz[idx]
    if kind == "vec":
        if val == "absent":
            return None
        vals = [] if val == "z" else [1, 2]
        return {"f32": [float(v) for v in vals]} if elem == "float" else vals
    if kind == "str":
        return None if val == "absent" else ("" if val == "z" else "vela_c11")
    raise MachineryError("unknown member kind " + kind)


def option_bindings(case):
    """all (table, Member, python value) the abstract option case stands for"""
    res = []
    for table, mems in schema_members().items():
        for mem, kind, dflt, elem in mems:
            if kind != case["kind"] or dflt_class(kind, dflt) != case["dflt"] or (table, mem) in OPTION_MEMBERS_OFF:
                continue
            try:
                value = concrete_value(mem, kind, dflt, elem, case["val"])
            except KeyError:
                continue
            if not isinstance(value, (list, dict)) and (table, mem, value) in OPTION_VALUES_OFF:
                continue
            if True:
                res.append((table, mem, value))
    return res


def case_key(c):
    if c["sort"] == "option":
        return "option|%s|dflt=%s|val=%s" % (c["kind"], c["dflt"], c["val"])
    if c["sort"] == "operand":
        return "operand|" + "".join(c["slots"])
    if c["sort"] == "output":
        return "output|" + ";".join("+".join(sorted(u)) or "unused" for u in c["uses"])
    if c["sort"] == "weight":
        return "weight|%s|zp=%s|per-%s|%s|kept:%s" % (c["opt"], c["zp"], c["per"], c["act"], c["why"])
    return tensor_key(c["role"], c["has"], c["dt"])


def tensor_key(role, has, dt):
    return "tensor|%s|%s|%s" % (role, dt, "+".join(sorted(has)) or "plain")


def noscale(has):
    return bool(has) and not (set(has) & {"scale", "zp"})


# --------------------------------------------------------------------------------------------------------------------
# float island: option / operand / output cases
# --------------------------------------------------------------------------------------------------------------------
OPERAND_FLAVOURS = ("CUSTOM", "SVDF", "UNIDIRECTIONAL_SEQUENCE_LSTM", "RNN")
OUTPUT_FLAVOURS = ("CUSTOM", "TOPK_V2", "UNIQUE", "SPLIT")


class Island:
    """in0 -> conv(NPU) -> DEQUANTIZE -> [CPU operators on float32] -> QUANTIZE -> conv(NPU) -> out"""

    def __init__(self, sd, rng, shape=(1, 8, 8, 8)):
        self.n = netgen.Net(sd)
        self.rng = rng
        self.shape = list(shape)
        n = self.n
        self.in0 = n.fm("in0", self.shape, scale=rng.choice([0.05, 0.03]), zp=rng.choice([0, 2, -3]), is_input=True)
        h = n.conv(self.in0, self.shape[3], 1, name="head")
        self.cur = n.fm("f0", self.shape, "FLOAT32", None)
        n.op("DEQUANTIZE", [h], [self.cur])
        self.k = 0
        self.outputs = []
        self.cases = []

    def ftensor(self, name, shape=None):
        return self.n.fm(name, list(shape or self.shape), "FLOAT32", None)

    def fconst(self, name, shape, dt="FLOAT32"):
        if dt == "FLOAT32":
            return self.n.const(name, list(shape), "FLOAT32", data={"iota": 1, "mod": 7})
        return self.n.const(name, list(shape), dt, data={"iota": 1, "mod": 3})

    def finish(self):
        n = self.n
        q = n.fm("requant", self.shape, "INT8", 0.05, 1)
        n.op("QUANTIZE", [self.cur], [q])
        y = n.conv(q, self.shape[3], 1, name="tail")
        d = n.desc([y] + self.outputs)
        d["c11_cases"] = self.cases
        return d

    # ---- one builtin operator with the given option values ------------------------------------------------------
    def builtin(self, opn, values, covered):
        """values: {Member: python value or None (= not stored)}"""
        n, C = self.n, self.shape[3]
        self.k += 1
        nm = "o%d_%s" % (self.k, opn.lower())
        table, nin, nout = OPS[opn]
        opts = {k: v for k, v in values.items() if v is not None}
        for mem, *_ in schema_members()[table]:
            if mem.startswith("Stride") and mem not in opts:
                opts[mem] = 1
        if opn in SHAPED:
            ins, oshape, base = self._shaped(opn, nm)
            opts = dict(base, **opts)
        else:
            ins = [self.cur] + [self.fconst("%s_k%d" % (nm, j), [C]) for j in range(nin - 1)]
            oshape = self.shape
        outs = [self.ftensor(nm if j == 0 else "%s_out%d" % (nm, j), oshape) for j in range(nout)]
        n.op(opn, ins, outs, [table, opts])
        if oshape == self.shape:
            self.cur = outs[0]
        else:                        # bring the chain back to the island's shape with a CPU operator of its own
            back = self.ftensor(nm + "_back")
            n.op("CUSTOM", [outs[0]], [back], custom_code="Reshape2", custom_options=[self.k])
            self.cur = back
        self.cases += [[ck, "%s.%s=%r via %s" % (table, mem, values[mem], opn)] for ck, mem in covered]

    def _shaped(self, opn, nm):
        n, (N, H, W, C) = self.n, self.shape
        if opn == "CONV_2D":
            return ([self.cur, self.fconst(nm + "_w", [C, 3, 3, C]), self.fconst(nm + "_b", [C])], self.shape,
                    {"StrideW": 1, "StrideH": 1})
        if opn == "DEPTHWISE_CONV_2D":
            return ([self.cur, self.fconst(nm + "_w", [1, 3, 3, C]), self.fconst(nm + "_b", [C])], self.shape,
                    {"StrideW": 1, "StrideH": 1, "DepthMultiplier": 1})
        if opn == "FULLY_CONNECTED":
            return ([self.cur, self.fconst(nm + "_w", [C, C]), self.fconst(nm + "_b", [C])], [N * H * W, C], {})
        if opn == "TRANSPOSE_CONV":
            osz = n.const(nm + "_oshape", [4], "INT32", data=[N, H, W, C])
            return ([osz, self.fconst(nm + "_w", [C, 3, 3, C]), self.cur, self.fconst(nm + "_b", [C])], self.shape,
                    {"StrideW": 1, "StrideH": 1})
        return [self.cur], self.shape, {"StrideW": 1, "StrideH": 1, "FilterWidth": 2, "FilterHeight": 2}

    # ---- operand case: omitted operands at the positions of the case ----------------------------------------------
    def operands(self, slots, key, flavour):
        """flavour 0: third-party custom operator; 1: builtin operator with optional operands (SVDF / LSTM / RNN ...)"""
        n, C = self.n, self.shape[3]
        self.k += 1
        opn = OPERAND_FLAVOURS[flavour]
        nm = "p%d_%s" % (self.k, opn.lower())
        ins, first = [], True
        for j, s in enumerate(slots):
            if s == "-":
                ins.append(-1)
            elif first:
                ins.append(self.cur)
                first = False
            else:
                ins.append(self.fconst("%s_k%d" % (nm, j), [C]))
        y = self.ftensor(nm)
        if opn == "CUSTOM":
            n.op("CUSTOM", ins, [y], custom_code="OptionalInputs", custom_options=[len(slots), self.k])
        else:
            n.op(opn, ins, [y], [OPS[opn][0], {}])
        self.cur = y
        self.cases.append([key, "%s %s" % (opn, "".join(slots))])

    # ---- output case ---------------------------------------------------------------------------------------------------
    def outputs_case(self, uses, key, flavour):
        n = self.n
        self.k += 1
        opn = OUTPUT_FLAVOURS[flavour]
        nm = "q%d_%s" % (self.k, opn.lower())
        outs = [self.ftensor("%s_y%d" % (nm, j)) for j in range(len(uses))]
        ins = [self.cur]
        if opn == "CUSTOM":
            n.op("CUSTOM", ins, outs, custom_code="ManyOutputs", custom_options=[len(uses), self.k])
        else:
            if opn in ("TOPK_V2", "SPLIT"):
                kk = n.const(nm + "_k", [], "INT32", data=[1])
                ins = [self.cur, kk] if opn == "TOPK_V2" else [kk, self.cur]
            table = {"TOPK_V2": "TopKV2Options", "UNIQUE": "UniqueOptions", "SPLIT": "SplitOptions"}[opn]
            n.op(opn, ins, outs, [table, {"NumSplits": len(uses)} if opn == "SPLIT" else {}])
        nxt = [o for o, u in zip(outs, uses) if "next" in u]
        self.outputs += [o for o, u in zip(outs, uses) if "net" in u]
        # the chain goes on from the outputs the next operator uses (all of them), or straight from the operator's input
        if nxt:
            y = self.ftensor(nm + "_join")
            n.op("CUSTOM", [self.cur] + nxt, [y], custom_code="Join", custom_options=[self.k])
            self.cur = y
        self.cases.append([key, "%s outputs %s" % (opn, [sorted(u) for u in uses])])


# --------------------------------------------------------------------------------------------------------------------
# int8 network with every tensor role
# --------------------------------------------------------------------------------------------------------------------
# Weight cases the UNCHANGED tree breaks (genuine finding of this check, reported to the lead; reproduction:
# harness/repro/c11_force_symmetric_peraxis.py): with --force-symmetric-int-weights the PER-AXIS zero points of the weights of
# a convolution that stays on the CPU for another reason are written as zeros (QuantizationParameters.clone() shares the
# zero point array with the source tensor; Fields.tla policy CloneQuant = "shallow").  Delete the entry to generate them.
WEIGHT_CASES_OFF = {}      # (per-axis zero points zeroed in the source tensor: repaired in /repo, finding T1)


ROLES = ("graph_in", "npu_to_cpu", "npu_to_net", "cpu_to_npu", "cpu_to_net", "cpu_to_cpu", "const", "state")
# the tensors of tensor_net(): (slot, role, next to an NPU operator)
SLOTS = (("in0", "graph_in", True), ("in1", "graph_in", False), ("head", "npu_to_cpu", True), ("side", "npu_to_net", True),
         ("mix_k", "const", False), ("mix_state", "state", False), ("mix_inter", "state", False),
         ("mix", "cpu_to_cpu", False), ("mix_aux", "cpu_to_net", False), ("folded", "cpu_to_npu", True),
         ("tail", "npu_to_net", True))
FREE_SLOTS = tuple(sl for sl, _, npu in SLOTS if not npu)
NPU_SLOTS = tuple(sl for sl, _, npu in SLOTS if npu)


def tensor_net(sd, rng, assignment, keyof, extras=()):
    """assignment: {slot: (set of members of the quantisation table, "int" / "float")}.  One network in which every role
    exists:

        in0 -> conv "head"(NPU) -> h0 -> CUSTOM "mix"(CPU; h0, in1, mix_k, mix_state | intermediate mix_inter) -> m1
        m1 -> CUSTOM "fold"(CPU) -> q -> conv "tail"(NPU) -> out (network output)
        in0 -> maxpool "side"(NPU) -> p0 (network output);    "mix" second output e1 (network output)

    members: "scale", "zp", "min", "max" = that vector is stored; "qdim" = a non-zero quantised dimension is stored;
    "peraxis" = the scale / zero point vectors that are stored have one entry per channel (along the stored quantised
    dimension when the case also has "qdim", else along axis 0).  A tensor next to an NPU operator always has scale and
    zero point; the others carry exactly the members of their case (no table at all for the empty set).  Tensors only
    CPU operators touch have a first dimension > 1 so that both axes exist."""
    n = netgen.Net(sd)
    C = 8
    shape = [1, 6, 6, C]
    role_of = {sl: r for sl, r, _ in SLOTS}
    cases = []

    def dress(t, slot, npu=False):
        role = role_of[slot]
        has, dt = assignment[slot]
        has = set(has)
        if npu:
            has.discard("peraxis")
            has |= {"scale", "zp"}
            dt = "int"
        tt = n.t[t]
        cases.append([keyof(role, has, dt), "%s: %s (%s) carries %s" % (role, tt["name"], dt, sorted(has) or "no table")])
        if "shape_signature" in extras and role in ("graph_in", "npu_to_net", "cpu_to_net"):
            tt["shape_signature"] = [-1] + list(tt["shape"][1:])
        if "has_rank" in extras and role in ("graph_in", "cpu_to_net", "cpu_to_cpu"):
            tt["has_rank"] = True
        if dt == "float":
            tt["type"] = "FLOAT32"
            if "data" in tt:
                tt["data"] = {"iota": 1, "mod": 7}
        sc, z = tt["scale"][0], tt["zp"][0]
        axis = 0
        if "qdim" in has:
            axis = len(tt["shape"]) - 1
            tt["qdim"] = axis
        k = tt["shape"][axis] if "peraxis" in has else 1
        tt["scale"] = [sc * (1 + 0.125 * (i % 3)) for i in range(k)]
        tt["zp"] = [z] * k
        lo, hi = (-32768, 32767) if tt["type"] == "INT16" else (-128, 127)
        tt["min"] = [float(s_ * (lo - z)) for s_ in tt["scale"]]
        tt["max"] = [float(s_ * (hi - z)) for s_ in tt["scale"]]
        if not npu:
            tt["qpresent"] = sorted(has & {"scale", "zp", "min", "max", "qdim"})
        for m in ("scale", "zp", "min", "max"):
            if m not in has:
                if npu or m in ("min", "max"):
                    tt.pop(m, None)
                else:
                    tt[m] = None        # the other builders read these keys
        if not has:
            tt.pop("qpresent", None)
        return t

    in0 = dress(n.fm("in0", shape, scale=0.05, zp=rng.choice([0, 2, -3]), is_input=True), "in0", npu=True)
    in1 = dress(n.fm("in1", [2, 3, C], scale=0.04, zp=1, is_input=True), "in1")
    h0 = dress(n.conv(in0, C, 1, name="head"), "head", npu=True)
    p0 = dress(n.pool(in0, "MAX_POOL_2D", k=3, stride=1, name="side"), "side", npu=True)
    k1 = dress(n.const("mix_k", [2, C], "INT8", -100, 100, scale=[0.02], zp=[0]), "mix_k")
    s1 = dress(n.fm("mix_state", [2, C], "INT8", 0.03, 0), "mix_state")
    n.t[s1]["is_variable"] = True
    i1 = dress(n.fm("mix_inter", [2, C], "INT16", 0.001, 0), "mix_inter")
    m1 = dress(n.fm("mix", [2, 3, 6, C], "INT8", 0.06, -1), "mix")
    e1 = dress(n.fm("mix_aux", [2, 6, C], "INT8", 0.07, 3), "mix_aux")
    mix_in = [h0, in1, k1, s1]
    if "dup_operands" in extras:          # the same tensors once more, further back in the operand vector
        mix_in += [h0, k1]
    if "shared_buffer" in extras:         # a second constant that shares the buffer of the first
        n.t.append({"name": "mix_k_alias", "shape": [2, C], "type": n.t[k1]["type"], "scale": [0.5], "zp": [0],
                    "buffer_of": k1})
        mix_in.append(len(n.t) - 1)
    n.op("CUSTOM", mix_in, [m1, e1], custom_code="Mix", custom_options=[4, 2], intermediates=[i1])
    q = dress(n.fm("folded", shape, "INT8", 0.06, -1), "folded", npu=True)
    n.op("CUSTOM", [m1], [q], custom_code="Fold", custom_options=[1])
    out = dress(n.conv(q, C, 1, name="tail"), "tail", npu=True)
    outs = [out, p0, e1]
    rng.shuffle(outs)
    d = n.desc(outs)
    d["c11_cases"] = cases
    return d


# --------------------------------------------------------------------------------------------------------------------
# weight cases: convolutions that stay on the CPU, compiled with an option that touches tensors
# --------------------------------------------------------------------------------------------------------------------
OPT_ARGS = {"none": {}, "force_symmetric": {"extra": ["--force-symmetric-int-weights"]}, "optimise_size": {"optimise": "Size"},
            "cpu_align": {"align": 64}}


def weight_net(sd, rng, opt, act, cases):
    """in0 -> conv "head"(NPU) -> one CONV_2D / DEPTHWISE_CONV_2D per case (each kept on the CPU for the reason of its
    case) -> conv "tail"(NPU).  Returns the description; "c11_cases" = [[key, what, name of the operator's output]]."""
    n = netgen.Net(sd)
    C = 8
    dt = "INT16" if act == "int16" else "INT8"
    x = n.fm("in0", [1, 16, 16, C], dt, 0.05, 0 if dt == "INT16" else rng.choice([0, 2, -3]), is_input=True)
    cur = n.conv2(x, C, 1, 1, name="head")
    planned = []
    strided = False
    for j, c in enumerate(cases):
        nm = "w%d_%s" % (j, c["why"])
        dw = (j + sd) % 3 == 1
        kw = {}
        if c["why"] == "other":         # a reason of its own to stay off the NPU: stride 4, or a dilated kernel taller than 64
            if not strided and (j + sd) % 2 == 0:
                kw, strided = {"sh": 4, "sw": 4}, True
            else:
                kw = {"dh": 40}
        if dw:
            cur = n.dwconv2(cur, 3, 3, name=nm, **kw)
        else:
            cur = n.conv2(cur, C, 3, 3, name=nm, per_channel=(c["per"] == "axis"), **kw)
        wt = n.t[n.o[-1]["inputs"][1]]
        k = len(wt["scale"]) if c["per"] == "axis" else 1
        if dw and c["per"] == "tensor":
            wt.pop("qdim", None)
        wt["scale"] = [0.01 + 0.001 * (i % 7) for i in range(k)]
        wt["zp"] = [0] * k if c["zp"] == "zero" else [5 - (i % 3) * 4 for i in range(k)]      # 5, 1, -3, 5 ...
        planned.append([case_key(c), "%s weights zp %s, %s" % ("DEPTHWISE_CONV_2D" if dw else "CONV_2D", wt["zp"][:3], kw or "3x3"),
                        nm])
    y = n.conv2(cur, C, 1, 1, name="tail")
    d = n.desc([y])
    d["c11_cases"] = planned
    return d


def parse_dump(text):
    """states of a TLC -dump file -> [{var: value}]"""
    from . import tlc
    out = []
    for block in re.split(r"^State \d+:\s*$", text, flags=re.M)[1:]:
        st = {}
        for m in re.finditer(r"^/\\ (\w+) = (.*?)(?=^/\\ \w+ = |\Z)", block.strip(), flags=re.M | re.S):
            st[m.group(1)] = tlc.parse_value(m.group(2).strip())
        out.append(st)
    return out


# --------------------------------------------------------------------------------------------------------------------
# the plan: lattice -> networks
# --------------------------------------------------------------------------------------------------------------------
_VAL_ORDER = {"absent": 0, "z": 1, "a": 2, "b": 3}


def plan(cases, tier, sd, rng):
    """cases: the initial states of Fields.tla.  Returns network descriptions (each with "c11_cases") and the list
    of case keys that have no concrete instance at all."""
    quick = tier == "quick"
    members = schema_members()
    nets = []
    uninst = []
    # ---- option cases: (table, member) -> [(case key, value)] ordered by abstract value
    alts = {}
    for c in sorted((c for c in cases if c["sort"] == "option"), key=lambda c: (c["kind"], c["dflt"], _VAL_ORDER[c["val"]])):
        b = option_bindings(c)
        if not b:
            uninst.append(case_key(c))
        for table, mem, value in b:
            alts.setdefault((table, mem), []).append((case_key(c), value))
    by_table = {}
    for opn, (table, _, _) in sorted(OPS.items()):
        by_table.setdefault(table, []).append(opn)
    instances = []          # (operator, {member: value}, [(case key, member)])
    for ti, (table, opns) in enumerate(sorted(by_table.items())):
        mems = [m for m in members[table] if (table, m[0]) in alts]
        if not mems:
            continue
        nonzero_default = any(kind in ("bool", "int") and dflt for _, kind, dflt, _ in mems)
        if quick:
            ops_here = [o for o in opns if o in SHAPED] or [opns[(sd + ti) % len(opns)]]
            rounds = [0, 1, 2] if nonzero_default or ops_here[0] in SHAPED else ([(sd + ti) % 3] if ti % 3 == sd % 3 else [])
        else:
            ops_here, rounds = opns, [0, 1, 2]
        # one instance with every member away from its schema default: a member the (de)serialiser forgets shows
        dflts = {m[0]: (m[2] if m[1] in ("bool", "int", "float") else None) for m in mems}
        values, covered = {}, []
        for mem, kind, dflt, elem in mems:
            a = alts[(table, mem)]
            nd = [(k_, v_) for k_, v_ in a if v_ is not None and v_ != dflts[mem] and v_ not in ([], "", {"f32": []})] or a
            key, value = nd[(sd + ti) % len(nd)]
            values[mem] = value
            covered.append((key, mem))
        instances.append((ops_here[0], values, covered))
        for oi, opn in enumerate(ops_here):
            for r in rounds:
                values, covered = {}, []
                for mi, (mem, kind, dflt, elem) in enumerate(mems):
                    a = alts[(table, mem)]
                    key, value = a[(r + mi + oi + sd) % len(a)] if not nonzero_default else a[(r + mi) % len(a)]
                    values[mem] = value
                    covered.append((key, mem))
                instances.append((opn, values, covered))
    # every abstract option case that has a binding is carried by at least one operator
    have = {key for _, _, cov in instances for key, _ in cov}
    for (table, mem), a in sorted(alts.items()):
        for key, value in a:
            if key not in have and table in by_table:
                have.add(key)
                instances.append((by_table[table][sd % len(by_table[table])], {mem: value}, [(key, mem)]))
    rng.shuffle(instances)
    per = 6
    shaped = [i for i in instances if i[0] in SHAPED]
    plain = [i for i in instances if i[0] not in SHAPED]
    for group, size in ((plain, per), (shaped, 3)):
        for k in range(0, len(group), size):
            isl = Island(sd * 1000 + len(nets), rng)
            for opn, values, covered in group[k:k + size]:
                isl.builtin(opn, values, covered)
            nets.append(isl.finish())
    # ---- operand cases
    ocs = [c for c in cases if c["sort"] == "operand"]
    items = []
    for ci, c in enumerate(ocs):
        flav = [(sd + ci) % len(OPERAND_FLAVOURS), 0] if quick else range(len(OPERAND_FLAVOURS))
        for f in sorted(set(flav)):
            items.append((c, f))
    rng.shuffle(items)
    for k in range(0, len(items), per):
        isl = Island(sd * 1000 + len(nets), rng)
        for c, f in items[k:k + per]:
            isl.operands(list(c["slots"]), case_key(c), f)
        nets.append(isl.finish())
    # ---- output cases
    ucs = [c for c in cases if c["sort"] == "output"]
    items = []
    for ci, c in enumerate(ucs):
        flav = [(sd + ci) % len(OUTPUT_FLAVOURS)] if quick else range(len(OUTPUT_FLAVOURS))
        for f in flav:
            items.append((c, f))
    rng.shuffle(items)
    for k in range(0, len(items), 4):
        isl = Island(sd * 1000 + len(nets), rng)
        for c, f in items[k:k + 4]:
            isl.outputs_case([set(u) for u in c["uses"]], case_key(c), f)
        nets.append(isl.finish())
    # ---- tensor cases: every slot of tensor_net() sees every member subset of its role once (thorough); a third of the
    # networks, chosen by the seed, in the quick tier
    tcs = [c for c in cases if c["sort"] == "tensor"]
    valid = {(c["role"], tuple(sorted(c["has"])), c["dt"]) for c in tcs}
    npu_roles = {r for _, r, npu in SLOTS if npu and r != "graph_in"}
    free = sorted({(tuple(sorted(c["has"])), c["dt"]) for c in tcs if c["role"] not in npu_roles})
    if NOSCALE_TABLES_OFF:
        free = [f for f in free if not noscale(f[0])]
    npu_sub = sorted({tuple(sorted(c["has"])) for c in tcs if c["role"] in npu_roles})
    if len(free) < 40 or len(npu_sub) < 8:
        raise MachineryError("implausible tensor lattice: %d / %d member subsets" % (len(free), len(npu_sub)))

    def keyof(role, has, dt):
        if (role, tuple(sorted(has)), dt) not in valid:
            raise MachineryError("tensor case (%s, %s, %s) is not in the lattice" % (role, sorted(has), dt))
        return tensor_key(role, has, dt)
    on = [c for c in TENSOR_CLASSES if c not in TENSOR_CLASSES_OFF]
    order = list(range(len(free)))
    random_order = __import__("random").Random(sd * 31 + 7)
    random_order.shuffle(order)
    for k in range(len(free)):
        if quick and k % 3 != sd % 3:
            continue
        assignment = {}
        for j, sl in enumerate(FREE_SLOTS):
            assignment[sl] = free[order[(k + 5 * j) % len(free)]]
        for j, sl in enumerate(NPU_SLOTS):
            assignment[sl] = (npu_sub[(k + 3 * j + sd) % len(npu_sub)], "int")
        extras = (["dup_operands"] if k % 2 else []) + (["shared_buffer"] if k % 4 == 1 else [])
        extras += [c for c in on if c != "float_minmax_only"] if k % 8 == sd % 8 else []
        nets.append(tensor_net(sd * 1000 + len(nets), rng, assignment, keyof, extras))
    # ---- weight cases: one network per (option, activation type), one convolution per case
    wcs = [c for c in cases if c["sort"] == "weight"]
    groups = {}
    for c in sorted(wcs, key=case_key):
        if (c["opt"], c["zp"], c["per"]) in WEIGHT_CASES_OFF:
            continue
        groups.setdefault((c["opt"], c["act"]), []).append(c)
    for (opt, act), cs in sorted(groups.items()):
        rng.shuffle(cs)
        d = weight_net(sd * 1000 + len(nets), rng, opt, act, cs)
        d["c11_opts"] = OPT_ARGS[opt]
        nets.append(d)
    if "float_minmax_only" in on:
        isl = Island(sd * 1000 + len(nets), rng)
        isl.builtin("GELU", {"Approximate": True}, [])
        d = isl.finish()
        for t in d["tensors"]:
            if t["type"] == "FLOAT32" and "data" not in t:
                t["min"], t["max"] = [-1.0], [1.0]
        nets.append(d)
    return nets, uninst


def dress_minmax(net, rng, p=0.6):
    """A copy of a network description in which a random subset of the per-tensor quantised, non-constant tensors also
    stores min / max (what TOCO-era converters and quantisation-aware training flows emit)."""
    import copy
    net = copy.deepcopy(net)
    for t in net["tensors"]:
        if t.get("scale") is not None and "data" not in t and len(t["scale"]) == 1 and t.get("min") is None \
                and rng.random() < p:
            z, sc = t["zp"][0], t["scale"][0]
            lo, hi = {"INT8": (-128, 127), "UINT8": (0, 255), "INT16": (-32768, 32767)}.get(t["type"], (-128, 127))
            t["min"], t["max"] = [float(sc * (lo - z))], [float(sc * (hi - z))]
    return net
