"""Spec-growth component "LiveRange": the link between the scheduler and the tensor allocators
(ethosu/vela/live_range.py as used by tensor_allocation.allocate_tensors).

Design level : spec/LiveRange.tla (+ LiveRange_*.cfg), `mc(tier)`.
C2S binding  : `install()` wraps tensor_allocation.allocate_tensors at run time (nothing in /repo is touched); inside the
               compiling child `extractor(nng, arch, res)` returns, per arena allocation pass,
                 (a) the live ranges the allocator received (start, end, size, tensors) and the addresses finally assigned,
                 (b) an independent account of *use*: the root subgraph's passes and the NPU subgraphs' high-level
                     command streams walked into one global step order; use interval of a buffer = first..last step
                     that touches it (network inputs from step 0, network outputs and variables to the last step),
               and `validate(records)` has spec/LiveRangeTrace.tla decide CoversUse and FuseSafe on all of them in one
               TLC run.

Soundness rule: a live range that is too short is not by itself a violation of a listed property.  Nothing here calls
run.violation; findings are returned as plain data: "latent" (range does not cover the use, but the bytes finally
assigned do not overlap) and "manifest" (the byte intervals [address, address + size) intersect, or two values share
one range and one is overwritten while the other still has a reader).
"""
import inspect

from . import tlc
from .common import MachineryError

_CAPTURED = []      # filled in the compiling child by the wrapper
_STATE = {}

ARENA_TYPES = ("Scratch", "Scratch_fast")


# ----------------------------------------------------------------------------------------------- run-time wrapper
def install():
    """call in the parent before vela_run.compile_many forks: the children inherit the wrapped function"""
    from . import codec
    from .common import ensure_repo_on_path
    ensure_repo_on_path()
    codec.inject()
    import ethosu.vela.vela  # noqa: F401  (import order: vela first)
    from ethosu.vela import tensor_allocation as ta
    if _STATE.get("installed"):
        return
    real = ta.allocate_tensors
    sig = inspect.signature(real)

    def allocate_tensors(*a, **k):
        got = []
        inner = ta.allocate

        def allocate(*aa, **kk):
            r = inner(*aa, **kk)
            got.append(r[0])
            return r

        ta.allocate = allocate
        try:
            ok = real(*a, **k)
        finally:
            ta.allocate = inner
        try:
            b = sig.bind(*a, **k)
            b.apply_defaults()
            p = b.arguments
            types = sorted(m.name for m in p["mem_type_set"])
            if ok and not p["dry_test"] and got and any(t in ARENA_TYPES for t in types):
                lrs = got[0]
                _CAPTURED.append({
                    "area": p["mem_area"].name, "types": types, "alloc": p["tensor_allocator"].name,
                    "root": p["sg"] is p["nng"].get_root_subgraph(),
                    "lrs": [{"lr": lr, "s": int(lr.start_time), "e": int(lr.end_time), "size": int(lr.size),
                             "tensors": list(lr.tensors), "addr0": lr.tensors[0].address if lr.tensors else None}
                            for lr in lrs.lrs],
                    "map": dict(lrs.ranges)})
        except Exception as ex:        # never disturb the compilation
            _CAPTURED.append({"error": repr(ex)})
        return ok

    ta.allocate_tensors = allocate_tensors
    _STATE.update(installed=True, real=real)


def uninstall():
    if _STATE.get("installed"):
        from ethosu.vela import tensor_allocation as ta
        ta.allocate_tensors = _STATE["real"]
        _STATE["installed"] = False


# ----------------------------------------------------------------------------------------------- use account
class _Walk:
    """global step order over the root subgraph's passes with the NPU subgraphs' command streams nested inside"""

    def __init__(self):
        self.steps = 0            # step 0: the network inputs are defined
        self.touch = {}           # tensor object id -> [tensor, lo, hi]
        self.reads = {}           # tensor object id -> {op id: last step}
        self.writes = {}          # tensor object id -> {op id: [first, last, kind]}
        self.opids = {}
        self.opnames = []
        self.unsupported = None
        self.cov = {"npu_commands": 0, "cpu_steps": 0, "prebuffered_dma": 0, "alternate_buffer_dma": 0, "async_touches": 0,
                    "cascaded_ops": 0, "cascades": 0, "memcpy_cmds": 0, "npu_subgraphs": 0}

    def opid(self, key, name):
        if key not in self.opids:
            self.opids[key] = len(self.opnames) + 1
            self.opnames.append(name)
        return self.opids[key]

    def t(self, tens, step, op=None, mode=None, kind="op"):
        if tens is None:
            return
        e = self.touch.setdefault(id(tens), [tens, step, step])
        e[1] = min(e[1], step)
        e[2] = max(e[2], step)
        if mode == "r":
            d = self.reads.setdefault(id(tens), {})
            d[op] = max(d.get(op, step), step)
        elif mode == "w":
            d = self.writes.setdefault(id(tens), {})
            w = d.setdefault(op, [step, step, kind])
            w[0] = min(w[0], step)
            w[1] = max(w[1], step)


def _walk(nng):
    from ethosu.vela.high_level_command_stream import DMA, NOP, NpuStripe
    from ethosu.vela.operation import NpuBlockType, Op
    from ethosu.vela.tensor import TensorPurpose
    w = _Walk()
    root = nng.get_root_subgraph()
    for tens in root.input_tensors:
        w.t(tens, 0, 0, "w", "input")
    for ci, cps in enumerate(root.cascaded_passes):
        op = cps.passes[0].ops[0] if cps.passes and cps.passes[0].ops else None
        sub = op.attrs.get("subgraph", None) if op is not None else None
        if sub is not None and op.type == Op.CustomNpuOp:
            prev_fm_step = None         # step of the latest stripe / feature-map DMA of this stream
            w.cov["npu_subgraphs"] += 1
            sched = getattr(sub, "schedule", None)
            if sched is not None:
                w.cov["cascades"] += len(sched.cascades)
                w.cov["cascaded_ops"] += sum(1 for c in sched.cost_map.values() if c.cascade != 0)
            prev_stripe = {}            # ps -> latest NpuStripe of that pass
            ndma = {}                   # ps -> weight DMAs seen
            for cmd in (sub.high_level_command_stream or []):
                w.steps += 1
                s = w.steps
                w.cov["npu_commands"] += 1
                oid = w.opid(("ps", id(cmd.ps)), cmd.ps.name)
                if isinstance(cmd, NpuStripe):
                    kind = "elem" if cmd.ps.npu_block_type == NpuBlockType.ElementWise else "op"
                    w.t(cmd.ifm_tensor, s, oid, "r")
                    w.t(cmd.ifm2_tensor, s, oid, "r")
                    w.t(cmd.weight_tensor, s, oid, "r")
                    w.t(cmd.scale_tensor, s, oid, "r")
                    w.t(cmd.ofm_tensor, s, oid, "w", kind)
                    prev_fm_step = s
                    prev_stripe[cmd.ps] = cmd
                elif isinstance(cmd, (DMA, NOP)):
                    is_w = isinstance(cmd, DMA) and cmd.out_tensor.purpose == TensorPurpose.Weights
                    if is_w:
                        k = ndma.get(cmd.ps, 0)
                        ndma[cmd.ps] = k + 1
                        if k == 0:
                            asyn = bool(getattr(cmd.out_tensor, "pre_buffer", False))
                        else:       # the other buffer of a double buffer: filled while the previous slice is computed
                            p = prev_stripe.get(cmd.ps)
                            asyn = p is not None and p.weight_tensor is not cmd.out_tensor
                        w.t(cmd.in_tensor, s, oid, "r")
                        w.t(cmd.out_tensor, s, oid, "w", "wdma")
                        w.cov["prebuffered_dma" if k == 0 else "alternate_buffer_dma"] += 1 if asyn else 0
                        if asyn and prev_fm_step is not None:
                            w.t(cmd.out_tensor, prev_fm_step)
                            w.cov["async_touches"] += 1
                    else:
                        is_memcpy = cmd.ps.primary_op is not None and cmd.ps.primary_op.type == Op.Memcpy
                        w.t(cmd.in_tensor, s, oid, "r")
                        w.t(cmd.out_tensor, s, oid, "w", "memcpy" if is_memcpy else "dma")
                        if is_memcpy:
                            prev_fm_step = s
                            w.cov["memcpy_cmds"] += 1
                else:
                    w.unsupported = "command %s" % type(cmd).__name__
        elif sub is not None:
            w.unsupported = "control-flow operator %s" % op.type
        else:
            w.steps += 1
            w.cov["cpu_steps"] += 1
            oid = w.opid(("cps", ci), cps.name)
            for tens in cps.inputs:
                w.t(tens, w.steps, oid, "r")
            for tens in cps.intermediates:
                w.t(tens, w.steps)
            for tens in cps.outputs:
                w.t(tens, w.steps, oid, "w", "cpu")
    w.steps += 1
    for tens in root.output_tensors:      # the application reads the results
        w.t(tens, w.steps, -1, "r")
    return w, root


def extractor(nng, arch, res):
    """-> {"passes": [...], "skipped": reason | None}; JSON-able, all numbers < 2^31"""
    from ethosu.vela.tensor import TensorPurpose
    caps = [c for c in _CAPTURED if "error" not in c]
    errs = [c["error"] for c in _CAPTURED if "error" in c]
    if nng is None:
        return {"passes": [], "skipped": "no graph", "errors": errs}
    w, root = _walk(nng)
    if w.unsupported:
        return {"passes": [], "skipped": w.unsupported, "errors": errs}
    last = w.steps
    outs = {t.equivalence_id for t in root.output_tensors}
    passes = []
    for cap in caps:
        if not cap["root"]:
            continue
        area, types = cap["area"], set(cap["types"])

        def mine(t):
            return (t.mem_area.name == area and t.mem_type.name in types
                    and t.purpose not in (TensorPurpose.Scratch, TensorPurpose.ScratchFast, TensorPurpose.Virtual))
        # buffers = equivalence classes of the touched tensors that live in this memory
        bufs, order = {}, []
        for tid, (tens, lo, hi) in w.touch.items():
            if not mine(tens):
                continue
            key = tens.equivalence_id
            b = bufs.get(key)
            if b is None:
                b = bufs[key] = {"id": len(order), "name": tens.name, "lo": lo, "hi": hi, "tens": [], "readers": {},
                                 "writers": {}, "isout": key in outs or bool(tens.is_variable), "var": False}
                order.append(key)
            b["lo"], b["hi"] = min(b["lo"], lo), max(b["hi"], hi)
            b["tens"].append(tens)
            if tens.is_variable:
                b["var"] = True
            for op, st in w.reads.get(tid, {}).items():
                b["readers"][op] = max(b["readers"].get(op, st), st)
            for op, (f, l, kind) in w.writes.get(tid, {}).items():
                x = b["writers"].setdefault(op, [f, l, kind])
                x[0], x[1] = min(x[0], f), max(x[1], l)
        for b in bufs.values():
            if b["var"]:
                b["lo"], b["hi"] = 0, last
            if b["isout"]:
                b["hi"] = last
        # the ranges the allocator received
        eq2rg = {}
        ranges = []
        for ri, r in enumerate(cap["lrs"]):
            keys = []
            for t in r["tensors"]:
                if t.equivalence_id not in keys:
                    keys.append(t.equivalence_id)
            addr = r["tensors"][0].address if r["tensors"] else None
            if addr is None:
                addr = r["addr0"]
            ranges.append({"s": r["s"], "e": r["e"], "size": r["size"], "addr": -1 if addr is None else int(addr),
                           "names": [t.name for t in r["tensors"]][:6], "keys": keys})
            for k in keys:
                eq2rg.setdefault(k, ri)
        for t, lr in cap["map"].items():          # tensor -> range as get_or_create_range resolves it (by equivalence)
            for ri, r in enumerate(cap["lrs"]):
                if r["lr"] is lr:
                    eq2rg.setdefault(t.equivalence_id, ri)
                    break
        blist = []
        for key in order:
            b = bufs[key]
            ri = eq2rg.get(key, -1)
            t0 = b["tens"][0]
            addr = t0.address
            blist.append({"id": b["id"], "name": b["name"], "lo": b["lo"], "hi": b["hi"], "rg": ri,
                          "addr": -1 if addr is None else int(addr),
                          "size": int(ranges[ri]["size"]) if ri >= 0 else int(t0.storage_size()),
                          "s": ranges[ri]["s"] if ri >= 0 else 0, "e": ranges[ri]["e"] if ri >= 0 else -1})
        # values that share one range: who overwrites whom
        fused = []
        for ri, r in enumerate(ranges):
            grp = [bufs[k] for k in r["keys"] if k in bufs]
            if len(r["keys"]) < 2 or len(grp) < 2:
                continue
            for wb_ in grp:
                for op, (f, l, kind) in wb_["writers"].items():
                    if kind in ("input",):
                        continue
                    victims = []
                    src = None
                    for v in grp:
                        if v is wb_:
                            continue
                        vdef = min([x[0] for x in v["writers"].values()] or [0])
                        if vdef < f:
                            victims.append({"buf": v["id"], "isout": bool(v["isout"]),
                                            "readers": [{"op": o, "last": st} for o, st in sorted(v["readers"].items())]})
                        if op in v["readers"]:
                            src = v
                    if not victims:
                        continue
                    t_o = wb_["tens"][0]
                    t_i = src["tens"][0] if src is not None else None
                    fused.append({"op": op, "opname": w.opnames[op - 1] if op > 0 else "?", "kind": kind, "w": wb_["id"],
                                  "first": f, "src": src["id"] if src is not None else -1,
                                  "isize": int(t_i.storage_size()) if t_i is not None else -1,
                                  "osize": int(t_o.storage_size()),
                                  "idt": str(t_i.dtype) if t_i is not None else "?", "odt": str(t_o.dtype),
                                  "victims": victims})
        for r in ranges:
            r["keys"] = len(r["keys"])
        passes.append({"area": area, "types": sorted(types), "alloc": cap["alloc"], "steps": last, "bufs": blist,
                       "nranges": len(ranges), "ranges": ranges if len(ranges) <= 64 else ranges[:64], "fused": fused})
    return {"passes": passes, "skipped": None, "errors": errs, "cov": w.cov}


extractor.on_failure = False


# ----------------------------------------------------------------------------------------------- verdicts
def events_of(records):
    """records: list of extractor results (None allowed) in job order -> (events, index: t -> (job index, pass index))"""
    events, index = [], {}
    for ji, rec in enumerate(records):
        for pi, p in enumerate((rec or {}).get("passes") or []):
            t = len(events) + 1
            index[t] = (ji, pi)
            events.append({"t": t, "bufs": [{k: b[k] for k in ("id", "lo", "hi", "rg", "addr", "size", "s", "e")} for b in p["bufs"]],
                           "fused": [{"op": f["op"], "kind": f["kind"], "w": f["w"], "first": f["first"], "isize": f["isize"],
                                      "osize": f["osize"], "idt": f["idt"], "odt": f["odt"], "victims": f["victims"]}
                                     for f in p["fused"]]})
    return events, index


def validate(records, timeout=1800):
    """-> (tlc_result | None, findings, counters).  findings: list of
    {"kind": "latent" | "manifest", "prop": "CoversUse" | "FuseSafe" | "Unranged", "job": index into records, "pass": i, "detail": {...}}"""
    events, index = events_of(records)
    cnt = {"records": sum(1 for r in records if r), "skipped": sum(1 for r in records if r and r.get("skipped")),
           "wrapper_errors": sum(len((r or {}).get("errors") or []) for r in records),
           "passes": len(events), "buffers": sum(len(e["bufs"]) for e in events),
           "ranges": sum(p["nranges"] for r in records for p in ((r or {}).get("passes") or [])),
           "pairs_in_use_together": 0, "fused_writes": sum(len(e["fused"]) for e in events),
           "latent": 0, "manifest": 0}
    for r in records:
        for k, v in ((r or {}).get("cov") or {}).items():
            cnt[k] = cnt.get(k, 0) + v
    cnt["shared_bytes_disjoint_use"] = 0      # pairs that the allocator really overlapped in memory (the ranges mattered)
    for e in events:
        bs = e["bufs"]
        for i in range(len(bs)):
            for j in range(i + 1, len(bs)):
                if bs[i]["rg"] == bs[j]["rg"]:
                    continue
                if max(bs[i]["lo"], bs[j]["lo"]) <= min(bs[i]["hi"], bs[j]["hi"]):
                    cnt["pairs_in_use_together"] += 1
                elif min(bs[i]["addr"], bs[j]["addr"]) >= 0 and max(bs[i]["addr"], bs[j]["addr"]) < min(
                        bs[i]["addr"] + bs[i]["size"], bs[j]["addr"] + bs[j]["size"]):
                    cnt["shared_bytes_disjoint_use"] += 1
    if not events:
        return None, [], cnt
    res, viol = tlc.validate_traces("LiveRangeTrace", "LiveRangeTrace.cfg", events, timeout=timeout)
    findings = []
    for v in viol:
        ji, pi = index[v[0]]
        p = records[ji]["passes"][pi]
        name = {b["id"]: b["name"] for b in p["bufs"]}
        if v[1] == "CoversUse":
            a, b = p["bufs"][v[2]], p["bufs"][v[3]]
            kind = "manifest" if v[4] else "latent"
            detail = {"a": a, "b": b}
        elif v[1] == "Unranged":
            kind, detail = "latent", {"buf": p["bufs"][v[2]]}
        else:
            f = p["fused"][v[2]]
            kind = "manifest"
            detail = {"op": f["opname"], "kind": f["kind"], "overwrites": name.get(f["w"]), "clause": v[3],
                      "victims": [name.get(x["buf"]) for x in f["victims"]], "fused": f}
        cnt[kind] += 1
        findings.append({"kind": kind, "prop": v[1], "job": ji, "pass": pi, "area": p["area"], "alloc": p["alloc"], "detail": detail})
    return res, findings, cnt


# ----------------------------------------------------------------------------------------------- design level
MC = {"quick": [("LiveRange_Quick.cfg", "ok", None)],
      "thorough": [("LiveRange_Quick.cfg", "ok", None), ("LiveRange_MC.cfg", "ok", None)]}
NEGATIVE = [("LiveRange_NoPre.cfg", "invariant", "CoversUse"), ("LiveRange_ShortenLast.cfg", "invariant", "CoversUse"),
            ("LiveRange_OwnTime.cfg", "invariant", "CoversUse"), ("LiveRange_OutNotExt.cfg", "invariant", "CoversUse"), ("LiveRange_VarNotExt.cfg", "invariant", "CoversUse"),
            ("LiveRange_AsIs.cfg", "invariant", "FuseSafe")]
ACTIONS = ["CpuPass", "EnterNpu", "FuseInPlace", "NoFuse", "OwnTimeOp", "CascadeOp", "NoBuffer", "PlainBuffer",
           "PreBufferedBuffer", "SecondBuffer", "LeaveNpu", "Finish"]


def mc(tier="quick", timeout=3600):
    """design-level model checking + negative controls -> [(name, tlc_result)]; MachineryError when an expectation fails"""
    out = []
    for cfg, want, inv in MC["thorough" if tier == "thorough" else "quick"] + NEGATIVE:
        res = tlc.run("LiveRange", cfg, workers=16, timeout=timeout, coverage=(want == "ok"))
        if res["status"] != want or (inv and res.get("violated") != inv):
            raise MachineryError("LiveRange %s: expected %s %s, got %s %s\n%s" % (
                cfg, want, inv or "", res["status"], res.get("violated"), res["output"][-2000:]))
        if want == "ok":
            dead = [a for a in ACTIONS if not res["actions"].get("LiveRange." + a)]
            if dead:
                raise MachineryError("LiveRange %s: actions never fired: %s" % (cfg, dead))
        out.append(("LiveRange/" + cfg, res))
    return out


def negative_trace_control():
    """a corrupted record (a range cut short under overlapping bytes; an in-place write over a value that still has a
    reader) must be rejected by the trace specification"""
    ev = {"passes": [{"area": "Sram", "types": ["Scratch"], "alloc": "Greedy", "steps": 4, "nranges": 3,
                      "bufs": [{"id": 0, "name": "a", "lo": 0, "hi": 2, "rg": 0, "addr": 0, "size": 64, "s": 0, "e": 1},
                               {"id": 1, "name": "b", "lo": 2, "hi": 4, "rg": 1, "addr": 32, "size": 64, "s": 2, "e": 5},
                               {"id": 2, "name": "c", "lo": 1, "hi": 3, "rg": 2, "addr": 128, "size": 16, "s": 2, "e": 3},
                               {"id": 3, "name": "d", "lo": 1, "hi": 1, "rg": -1, "addr": -1, "size": 16, "s": 0, "e": -1}],
                      "ranges": [], "fused": [{"op": 2, "opname": "x", "kind": "elem", "w": 1, "first": 2, "isize": 64, "osize": 64,
                                               "idt": "int8", "odt": "int8",
                                               "victims": [{"buf": 0, "isout": False, "readers": [{"op": 2, "last": 2}, {"op": 3, "last": 3}]}]}]}],
          "skipped": None, "errors": []}
    _, findings, _ = validate([ev])
    got = sorted((f["prop"], f["kind"]) for f in findings)
    want = [("CoversUse", "latent"), ("CoversUse", "manifest"), ("FuseSafe", "manifest"), ("Unranged", "latent")]
    if not all(x in got for x in want):
        raise MachineryError("LiveRangeTrace negative control: expected %s, got %s" % (want, got))
    return got
