"""./check --setup : offline sanity of the framework (syntax-check every TLA+ module)."""
import glob
import os
import sys
from concurrent.futures import ThreadPoolExecutor

from .common import SPEC
from . import tlc


def main():
    mods = sorted(glob.glob(os.path.join(SPEC, "*.tla")))
    # modules that EXTEND the Apalache operators are entry points of apalache-mc only (its standard modules are not on
    # SANY's path); they are type-checked by Apalache below
    apa = [m for m in mods if m.endswith("_Apa.tla")]
    mods = [m for m in mods if m not in apa]
    bad = 0
    for m in apa:
        import shutil
        import subprocess
        from .common import scratch
        d = scratch("apasetup")
        try:
            p = subprocess.run(["apalache-mc", "typecheck", "--out-dir=" + d, os.path.basename(m)], cwd=SPEC, capture_output=True,
                               text=True, timeout=600, env=dict(os.environ, TMPDIR=d))
            if p.returncode != 0:
                bad += 1
                print("APALACHE TYPECHECK FAILED", m)
                print((p.stdout + p.stderr)[-1500:])
        finally:
            shutil.rmtree(d, ignore_errors=True)
    with ThreadPoolExecutor(8) as ex:
        for path, (ok, out) in zip(mods, ex.map(tlc.sany, mods)):
            if not ok:
                bad += 1
                print("SANY FAILED", path)
                print(out[-1500:])
    print("setup: %d TLA+ modules parsed (%d by Apalache), %d failed" % (len(mods) + len(apa), len(apa), bad))
    return 0 if bad == 0 else 2
