"""./check --setup : offline sanity of the framework (syntax-check every TLA+ module)."""
import glob
import os
import sys
from concurrent.futures import ThreadPoolExecutor

from .common import SPEC
from . import tlc


def main():
    mods = sorted(glob.glob(os.path.join(SPEC, "*.tla")))
    bad = 0
    with ThreadPoolExecutor(8) as ex:
        for path, (ok, out) in zip(mods, ex.map(tlc.sany, mods)):
            if not ok:
                bad += 1
                print("SANY FAILED", path)
                print(out[-1500:])
    print("setup: %d TLA+ modules parsed, %d failed" % (len(mods), bad))
    return 0 if bad == 0 else 2
