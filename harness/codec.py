"""Build ethosu/mlw_codec/*.c of the working tree into a private shared object and make it
importable as ethosu.mlw_codec (the .so lying in /repo/ethosu is an ignored, possibly stale build
product).  The build is cached under /verif/.cache keyed by the hash of the C sources and flags."""
import hashlib
import importlib.machinery
import importlib.util
import os
import subprocess
import sys
import sysconfig
import threading
import uuid

from .common import REPO, VERIF, MachineryError

SRC = ["mlw_encode.c", "mlw_decode.c", "mlw_codecmodule.c"]
CACHE = os.path.join(VERIF, ".cache", "codec")
_LOCK = threading.Lock()


def _hash(flags):
    h = hashlib.sha256(" ".join(flags).encode())
    d = os.path.join(REPO, "ethosu", "mlw_codec")
    for fn in sorted(os.listdir(d)):
        if fn.endswith((".c", ".h")):
            with open(os.path.join(d, fn), "rb") as f:
                h.update(fn.encode() + b"\0" + f.read())
    return h.hexdigest()[:16]


def build(sanitize=False):
    """Returns the path of the built .so (builds it if the cache has no entry for these sources)."""
    import numpy as np
    cc = "clang" if sanitize else "gcc"
    # the plain build uses the flags setup.py's build_ext inherits from the interpreter (-DNDEBUG -O3: asserts are
    # compiled out in the shipped extension); the sanitizer build keeps the asserts
    flags = [cc, "-shared", "-fPIC"] + (["-O1"] if sanitize else ["-O3", "-DNDEBUG", "-fno-strict-overflow"]) + [
        "-g", "-DNPY_NO_DEPRECATED_API=NPY_1_9_API_VERSION",
             "-I" + sysconfig.get_paths()["include"], "-I" + np.get_include()]
    if sanitize:
        flags += ["-fsanitize=address,undefined", "-fno-sanitize-recover=all", "-fno-omit-frame-pointer",
                  "-shared-libsan"]
    key = _hash(flags)
    out = os.path.join(CACHE, key, "mlw_codec" + (".asan" if sanitize else "") + ".so")
    if os.path.exists(out):
        return out
    with _LOCK:
        if os.path.exists(out):
            return out
        os.makedirs(os.path.dirname(out), exist_ok=True)
        srcs = [os.path.join(REPO, "ethosu", "mlw_codec", s) for s in SRC]
        tmp = out + ".tmp%d-%s" % (os.getpid(), uuid.uuid4().hex[:8])
        p = subprocess.run(flags + srcs + ["-o", tmp], capture_output=True, text=True)
        if p.returncode != 0:
            raise MachineryError("mlw_codec does not build from the working tree:\n" + p.stderr[-3000:])
        os.replace(tmp, out)
    return out


def inject(path=None):
    """Load the private build as sys.modules['ethosu.mlw_codec'] (before anything imports it)."""
    path = path or build()
    import ethosu  # noqa: F401  (package from the working tree)
    loader = importlib.machinery.ExtensionFileLoader("ethosu.mlw_codec", path)
    spec = importlib.util.spec_from_file_location("ethosu.mlw_codec", path, loader=loader)
    mod = importlib.util.module_from_spec(spec)
    spec.loader.exec_module(mod)
    sys.modules["ethosu.mlw_codec"] = mod
    import ethosu as pkg
    pkg.mlw_codec = mod
    return mod


def shim_dir():
    """Directory holding a sitecustomize.py that performs inject() in subprocesses (CLI runs)."""
    so = build()
    d = os.path.join(os.path.dirname(so), "shim-" + hashlib.sha256(REPO.encode()).hexdigest()[:10])
    os.makedirs(d, exist_ok=True)
    sc = os.path.join(d, "sitecustomize.py")
    body = (
        "import sys, importlib.machinery, importlib.util\n"
        "sys.path.insert(0, %r)\n"
        "try:\n"
        "    import ethosu\n"
        "    _l = importlib.machinery.ExtensionFileLoader('ethosu.mlw_codec', %r)\n"
        "    _s = importlib.util.spec_from_file_location('ethosu.mlw_codec', %r, loader=_l)\n"
        "    _m = importlib.util.module_from_spec(_s); _s.loader.exec_module(_m)\n"
        "    sys.modules['ethosu.mlw_codec'] = _m; ethosu.mlw_codec = _m\n"
        "except Exception as e:\n"
        "    sys.stderr.write('verif shim: %%r\\n' %% (e,))\n" % (REPO, so, so))
    with _LOCK:
        if not os.path.exists(sc) or open(sc).read() != body:
            tmp = sc + ".tmp%d-%s" % (os.getpid(), uuid.uuid4().hex[:8])
            with open(tmp, "w") as f:
                f.write(body)
            os.replace(tmp, sc)
    return d
