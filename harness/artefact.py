"""placeholder; replaced below"""
def parse_model(b):
    from ethosu.vela.tflite import Model
    m = Model.Model.GetRootAsModel(bytearray(b), 0)
    assert m.SubgraphsLength() >= 1
    return m
