"""Plain readers of what the compiler emits: the output flatbuffer, the driver payload and the
register command stream.  Independent of tflite_reader/tflite_writer and of the command-stream
emitter; uses the flatbuffers runtime, the generated accessor classes, and a snapshot of the Ethos-U
opcode table (harness/regs_table.json, hardware facts pinned at design time)."""
import json
import os
import struct

import numpy as np

from .common import ensure_repo_on_path

ensure_repo_on_path()
from ethosu.vela.tflite import Model as _Model  # noqa: E402

_T = json.load(open(os.path.join(os.path.dirname(__file__), "regs_table.json")))
CMD0 = {int(k): v for k, v in _T["cmd0"].items()}
CMD1 = {int(k): v for k, v in _T["cmd1"].items()}
CMD0_CODE = {v: k for k, v in CMD0.items()}
CMD1_CODE = {v: k for k, v in CMD1.items()}

TYPE_SIZE = {0: 4, 1: 2, 2: 4, 3: 1, 4: 8, 5: None, 6: 1, 7: 2, 8: 8, 9: 1, 10: 8, 11: 16, 12: 8, 13: None, 14: None,
             15: 4, 16: 2, 17: 1}
TYPE_NAME = {0: "FLOAT32", 1: "FLOAT16", 2: "INT32", 3: "UINT8", 4: "INT64", 5: "STRING", 6: "BOOL", 7: "INT16",
             8: "COMPLEX64", 9: "INT8", 10: "FLOAT64", 15: "UINT32", 16: "UINT16", 17: "INT4"}


class ParseError(Exception):
    pass


def parse_model(data):
    """bytes -> dict describing the model (first subgraph; Vela writes exactly one)."""
    buf = bytearray(data)
    if len(buf) < 8 or bytes(buf[4:8]) != b"TFL3":
        raise ParseError("not a TFL3 flatbuffer")
    m = _Model.Model.GetRootAsModel(buf, 0)
    if m.SubgraphsLength() < 1:
        raise ParseError("no subgraph")
    sg = m.Subgraphs(0)

    def bufbytes(i):
        b = m.Buffers(i)
        n = b.DataLength()
        return b.DataAsNumpy().tobytes() if n else b""

    tensors = []
    for i in range(sg.TensorsLength()):
        t = sg.Tensors(i)
        shape = [int(t.Shape(j)) for j in range(t.ShapeLength())]
        q = t.Quantization()
        quant = None
        if q is not None:
            quant = {"scale": [float(q.Scale(j)) for j in range(q.ScaleLength())],
                     "zp": [int(q.ZeroPoint(j)) for j in range(q.ZeroPointLength())], "qdim": q.QuantizedDimension()}
        nbuf = m.Buffers(t.Buffer()).DataLength()
        n = 1
        for d in shape:
            n *= d
        tensors.append({"i": i, "name": (t.Name() or b"").decode(), "shape": shape, "type": int(t.Type()),
                        "buffer": int(t.Buffer()), "const_len": int(nbuf), "quant": quant,
                        "size": n * (TYPE_SIZE.get(int(t.Type())) or 0), "is_variable": bool(t.IsVariable())})
    ops = []
    for k in range(sg.OperatorsLength()):
        o = sg.Operators(k)
        oc = m.OperatorCodes(o.OpcodeIndex())
        code = max(int(oc.BuiltinCode()), int(oc.DeprecatedBuiltinCode()))
        cc = oc.CustomCode()
        ops.append({"k": k, "code": code, "custom": cc.decode() if cc else None, "version": int(oc.Version()),
                    "inputs": [int(o.Inputs(j)) for j in range(o.InputsLength())],
                    "outputs": [int(o.Outputs(j)) for j in range(o.OutputsLength())]})
    meta = {}
    for i in range(m.MetadataLength()):
        md = m.Metadata(i)
        meta[(md.Name() or b"").decode()] = bufbytes(md.Buffer())
    out = {"tensors": tensors, "ops": ops,
           "inputs": [int(sg.Inputs(i)) for i in range(sg.InputsLength())],
           "outputs": [int(sg.Outputs(i)) for i in range(sg.OutputsLength())],
           "metadata": meta, "n_subgraphs": m.SubgraphsLength(), "description": (m.Description() or b"").decode(),
           "_buf": bufbytes}
    oma = meta.get("OfflineMemoryAllocation")
    if oma is not None:
        arr = np.frombuffer(oma, dtype=np.int32)
        out["offline"] = {"version": int(arr[0]), "n_subgraphs": int(arr[1]), "n_tensors": int(arr[2]),
                          "offsets": [int(v) for v in arr[3:]]}
    return out


def ethosu_ops(model):
    """Custom 'ethos-u' operators with their payload, flash bytes and scratch extents."""
    res = []
    for o in model["ops"]:
        if o["custom"] != "ethos-u":
            continue
        ins = o["inputs"]
        T = model["tensors"]
        cs = model["_buf"](T[ins[0]]["buffer"])
        flash = model["_buf"](T[ins[1]]["buffer"])
        res.append({"k": o["k"], "payload": cs, "flash": flash, "flash_len": T[ins[1]]["size"],
                    "flash_tensor": ins[1], "scratch_tensor": ins[2], "scratch_fast_tensor": ins[3],
                    "scratch_len": T[ins[2]]["size"], "scratch_fast_len": T[ins[3]]["size"],
                    "inputs": ins[4:], "outputs": o["outputs"]})
    return res


# ------------------------------------------------------------------ driver payload
DA_CONFIG, DA_CMDSTREAM, DA_NOP = 1, 2, 5


def parse_payload(payload):
    """bytes -> {fourcc, config (tag, config word, id word), nops, header_index, declared_len, words}"""
    if len(payload) % 4:
        raise ParseError("payload length not a multiple of 4")
    w = struct.unpack("<%dI" % (len(payload) // 4), payload)
    if not w or w[0] != 0x31504F43:
        raise ParseError("no COP1 tag")
    i = 1
    res = {"fourcc": w[0], "nops": 0, "config": None}
    while i < len(w):
        tag = w[i] & 0xFF
        if tag == DA_CONFIG:
            res["config"] = (w[i], w[i + 1], w[i + 2])
            i += 3
        elif tag == DA_NOP:
            res["nops"] += 1
            i += 1
        elif tag == DA_CMDSTREAM:
            n = (((w[i] >> 8) & 0xFF) << 16) | (w[i] >> 16)
            res["header_index"] = i
            res["declared_len"] = n
            res["words"] = list(w[i + 1:])
            return res
        else:
            raise ParseError("unknown driver action %d at word %d" % (tag, i))
    raise ParseError("no command stream header")


# ------------------------------------------------------------------ register command stream
KERNEL_OPS = {"NPU_OP_CONV": "conv", "NPU_OP_DEPTHWISE": "dw", "NPU_OP_POOL": "pool", "NPU_OP_ELEMENTWISE": "ew"}


def decode(words):
    """words -> list of events, tracking register state (A-HW5):
       ("set", name, value, is_dma_bank) / ("wait", "kernel"|"dma", n) / ("op", kind, param, regs, index) /
       ("stop", param) / ("unknown", word).  value of a cmd1 register = (param << 32) | payload."""
    ev = []
    regs = {}
    k = 0
    nop = 0
    n = len(words)
    while k < n:
        w = words[k]
        code = w & 0xFFFF
        param = w >> 16
        if code & 0x4000:
            name = CMD1.get(code & 0x3FF)
            if k + 1 >= n:
                ev.append(("unknown", w))
                break
            if name is None or (code & 0x8000):
                ev.append(("unknown", w))
            else:
                val = (param << 32) | words[k + 1]
                regs[name] = val
                ev.append(("set", name, val))
            k += 2
            continue
        name = CMD0.get(code & 0x3FF)
        k += 1
        if name is None or (code & 0xBC00):
            ev.append(("unknown", w))
        elif name == "NPU_OP_KERNEL_WAIT":
            ev.append(("wait", "kernel", param))
        elif name == "NPU_OP_DMA_WAIT":
            ev.append(("wait", "dma", param))
        elif name == "NPU_OP_STOP":
            ev.append(("stop", param))
        elif name in KERNEL_OPS:
            ev.append(("op", KERNEL_OPS[name], param, dict(regs), nop))
            nop += 1
        elif name == "NPU_OP_DMA_START":
            ev.append(("op", "dma", param, dict(regs), nop))
            nop += 1
        elif name.startswith("NPU_OP_"):
            ev.append(("otherop", name, param))
        else:
            regs[name] = param
            ev.append(("set", name, param))
    return ev


def ops_with_waits(events):
    """-> list of {"kind","param","regs","waits":[(queue,n)...]} in program order, waits = those emitted since the
    previous operation."""
    out = []
    waits = []
    for e in events:
        if e[0] == "wait":
            waits.append((e[1], e[2]))
        elif e[0] == "op":
            out.append({"kind": e[1], "param": e[2], "regs": e[3], "waits": waits, "index": e[4]})
            waits = []
    return out


def accel_from_config_word(cfg):
    """config word of the driver payload -> accelerator name (table written from the Ethos-U CONFIG register layout:
    macs_per_cc log2 in bits 0-3, cmd_stream_version 4-7, shram_size 8-15, product 28-31)."""
    macs = cfg & 0xF
    shram = (cfg >> 8) & 0xFF
    product = (cfg >> 28) & 0xF
    table = {(0, 5, 16): "ethos-u55-32", (0, 6, 16): "ethos-u55-64", (0, 7, 24): "ethos-u55-128",
             (0, 8, 48): "ethos-u55-256", (1, 8, 48): "ethos-u65-256", (1, 9, 96): "ethos-u65-512"}
    return table.get((product, macs, shram))
