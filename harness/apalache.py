"""Apalache runner (symbolic model checker for TLA+): used for inductive-invariant obligations that lift a bounded TLC
result to streams / histories of unbounded length.

    check(module, cinit, init, inv, length, timeout) -> dict(status = "ok" | "violated" | "timeout" | "error", wall, output)

A proof obligation is  `check(..., init="IndInit", inv="IndInv", length=1)` (IndInv /\\ Next => IndInv') together with
`check(..., init="Init", inv="IndInv", length=0)` (Init => IndInv).  `must(res, want, what)` raises MachineryError when
the outcome is not the expected one: an Apalache failure is never a property violation of the implementation - the
obligations are about the design model only.
"""
import os
import shutil
import subprocess
import time

from .common import MachineryError, SPEC, scratch

APALACHE = shutil.which("apalache-mc") or "/opt/veriftools/apalache/bin/apalache-mc"


def check(module, cinit, init, inv, length, timeout=900):
    out_dir = scratch("apalache")
    cmd = [APALACHE, "check", "--cinit=" + cinit, "--init=" + init, "--inv=" + inv, "--length=%d" % length,
           "--out-dir=" + out_dir, "--write-intermediate=false", module]
    env = dict(os.environ)
    env.pop("JAVA_TOOL_OPTIONS", None)
    env.setdefault("JVM_ARGS", "-Xmx4g")
    env["TMPDIR"] = out_dir          # the launcher's `mktemp -d -t SANY...` (java.io.tmpdir) goes with out_dir
    t0 = time.time()
    try:
        p = subprocess.run(cmd, cwd=SPEC, env=env, capture_output=True, text=True, timeout=timeout)
        out = p.stdout + p.stderr
        if "The outcome is: NoError" in out and p.returncode == 0:
            status = "ok"
        elif "The outcome is: Error" in out and "invariant" in out and "violated" in out:
            status = "violated"
        else:
            status = "error"
    except subprocess.TimeoutExpired as ex:
        out = (ex.stdout or b"").decode(errors="replace") if isinstance(ex.stdout, bytes) else (ex.stdout or "")
        status = "timeout"
    finally:
        shutil.rmtree(out_dir, ignore_errors=True)
    return {"status": status, "wall": time.time() - t0, "output": out[-4000:], "cmd": " ".join(cmd),
            "obligation": "%s: %s --init=%s --inv=%s --length=%d" % (module, cinit, init, inv, length)}


def must(res, want, what):
    if res["status"] != want:
        raise MachineryError("Apalache %s: expected %s, got %s\n%s" % (what, want, res["status"], res["output"][-1500:]))
    return res
