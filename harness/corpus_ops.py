"""Operator-coverage part of the shared corpus: one small single-operator network per operator kind / lowering path
that Vela supports on the NPU (and instances just outside the documented constraints, which must fall back to the
CPU cleanly), plus a few multi-operator families around memory-only operators, mixed precision, fused activations
and CPU fall-backs.  Registered into corpus.SINGLE_KINDS / corpus.FAMILIES by corpus.py (appended, never renumbered).

Every builder is `f(rng, seed) -> (Net, [output tensors])`, deterministic in (rng state, seed); networks are tiny
(compile well below a second).  The comment after each kind says which rewrite of tflite_graph_optimiser.py (or which
constraint of tflite_supported_operators.py / tflite_model_semantic.py) it is aimed at; `CPU` marks instances that are
expected to be left to the CPU."""
from .netgen import Net

PENDING = set()   # "family:style" names left out of random style selection (filled from corpus.PENDING_TRIAGE)
KINDS = {}        # kind -> builder
ORDER = []        # registration order = numbering (append only)
EXPECT_CPU = set()   # kinds whose operator under test is expected to fall back to the CPU

QDEF = {"INT8": (0.05, 0), "UINT8": (0.05, 128), "INT16": (0.001, 0), "INT32": (1.0, 0)}


def kind(name, cpu=False):
    def deco(f):
        assert name not in KINDS, name
        KINDS[name] = f
        ORDER.append(name)
        if cpu:
            EXPECT_CPU.add(name)
        return f
    return deco


def pick_style(rng, fam, styles, style=None):
    """random style of a family, leaving out the styles that are pending triage (an explicit style is always honoured)"""
    return style or rng.choice([s for s in styles if "%s:%s" % (fam, s) not in PENDING])


def inp(n, shape, dt="INT8", name="in", scale=None, zp=None):
    s, z = QDEF[dt]
    return n.fm(name, shape, dt, s if scale is None else scale, z if zp is None else zp, is_input=True)


def hwc(rng, hs=(4, 7, 8, 13), ws=(4, 8, 9), cs=(3, 8, 16, 24)):
    return rng.choice(hs), rng.choice(ws), rng.choice(cs)


def reg(name, cpu=False):
    """register a builder written as g(n, rng) -> outputs on a fresh Net"""
    def deco(g):
        def f(rng, seed):
            n = Net(seed)
            outs = g(n, rng)
            return n, (outs if isinstance(outs, list) else [outs])
        f.__doc__ = g.__doc__
        kind(name, cpu)(f)
        return g
    return deco


# ----------------------------------------------------------------------------- unary / LUT operators
def _unary(name, op, dt="INT8", cpu=False, oscale=None, ozp=None, iscale=None, izp=None, rank=4, **kw):
    @reg(name, cpu)
    def g(n, rng):
        H, W, C = hwc(rng)
        shape = [1, H, W, C][4 - rank:] if rank < 4 else [1, H, W, C]
        x = inp(n, shape, dt, scale=iscale, zp=izp)
        return n.act_op(op, x, oscale=oscale, ozp=ozp, **kw)


_unary("exp", "EXP", oscale=0.2, ozp=-128)                        # convert_ops_to_lut: 8-bit table
_unary("exp_i16", "EXP", "INT16", iscale=0.0003, oscale=0.0005, ozp=0)    # 16-bit table (interpolating LUT)
_unary("exp_u8", "EXP", "UINT8", cpu=True)                         # CPU: IFM must be int8 or int16
_unary("rsqrt", "RSQRT", iscale=0.02, izp=-128, oscale=0.05, ozp=-128)    # create_lut_rsqrt_int8_op
_unary("rsqrt_i16", "RSQRT", "INT16", cpu=True)                    # CPU: IFM must be int8
_unary("relu6", "RELU6")
_unary("relu_n1", "RELU_N1_TO_1", iscale=0.02)
_unary("relu0to1", "RELU_0_TO_1", iscale=0.02, cpu=True)          # CPU: not in the supported set
_unary("relu_rescale", "RELU", oscale=0.02, ozp=-128)              # fixup_relus_with_differing_ifm_ofm_scaling
_unary("relu6_u8", "RELU6", "UINT8", ozp=0, oscale=0.025)
_unary("relu_i16", "RELU", "INT16")
_unary("relu6_r2", "RELU6", rank=2)
_unary("abs_i16", "ABS", "INT16")
_unary("abs_rescale", "ABS", oscale=0.03, ozp=-128)
_unary("lrelu_big", "LEAKY_RELU", alpha=1.5)                       # alpha > 1
_unary("lrelu_neg", "LEAKY_RELU", alpha=-0.5)                      # negative alpha
_unary("lrelu_zero", "LEAKY_RELU", alpha=0.0)                      # convert_lrelu: -> Relu
_unary("lrelu_u8", "LEAKY_RELU", "UINT8", alpha=0.2)
_unary("lrelu_rescale", "LEAKY_RELU", alpha=0.3, oscale=0.08, ozp=5)
_unary("lrelu_i16", "LEAKY_RELU", "INT16", alpha=0.1)              # kept as native LeakyRelu (equal scaling, alpha > 0)
_unary("lrelu_i16_rescale", "LEAKY_RELU", "INT16", alpha=0.1, oscale=0.002)   # convert_lrelu_to_mul_max
_unary("lrelu_i16_neg", "LEAKY_RELU", "INT16", alpha=-0.25)        # convert_lrelu_to_mul_max, negative alpha
_unary("lrelu_i16_big", "LEAKY_RELU", "INT16", alpha=2.0)          # alpha > 1 on int16
_unary("hardswish_u8", "HARD_SWISH", "UINT8")
_unary("hardswish_rescale", "HARD_SWISH", oscale=0.03, ozp=-100)
_unary("hardswish_i16", "HARD_SWISH", "INT16", cpu=True)           # CPU: IFM must be int8 or uint8
_unary("tanh_i16", "TANH", "INT16", iscale=1 / 4096, oscale=1 / 32768, ozp=0)
_unary("logistic_i16", "LOGISTIC", "INT16", iscale=1 / 4096, oscale=1 / 32768, ozp=0)
_unary("tanh_u8", "TANH", "UINT8", oscale=1 / 128, ozp=128)
_unary("logistic_u8", "LOGISTIC", "UINT8", oscale=1 / 256, ozp=0)
_unary("tanh_r3", "TANH", rank=3, oscale=1 / 128, ozp=0)


def _softmax(name, dt, shape, cpu=False, beta=1.0):
    @reg(name, cpu)
    def g(n, rng):
        x = inp(n, shape(rng), dt, scale={"INT16": 0.0005}.get(dt))
        os_, oz = {"INT8": (1 / 256, -128), "UINT8": (1 / 256, 0), "INT16": (1 / 32768, 0)}[dt]
        return n.act_op("SOFTMAX", x, oscale=os_, ozp=oz, beta=beta)


_softmax("softmax_u8", "UINT8", lambda r: [1, r.choice([10, 32, 77])])
_softmax("softmax_i16", "INT16", lambda r: [1, r.choice([10, 32, 77])])
_softmax("softmax_r3", "INT8", lambda r: [r.choice([2, 5]), r.choice([3, 8]), r.choice([10, 16])])
_softmax("softmax_r4", "INT8", lambda r: [1, r.choice([2, 4]), r.choice([3, 8]), r.choice([10, 21])])
_softmax("softmax_batch", "INT8", lambda r: [r.choice([2, 4, 6]), r.choice([10, 40])])
_softmax("softmax_beta", "INT8", lambda r: [1, 20], beta=0.5)
_softmax("softmax_i16_r4", "INT16", lambda r: [1, 2, r.choice([3, 4]), r.choice([8, 12])])
_softmax("softmax_u8_r3", "UINT8", lambda r: [1, r.choice([3, 8]), r.choice([10, 16])])
_softmax("softmax_negbeta", "INT8", lambda r: [1, 12], cpu=True, beta=-1.0)      # CPU: beta must be positive


def _prelu(name, mode, dt="INT8", oscale=None, ozp=None):
    @reg(name)
    def g(n, rng):
        H, W, C = hwc(rng)
        x = inp(n, [1, H, W, C], dt)
        if mode == "dyn":                                # alpha is not a constant: catch-all min/mul/relu/add lowering
            a = inp(n, [1, 1, C], dt, name="alpha", scale=0.01)
            y = n.like(x, "prelu", scale=oscale, zp=ozp)
            n.op("PRELU", [x, a], [y])
            return y
        zp = 128 if dt == "UINT8" else 0
        if mode == "same":                               # -> LeakyRelu with alpha_scaling
            al = [zp + 25] * C
        elif mode == "zero":                             # -> Relu
            al = [zp] * C
        elif mode == "small":                            # alpha_max < 1: mul (+ identity mul) + max
            al = [zp + rng.randint(1, 90) for _ in range(C)]
        elif mode == "neg":                              # negative alphas, alpha_max < 1
            al = [zp - rng.randint(1, 90) for _ in range(C)]
        else:                                            # some alpha >= 1: catch-all
            al = [zp + rng.randint(1, 127) for _ in range(C)]
            al[0] = zp + 127
        return n.prelu(x, alphas=al, ashape=rng.choice([[1, 1, C], [C]]), ascale=0.01, azp=zp, oscale=oscale, ozp=ozp)


_prelu("prelu_same", "same")
_prelu("prelu_zero", "zero")
_prelu("prelu_small", "small")
_prelu("prelu_small_rescale", "small", oscale=0.08, ozp=3)
_prelu("prelu_neg", "neg")
_prelu("prelu_big", "big")
_prelu("prelu_dyn", "dyn")
_prelu("prelu_u8", "small", "UINT8")
_prelu("prelu_i16", "small", "INT16")


# ----------------------------------------------------------------------------- binary elementwise, broadcasting
def _binary(name, op, sa, sb, dt="INT8", b_const=False, a_const=False, cpu=False, act=0, odt=None, same_q=False):
    """sa / sb: functions (H, W, C) -> shape"""
    @reg(name, cpu)
    def g(n, rng):
        H, W, C = hwc(rng)
        sha, shb = sa(H, W, C), sb(H, W, C)
        s0, z0 = QDEF[dt]
        lo, hi = {"INT8": (-128, 127), "UINT8": (0, 255), "INT16": (-3000, 3000), "INT32": (-100000, 100000)}[dt]

        def operand(nm, shape, const, scale, zp):
            if const:
                return n.const(nm, shape, dt, lo, hi, scale=[scale], zp=[zp])
            return n.fm(nm, shape, dt, scale, zp, is_input=True)
        a = operand("a", sha, a_const, s0, z0)
        second = (s0, z0) if (same_q or op in ("MINIMUM", "MAXIMUM")) else (s0 * 0.6, z0 + (2 if dt in ("INT8", "UINT8") else 0))
        b = operand("b", shb, b_const, *second)
        os_ = {"INT8": 0.1, "UINT8": 0.1, "INT16": 0.002, "INT32": 1.0}[odt or dt]
        oz = {"INT8": -1, "UINT8": 120}.get(odt or dt, 0)
        return n.binary(op, a, b, act=act, oscale=os_, ozp=oz, odt=odt)


F = lambda H, W, C: [1, H, W, C]      # noqa: E731
_binary("maximum", "MAXIMUM", F, F)
_binary("sqdiff", "SQUARED_DIFFERENCE", F, F)                                   # convert_squared_difference
_binary("sqdiff_bcast", "SQUARED_DIFFERENCE", F, lambda H, W, C: [1, 1, 1, C])
_binary("sqdiff_i16", "SQUARED_DIFFERENCE", F, F, "INT16")
_binary("sqdiff_u8", "SQUARED_DIFFERENCE", F, F, "UINT8")
_binary("add_sconst", "ADD", F, lambda H, W, C: [], b_const=True)               # scalar constant
_binary("mul_sconst", "MUL", F, lambda H, W, C: [], b_const=True)
_binary("sub_sconst_first", "SUB", lambda H, W, C: [], F, a_const=True)         # constant - x
_binary("max_sconst", "MAXIMUM", F, lambda H, W, C: [], b_const=True)
_binary("min_sconst_first", "MINIMUM", lambda H, W, C: [], F, a_const=True)
_binary("add_cconst", "ADD", F, lambda H, W, C: [1, 1, 1, C], b_const=True)     # per-channel constant
_binary("mul_cconst_r1", "MUL", F, lambda H, W, C: [C], b_const=True)           # rank-1 constant operand
_binary("sub_cconst_first", "SUB", lambda H, W, C: [1, 1, 1, C], F, a_const=True)
_binary("add_hconst", "ADD", F, lambda H, W, C: [1, H, 1, 1], b_const=True)
_binary("mul_wconst", "MUL", F, lambda H, W, C: [1, 1, W, 1], b_const=True)
_binary("add_hwconst", "ADD", F, lambda H, W, C: [1, H, W, 1], b_const=True)
_binary("add_wcconst", "ADD", F, lambda H, W, C: [W, C], b_const=True)          # rank-2 constant against rank 4
_binary("add_fullconst", "ADD", F, F, b_const=True)
_binary("add_rt1111", "ADD", F, lambda H, W, C: [1, 1, 1, 1])                   # run-time one-element operand
_binary("mul_rt1111_first", "MUL", lambda H, W, C: [1, 1, 1, 1], F)
_binary("sub_rtc", "SUB", F, lambda H, W, C: [1, 1, 1, C])
_binary("sub_rtc_first", "SUB", lambda H, W, C: [1, 1, 1, C], F)
_binary("mul_rth", "MUL", F, lambda H, W, C: [1, H, 1, 1])
_binary("add_rtw", "ADD", F, lambda H, W, C: [1, 1, W, 1])
_binary("add_rthw", "ADD", F, lambda H, W, C: [1, H, W, 1])
_binary("max_rtc", "MAXIMUM", F, lambda H, W, C: [1, 1, 1, C])
_binary("min_rt1111", "MINIMUM", F, lambda H, W, C: [1, 1, 1, 1])
_binary("add_rt_scalar", "ADD", F, lambda H, W, C: [1])                         # rank-1 one-element run-time operand
_binary("add_r2", "ADD", lambda H, W, C: [1, C * 4], lambda H, W, C: [1, C * 4])
_binary("add_r2_rows", "ADD", lambda H, W, C: [H, C], lambda H, W, C: [H, C])    # rank 2, leading dimension > 1
_binary("mul_r2_bcast", "MUL", lambda H, W, C: [H, C], lambda H, W, C: [1, C])
_binary("add_r3", "ADD", lambda H, W, C: [H, W, C], lambda H, W, C: [H, W, C])
_binary("mul_r3_bcast", "MUL", lambda H, W, C: [H, W, C], lambda H, W, C: [C])
_binary("sub_r3_r4", "SUB", F, lambda H, W, C: [H, W, C])                       # operands of different rank
_binary("add_r1", "ADD", lambda H, W, C: [C * 8], lambda H, W, C: [C * 8])
_binary("add_batch", "ADD", lambda H, W, C: [2, H, W, C], lambda H, W, C: [2, H, W, C], cpu=True)   # CPU: batch must be 1
_binary("mul_batch_bcast", "MUL", lambda H, W, C: [3, H, W, C], lambda H, W, C: [1, 1, 1, C], cpu=True)
_binary("add_bothbcast", "ADD", lambda H, W, C: [1, H, 1, C], lambda H, W, C: [1, 1, W, C], cpu=True)  # no operand has OFM shape
_binary("add_u8", "ADD", F, F, "UINT8")
_binary("sub_u8", "SUB", F, F, "UINT8")
_binary("mul_u8", "MUL", F, F, "UINT8")
_binary("add_i16", "ADD", F, F, "INT16")
_binary("sub_i16", "SUB", F, F, "INT16")
_binary("mul_i16", "MUL", F, F, "INT16")
_binary("max_i16", "MAXIMUM", F, F, "INT16")
_binary("min_u8", "MINIMUM", F, F, "UINT8")
_binary("add_i32", "ADD", F, F, "INT32", same_q=True)
_binary("mul_i32", "MUL", F, F, "INT32", same_q=True)
_binary("sub_i32_bcast", "SUB", F, lambda H, W, C: [1, 1, 1, C], "INT32", same_q=True)
_binary("add_u8_i32", "ADD", F, F, "UINT8", odt="INT32")                        # unsigned IFM, int32 OFM
_binary("add_i8_u8", "ADD", F, F, "INT8", odt="UINT8", cpu=True)                # CPU: signed IFM needs signed OFM
_binary("add_relu", "ADD", F, F, act=1)
_binary("mul_relu6", "MUL", F, F, act=3)
_binary("sub_relun1", "SUB", F, F, act=2)
_binary("add_tanh", "ADD", F, F, act=4)
_binary("add_signbit", "ADD", F, F, act=5, cpu=True)                             # CPU: fused SIGN_BIT unsupported


@reg("max_diffquant", cpu=True)
def _max_diffquant(n, rng):
    """CPU: MAXIMUM needs matching quantisation of both inputs and the output"""
    H, W, C = hwc(rng)
    a = inp(n, [1, H, W, C])
    b = inp(n, [1, H, W, C], name="b", scale=0.02, zp=3)
    y = n.like(a, "max")
    n.op("MAXIMUM", [a, b], [y])
    return y


# ----------------------------------------------------------------------------- slicing / memory-only operators
@reg("slice")
def _slice(n, rng):
    H, W, C = hwc(rng, hs=(7, 8, 13), ws=(8, 9), cs=(8, 16, 24))
    x = inp(n, [1, H, W, C])
    return n.slice(x, [0, rng.randint(0, 2), rng.randint(0, 3), 0], [1, H - 3, W - 4, C])


@reg("slice_c")
def _slice_c(n, rng):
    """channel slice at a non-16-aligned offset"""
    H, W, C = hwc(rng, cs=(24, 32, 40))
    x = inp(n, [1, H, W, C])
    off = rng.choice([1, 5, 8, 16, 17])
    return n.slice(x, [0, 0, 0, off], [1, H, W, -1])


@reg("slice_full")
def _slice_full(n, rng):
    H, W, C = hwc(rng)
    x = inp(n, [1, H, W, C])
    return n.slice(x, [0, 0, 0, 0], [1, H, W, C])


@reg("slice_r2")
def _slice_r2(n, rng):
    A, B = rng.choice([4, 9]), rng.choice([16, 40])
    x = inp(n, [A, B])
    return n.slice(x, [1, 3], [A - 2, B - 7])


@reg("slice_batch")
def _slice_batch(n, rng):
    """SLICE is exempt from the batch-1 rule"""
    H, W, C = hwc(rng, hs=(4, 7), ws=(4, 8), cs=(8, 16))
    x = inp(n, [3, H, W, C])
    return n.slice(x, [1, 0, 0, 0], [1, H, W, C])


@reg("slice_dynbegin", cpu=True)
def _slice_dyn(n, rng):
    """CPU: begin tensor is not constant"""
    H, W, C = hwc(rng)
    x = inp(n, [1, H, W, C])
    b = n.fm("begin", [4], "INT32", None, is_input=True)
    s = n.i32("size", [1, H - 1, W - 1, C])
    y = n.like(x, "slice", [1, H - 1, W - 1, C])
    n.op("SLICE", [x, b, s], [y])
    return y


@reg("sslice")
def _sslice(n, rng):
    H, W, C = hwc(rng, hs=(7, 8, 13), ws=(8, 9))
    x = inp(n, [1, H, W, C])
    return n.strided_slice(x, [0, 1, 2, 0], [1, H - 1, W - 1, C])


@reg("sslice_masks")
def _sslice_masks(n, rng):
    H, W, C = hwc(rng, hs=(7, 8, 13), ws=(8, 9))
    x = inp(n, [1, H, W, C])
    return n.strided_slice(x, [0, 2, 5, 0], [0, 5, 0, 0], begin_mask=0b1001 | 0b0100, end_mask=0b1101)


@reg("sslice_neg")
def _sslice_neg(n, rng):
    H, W, C = hwc(rng, hs=(7, 8, 13), ws=(8, 9), cs=(16, 24))
    x = inp(n, [1, H, W, C])
    return n.strided_slice(x, [0, -5, 1, -9], [1, -1, W, -1])


@reg("sslice_shrink")
def _sslice_shrink(n, rng):
    """shrink_axis_mask: rank 4 -> rank 3 (rewrite_stridedslice_output)"""
    H, W, C = hwc(rng)
    x = inp(n, [1, H, W, C])
    k = rng.randrange(H)
    return n.strided_slice(x, [0, k, 0, 0], [1, k + 1, W, C], shrink=0b0010)


@reg("sslice_shrink_r2")
def _sslice_shrink_r2(n, rng):
    A, B = rng.choice([4, 6]), rng.choice([16, 24])
    x = inp(n, [A, B])
    k = rng.randrange(A)
    return n.strided_slice(x, [k, 0], [k + 1, B], shrink=0b01)


@reg("sslice_newaxis")
def _sslice_newaxis(n, rng):
    """new_axis_mask: rank 3 -> rank 4"""
    H, W, C = hwc(rng)
    x = inp(n, [H, W, C])
    return n.strided_slice(x, [0, 0, 0, 0], [1, H, W, C], new_axis=0b0001, begin_mask=0b1110, end_mask=0b1110,
                           oshape=[1, H, W, C])


@reg("sslice_newaxis_off")
def _sslice_newaxis_off(n, rng):
    """new_axis_mask with a non-zero begin on a later dimension: out = in[newaxis, 2:, :, :]"""
    H, W, C = hwc(rng, hs=(7, 8, 13), ws=(4, 8))
    x = inp(n, [H, W, C])
    return n.strided_slice(x, [0, 2, 0, 0], [1, H, W, C], new_axis=0b0001, begin_mask=0b1100, end_mask=0b1110,
                           oshape=[1, H - 2, W, C])


@reg("sslice_stride2", cpu=True)
def _sslice_stride2(n, rng):
    """CPU: all strides must be 1"""
    H, W, C = hwc(rng, hs=(8,), ws=(8,))
    x = inp(n, [1, H, W, C])
    return n.strided_slice(x, [0, 0, 0, 0], [1, H, W, C], strides=[1, 2, 2, 1])


@reg("sslice_ellipsis", cpu=True)
def _sslice_ellipsis(n, rng):
    """CPU: ellipsis_mask must be 0"""
    H, W, C = hwc(rng)
    x = inp(n, [1, H, W, C])
    return n.strided_slice(x, [0, 0, 0, 0], [1, H, W, C - 1], ellipsis=0b0010, oshape=[1, H, W, C - 1])


@reg("sslice_offset", cpu=True)
def _sslice_offset(n, rng):
    """CPU: offset attribute must be false"""
    H, W, C = hwc(rng, hs=(8,), ws=(8,))
    x = inp(n, [1, H, W, C])
    return n.strided_slice(x, [0, 1, 1, 0], [1, 3, 3, C], offset=True, oshape=[1, 3, 3, C])


@reg("sslice_both_masks", cpu=True)
def _sslice_both(n, rng):
    """CPU: new_axis_mask and shrink_axis_mask cannot both be set"""
    H, W, C = hwc(rng)
    x = inp(n, [1, H, W, C])
    return n.strided_slice(x, [0, 0, 0, 0], [1, H, W, C], shrink=0b0001, new_axis=0b0010, oshape=[1, H, W, C])


@reg("split_v")
def _split_v(n, rng):
    H, W, C = hwc(rng, cs=(24, 32))
    x = inp(n, [1, H, W, C])
    ys = n.split_v(x, rng.choice([[8, -1], [3, 5, -1], [16, C - 16], [1, -1, 7]]), 3)
    return [n.conv(y, 8, k=1) for y in ys]


@reg("split_v_h")
def _split_v_h(n, rng):
    H, W, C = hwc(rng, hs=(8, 13))
    x = inp(n, [1, H, W, C])
    return n.split_v(x, [3, -1, 2], 1)


@reg("split_v_neg_axis")
def _split_v_neg(n, rng):
    H, W, C = hwc(rng, ws=(8, 9))
    x = inp(n, [1, H, W, C])
    return n.split_v(x, [5, W - 5], -2)


@reg("split_v_two_inferred", cpu=True)
def _split_v_bad(n, rng):
    """CPU: only one size may be inferred"""
    H, W, C = hwc(rng, cs=(24,))
    x = inp(n, [1, H, W, C])
    st = n.i32("sizes", [-1, -1, 8])
    ax = n.const("axis", [], "INT32", data=[3])
    ys = [n.like(x, "o%d" % i, [1, H, W, 8]) for i in range(3)]
    n.op("SPLIT_V", [x, st, ax], ys, ["SplitVOptions", {"NumSplits": 3}])
    return ys


@reg("split_h")
def _split_h(n, rng):
    H, W, C = hwc(rng, hs=(4, 8, 12))
    x = inp(n, [1, H, W, C])
    return n.split2(x, rng.choice([2, 4]), 1)


@reg("split_w")
def _split_w(n, rng):
    H, W, C = hwc(rng, ws=(4, 8, 12))
    x = inp(n, [1, H, W, C])
    ys = n.split2(x, 2, 2)
    return [n.unary("ABS", ys[0]), ys[1]]


@reg("split_c3")
def _split_c3(n, rng):
    H, W, _ = hwc(rng)
    x = inp(n, [1, H, W, rng.choice([24, 48, 9])])
    return n.split2(x, 3, -1)


@reg("split_nop")
def _split_nop(n, rng):
    """num_splits = 1 (convert_nop_split_to_identity)"""
    H, W, C = hwc(rng)
    x = inp(n, [1, H, W, C])
    return n.conv(n.split2(x, 1, 3)[0], 8, k=1)


@reg("split_r2")
def _split_r2(n, rng):
    x = inp(n, [rng.choice([4, 6]), rng.choice([16, 32])])
    return n.split2(x, 2, rng.choice([0, 1]))


@reg("split_uneven", cpu=True)
def _split_uneven(n, rng):
    """CPU: axis extent must be divisible by the number of splits"""
    H, W, C = hwc(rng, cs=(16,))
    x = inp(n, [1, H, W, C])
    ax = n.const("axis", [], "INT32", data=[3])
    ys = [n.like(x, "o%d" % i, [1, H, W, 5]) for i in range(3)]
    n.op("SPLIT", [ax, x], ys, ["SplitOptions", {"NumSplits": 3}])
    return ys


@reg("squeeze")
def _squeeze(n, rng):
    W, C = rng.choice([4, 9]), rng.choice([8, 24])
    x = inp(n, [1, 1, W, C])
    return n.squeeze(x, rng.choice([[0], [1], [0, 1]]))


@reg("squeeze_mid")
def _squeeze_mid(n, rng):
    H, C = rng.choice([4, 9]), rng.choice([8, 24])
    x = inp(n, [1, H, 1, C])
    return n.unary("ABS", n.squeeze(x, [2]))


@reg("expand_dims")
def _expand(n, rng):
    H, W, C = hwc(rng)
    x = inp(n, [H, W, C])
    return n.expand_dims(x, rng.choice([0, 0, 1, 2, 3, -1]))


@reg("expand_dims_r2")
def _expand_r2(n, rng):
    x = inp(n, [rng.choice([1, 4]), rng.choice([16, 40])])
    return n.unary("ABS", n.expand_dims(x, rng.choice([0, 1, 2])))


@reg("reshape_r4_r2")
def _reshape42(n, rng):
    H, W, C = hwc(rng)
    x = inp(n, [1, H, W, C])
    return n.reshape(x, [1, H * W * C])


@reg("reshape_r2_r4")
def _reshape24(n, rng):
    H, W, C = hwc(rng)
    x = inp(n, [1, H * W * C])
    return n.conv(n.reshape(x, [1, H, W, C]), 8, k=1)


@reg("reshape_batch")
def _reshape_batch(n, rng):
    """RESHAPE is exempt from the batch-1 rule"""
    H, W, C = hwc(rng, hs=(4, 8))
    x = inp(n, [2, H // 2, W, C])
    return n.unary("ABS", n.reshape(x, [1, H, W, C]))


@reg("reshape_minus1")
def _reshape_m1(n, rng):
    """shape tensor with -1 (fixup_reshape: explicit shape)"""
    H, W, C = hwc(rng)
    x = inp(n, [1, H, W, C])
    s = n.i32("shape", [1, -1, C])
    y = n.like(x, "reshape", [1, H * W, C])
    n.op("RESHAPE", [x, s], [y], ["ReshapeOptions", {"NewShape": [1, -1, C]}])
    return n.unary("ABS", y)


@reg("reshape_dynshape", cpu=True)
def _reshape_dyn(n, rng):
    """CPU: shape must be constant"""
    H, W, C = hwc(rng)
    x = inp(n, [1, H, W, C])
    s = n.fm("shape", [4], "INT32", None, is_input=True)
    y = n.like(x, "reshape", [1, W, H, C])
    n.op("RESHAPE", [x, s], [y], ["ReshapeOptions", {"NewShape": [1, W, H, C]}])
    return y


@reg("pack")
def _pack(n, rng):
    H, W, C = hwc(rng)
    ax = rng.choice([1, 2, 3])
    shp = {1: [1, W, C], 2: [1, H, C], 3: [1, H, W]}[ax]
    xs = [inp(n, shp, name="in%d" % i, scale=0.05) for i in range(rng.choice([2, 3, 4]))]
    return n.pack(xs, ax)


@reg("pack_r1")
def _pack_r1(n, rng):
    C = rng.choice([16, 40])
    xs = [inp(n, [C], name="in%d" % i) for i in range(3)]
    return n.pack(xs, rng.choice([0, 1]))


@reg("pack_axis0")
def _pack0(n, rng):
    """pack along a new leading axis: rank 3 x 1 -> [1, H, W, C]"""
    H, W, C = hwc(rng)
    return n.unary("ABS", n.pack([inp(n, [H, W, C])], 0))


@reg("unpack")
def _unpack(n, rng):
    H, W, C = hwc(rng, hs=(2, 4), ws=(3, 4), cs=(4, 8))
    ax = rng.choice([1, 2, 3])
    x = inp(n, [1, H, W, C])
    return n.unpack(x, ax)


@reg("unpack_batch")
def _unpack_batch(n, rng):
    """UNPACK is exempt from the batch-1 rule: [2, H, W, C] -> 2 x [H, W, C]"""
    H, W, C = hwc(rng, hs=(4, 7))
    x = inp(n, [2, H, W, C])
    ys = n.unpack(x, 0)
    return [n.unary("ABS", ys[0]), ys[1]]


@reg("unpack_r2")
def _unpack_r2(n, rng):
    x = inp(n, [rng.choice([2, 3]), rng.choice([16, 40])])
    return n.unpack(x, 0)


def _concat(name, axis, rank=4, k=2, mixed_q=False, cpu=False, unequal=True, batch=False):
    @reg(name, cpu)
    def g(n, rng):
        H, W, C = hwc(rng)
        base = [1, H, W, C][4 - rank:] if not batch else [1, H, W, C]
        xs = []
        for i in range(k):
            shp = list(base)
            if unequal:
                shp[axis] = max(1, shp[axis] + rng.choice([0, 1, -1, 3]))
            sc = 0.05 if not mixed_q else 0.05 + 0.01 * i
            xs.append(n.fm("in%d" % i, shp, "INT8", sc, i if mixed_q else 0, is_input=True))
        return n.concat2(xs, axis)


_concat("concat_h", 1)
_concat("concat_w", 2)
_concat("concat_c3", 3, k=3)
_concat("concat_neg_axis", -1)
_concat("concat_mixedq", 3, mixed_q=True)           # inputs requantised into the output (rewrite_concat_ops)
_concat("concat_mixedq_h", 1, mixed_q=True)
_concat("concat_r2", 1, rank=2)
_concat("concat_r2_rows", 0, rank=2)
_concat("concat_r3", 0, rank=3)
_concat("concat_r3_mid", 1, rank=3)
_concat("concat_batch", 0, batch=True, unequal=False)    # result has batch 2


@reg("concat_act")
def _concat_act(n, rng):
    """fused activation on CONCATENATION"""
    H, W, C = hwc(rng)
    a, b = inp(n, [1, H, W, C], name="a"), inp(n, [1, H, W, C], name="b")
    return n.concat2([a, b], 3, act=1)


@reg("concat_same_twice")
def _concat_twice(n, rng):
    """the same tensor twice in one concatenation"""
    H, W, C = hwc(rng)
    a = inp(n, [1, H, W, C])
    return n.concat2([a, a], rng.choice([1, 3]))


@reg("concat_bad_shape", cpu=True)
def _concat_bad(n, rng):
    """CPU: OFM axis size must be the sum of the IFM axis sizes"""
    H, W, C = hwc(rng)
    a, b = inp(n, [1, H, W, C], name="a"), inp(n, [1, H, W, C], name="b")
    y = n.like(a, "concat", [1, H, W, 2 * C + 1])
    n.op("CONCATENATION", [a, b], [y], ["ConcatenationOptions", {"Axis": 3, "FusedActivationFunction": 0}])
    return y


@reg("shape_op")
def _shape_op(n, rng):
    """SHAPE of a static tensor becomes a constant (convert_shape_op_to_constant_tensor)"""
    H, W, C = hwc(rng)
    x = inp(n, [1, H, W, C])
    return [n.shape_op(x), n.conv(x, 8, k=1)]


@reg("shape_reshape")
def _shape_reshape(n, rng):
    """RESHAPE whose shape operand is the SHAPE of another tensor"""
    H, W, C = hwc(rng)
    x = inp(n, [1, H, W, C])
    r = inp(n, [1, H * W, 1, C], name="ref")
    s = n.shape_op(r)
    y = n.like(x, "reshape", [1, H * W, 1, C])
    n.op("RESHAPE", [x, s], [y], ["ReshapeOptions", {"NewShape": [1, H * W, 1, C]}])
    return n.eltwise("ADD", y, r)


# ----------------------------------------------------------------------------- transpose
def _transpose(name, shape, perm, dt="INT8", cpu=False):
    @reg(name, cpu)
    def g(n, rng):
        H, W, C = hwc(rng)
        x = inp(n, shape(H, W, C), dt)
        return n.transpose(x, perm)


_transpose("tr_r2", lambda H, W, C: [W, C], [1, 0])
_transpose("tr_r3_hw", lambda H, W, C: [H, W, C], [1, 0, 2])
_transpose("tr_r3_1wc", lambda H, W, C: [1, W, C], [0, 2, 1])
_transpose("tr_r3_h1c", lambda H, W, C: [H, 1, C], [2, 1, 0])
_transpose("tr_r4_hw", lambda H, W, C: [1, H, W, C], [0, 2, 1, 3])
_transpose("tr_r4_11wc", lambda H, W, C: [1, 1, W, C], [0, 1, 3, 2])
_transpose("tr_r4_1h1c", lambda H, W, C: [1, H, 1, C], [0, 3, 2, 1])
_transpose("tr_r4_hw_i16", lambda H, W, C: [1, H, W, C], [0, 2, 1, 3], "INT16")
_transpose("tr_r4_hw_u8", lambda H, W, C: [1, H, W, C], [0, 2, 1, 3], "UINT8")
_transpose("tr_r2_i32", lambda H, W, C: [W, C], [1, 0], "INT32")
_transpose("tr_nchw", lambda H, W, C: [1, H, W, C], [0, 3, 1, 2], cpu=True)        # CPU: unsupported permutation
_transpose("tr_r3_cyc", lambda H, W, C: [H, W, C], [2, 0, 1], cpu=True)
_transpose("tr_identity", lambda H, W, C: [1, H, W, C], [0, 1, 2, 3], cpu=True)


# ----------------------------------------------------------------------------- ARG_MAX
def _argmax(name, dt="INT8", out="INT32", depth=None, axis=None, cpu=False, rank=4):
    @reg(name, cpu)
    def g(n, rng):
        H, W, C = hwc(rng, cs=(3, 8, 21, 40))
        C = depth or C
        shape = [1, H, W, C][4 - rank:]
        x = inp(n, shape, dt)
        return n.argmax(x, axis, out)


_argmax("argmax")                                      # convert_argmax_to_depthwise_conv_and_max_pool
_argmax("argmax_u8_i64", "UINT8", "INT64")
_argmax("argmax_i64", "INT8", "INT64")
_argmax("argmax_c127", depth=127)
_argmax("argmax_c128", depth=128, cpu=True)            # CPU: depth must be <= 127
_argmax("argmax_axis_w", axis=2, cpu=True)             # CPU: only along the depth axis
_argmax("argmax_i16", "INT16", cpu=True)               # CPU: IFM must be int8 / uint8
_argmax("argmax_r2", rank=2)
_argmax("argmax_r3", rank=3)


# ----------------------------------------------------------------------------- pooling
def _pool(name, op, kh, kw, sh, sw, pad, dt="INT8", cpu=False, shape=None, act=0):
    @reg(name, cpu)
    def g(n, rng):
        H, W, C = hwc(rng, hs=(8, 13, 16), ws=(8, 9, 16))
        x = inp(n, shape or [1, H, W, C], dt)
        return n.pool2(x, op, kh, kw, sh, sw, pad, act=act)


for _op, _p in (("AVERAGE_POOL_2D", "avgpool"), ("MAX_POOL_2D", "maxpool")):
    _pool(_p + "_k8s1", _op, 8, 8, 1, 1, "SAME")
    _pool(_p + "_k8s3v", _op, 8, 8, 3, 3, "VALID")
    _pool(_p + "_k5x3", _op, 5, 3, 2, 1, "SAME")
    _pool(_p + "_k3x7v", _op, 3, 7, 1, 3, "VALID")
    _pool(_p + "_k2s2v", _op, 2, 2, 2, 2, "VALID")
    _pool(_p + "_k3s3", _op, 3, 3, 3, 3, "SAME")
    _pool(_p + "_k1", _op, 1, 1, 1, 1, "VALID")
    _pool(_p + "_k4s2", _op, 4, 4, 2, 2, "SAME")
    _pool(_p + "_i16", _op, 3, 3, 2, 2, "SAME", "INT16")
    _pool(_p + "_u8", _op, 3, 3, 1, 1, "SAME", "UINT8")
    _pool(_p + "_relu6", _op, 2, 2, 2, 2, "VALID", act=3)
    _pool(_p + "_global", _op, 8, 8, 8, 8, "VALID", shape=[1, 8, 8, 16])          # fixup_pool_strides: kernel = stride = IFM
    _pool(_p + "_s4", _op, 2, 2, 4, 4, "VALID", cpu=True)                          # CPU: stride > 3
_pool("avgpool_k9", "AVERAGE_POOL_2D", 9, 9, 1, 1, "SAME", cpu=True)              # CPU: SAME average pool kernel > 8
_pool("avgpool_k12v", "AVERAGE_POOL_2D", 12, 12, 1, 1, "VALID", shape=[1, 16, 16, 8])   # VALID: kernel up to 256
_pool("maxpool_k12", "MAX_POOL_2D", 12, 12, 1, 1, "SAME", shape=[1, 16, 16, 8])
_pool("avgpool_w1x4s4", "AVERAGE_POOL_2D", 1, 4, 1, 4, "VALID", shape=[1, 1, 16, 8])    # stride_w > 3 with OFM height 1
_pool("avgpool_tanh", "AVERAGE_POOL_2D", 2, 2, 2, 2, "VALID", act=4)


# ----------------------------------------------------------------------------- convolutions
def _conv(name, cpu=False, dt="INT8", shape=None, oc=(8, 16), **kw):
    @reg(name, cpu)
    def g(n, rng):
        H, W, C = hwc(rng, hs=(8, 13, 16), ws=(8, 9, 16), cs=(3, 8, 16))
        shp = shape(H, W, C) if callable(shape) else (shape or [1, H, W, C])
        x = inp(n, shp, dt)
        return n.conv2(x, rng.choice(oc), oscale={"INT16": 0.002}.get(dt, 0.07), **kw)


_conv("conv_1x7", kh=1, kw=7)
_conv("conv_7x1", kh=7, kw=1)
_conv("conv_3x5_s2x1", kh=3, kw=5, sh=2, sw=1)
_conv("conv_s3", sh=3, sw=3)
_conv("conv_s1x2", sh=1, sw=2)
_conv("conv_s3x1v", sh=3, sw=1, pad="VALID")
_conv("conv_dil1x2", dh=1, dw=2)
_conv("conv_dil2x1v", dh=2, dw=1, pad="VALID")
_conv("conv_dil3", dh=3, dw=3, shape=[1, 16, 16, 8])                        # fixup_dilation_gt2 (odd)
_conv("conv_dil4", dh=4, dw=4, shape=[1, 20, 20, 8])                        # fixup_dilation_gt2 (even: hardware dilation 2)
_conv("conv_dil4x3", dh=4, dw=3, shape=[1, 20, 20, 8])
_conv("conv_k9", kh=9, kw=9, shape=[1, 16, 16, 8])
_conv("conv_k7s2", kh=7, kw=7, sh=2, sw=2, shape=[1, 16, 16, 3])
_conv("conv_k1x33", kh=1, kw=33, shape=[1, 4, 40, 8], pad="VALID")
_conv("conv_k64x1", kh=64, kw=1, shape=[1, 70, 4, 8], pad="VALID")          # dilated kernel height limit 64
_conv("conv_k65x1", kh=65, kw=1, shape=[1, 70, 4, 8], pad="VALID", cpu=True)     # CPU: dilated kernel height > 64
_conv("conv_k16", kh=16, kw=16, shape=[1, 16, 16, 4])
_conv("conv_sw4", kh=1, kw=4, sh=1, sw=4, shape=[1, 1, 32, 8], pad="VALID")      # fixup_strided_conv: stride_w 4 -> reshape
_conv("conv_sw6", kh=1, kw=6, sh=1, sw=6, shape=[1, 1, 36, 8], pad="VALID")
_conv("conv_sw2_first", kh=1, kw=2, sh=1, sw=2, shape=[1, 1, 32, 8], pad="VALID")   # stride optimisation on the first op
_conv("conv_s4", kh=3, kw=3, sh=4, sw=4, cpu=True)                                # CPU: stride 4 with OFM height > 1
_conv("conv_groups2", groups=2, shape=lambda H, W, C: [1, H, W, 16], oc=(8, 16))  # convert_conv_groups
_conv("conv_groups4", groups=4, shape=lambda H, W, C: [1, H, W, 32], oc=(8, 32), kh=1, kw=1)
_conv("conv_nobias", bias=False)
_conv("conv_pertensor", per_channel=False)
_conv("conv_u8", dt="UINT8", per_channel=False, ozp=120)
_conv("conv_i16_k5", dt="INT16", kh=5, kw=5)
_conv("conv_i16_s2", dt="INT16", sh=2, sw=2)
_conv("conv_relu", act=1)
_conv("conv_relun1", act=2)
_conv("conv_relu6", act=3)
_conv("conv_tanh", act=4)
_conv("conv_signbit", act=5, cpu=True)                                              # CPU: fused SIGN_BIT
_conv("conv_1x1_as_fc", kh=1, kw=1, shape=lambda H, W, C: [1, 1, 1, 64], oc=(16, 32))    # convert_conv_to_fc
_conv("conv_valid_k5s2", kh=5, kw=5, sh=2, sw=2, pad="VALID")
_conv("conv_i16_relu", dt="INT16", act=1)


@reg("conv_dynweights", cpu=True)
def _conv_dynw(n, rng):
    """CPU: weight tensor must be constant"""
    H, W, C = hwc(rng, cs=(8,))
    x = inp(n, [1, H, W, C])
    w = n.fm("w", [8, 1, 1, C], "INT8", 0.01, 0, is_input=True)
    b = n.const("b", [8], "INT32", -100, 100, scale=[0.0005], zp=[0])
    y = n.fm("conv", [1, H, W, 8], "INT8", 0.07, -5)
    n.op("CONV_2D", [x, w, b], [y], ["Conv2DOptions", {"Padding": 0, "StrideW": 1, "StrideH": 1, "DilationWFactor": 1,
                                                      "DilationHFactor": 1, "FusedActivationFunction": 0}])
    return y


def _dw(name, cpu=False, dt="INT8", shape=None, **kw):
    @reg(name, cpu)
    def g(n, rng):
        H, W, C = hwc(rng, hs=(8, 13, 16), ws=(8, 9, 16), cs=(3, 8, 16))
        shp = shape(H, W, C) if callable(shape) else (shape or [1, H, W, C])
        x = inp(n, shp, dt)
        return n.dwconv2(x, **kw)


_dw("dw_mult8", shape=lambda H, W, C: [1, H, W, 1], mult=8)                  # depth multiplier with one IFM channel
_dw("dw_mult3_k5", shape=lambda H, W, C: [1, H, W, 1], mult=3, kh=5, kw=5)
_dw("dw_mult2_c2", shape=lambda H, W, C: [1, H, W, 2], mult=2, cpu=True)      # CPU: multiplier > 1 needs IFM depth 1
_dw("dw_k5", kh=5, kw=5)
_dw("dw_1x7", kh=1, kw=7)
_dw("dw_7x1v", kh=7, kw=1, pad="VALID")
_dw("dw_dil2", dh=2, dw=2)
_dw("dw_dil3", dh=3, dw=3, shape=[1, 16, 16, 8])                              # fixup_dilation_gt2 on depthwise
_dw("dw_s3", sh=3, sw=3)
_dw("dw_s2x1", sh=2, sw=1)
_dw("dw_s4", sh=4, sw=4, cpu=True)                                            # CPU: strides must be 1..3
_dw("dw_i16", dt="INT16")
_dw("dw_u8", dt="UINT8")
_dw("dw_relu6", act=3)
_dw("dw_k8", kh=8, kw=8, shape=[1, 16, 16, 8])


def _fc(name, shape, oc=(10, 16, 40), cpu=False, dt="INT8", **kw):
    @reg(name, cpu)
    def g(n, rng):
        H, W, C = hwc(rng, cs=(16, 24, 64))
        x = inp(n, shape(H, W, C), dt)
        return n.fc2(x, rng.choice(oc), oscale={"INT16": 0.002}.get(dt, 0.1), **kw)


_fc("fc_batch2", lambda H, W, C: [2, C])                  # convert_batched_fc_shape
_fc("fc_batch4", lambda H, W, C: [4, C])
_fc("fc_batch6", lambda H, W, C: [6, C])
_fc("fc_batch8", lambda H, W, C: [8, C])
_fc("fc_batch9", lambda H, W, C: [9, C])
_fc("fc_keep2d", lambda H, W, C: [1, C], keep_num_dims=True)
_fc("fc_keep2d_batch", lambda H, W, C: [4, C], keep_num_dims=True)
_fc("fc_keep_r3", lambda H, W, C: [1, 4, C], keep_num_dims=True)                    # rank-3 in and out: viewed as 2-D
_fc("fc_r4_in", lambda H, W, C: [1, 1, 4, C])                                       # rank-4 input, 2-D output (rewrite_fully_connected_input)
_fc("fc_r3_in", lambda H, W, C: [1, 1, C * 2])
_fc("fc_nobias", lambda H, W, C: [1, C], bias=False)
_fc("fc_i16", lambda H, W, C: [1, C], dt="INT16")
_fc("fc_u8", lambda H, W, C: [1, C], dt="UINT8")
_fc("fc_relu", lambda H, W, C: [1, C], act=1)
_fc("fc_tanh_batch", lambda H, W, C: [4, C], act=4)
_fc("fc_wide", lambda H, W, C: [1, 256], oc=(96, 130))


def _tconv(name, cpu=False, shape=None, **kw):
    @reg(name, cpu)
    def g(n, rng):
        H, W, C = hwc(rng, hs=(4, 7, 8), ws=(4, 8, 9), cs=(3, 8, 16))
        x = inp(n, shape or [1, H, W, C])
        return n.tconv2(x, rng.choice([8, 16]), **kw)


_tconv("tconv_s1", sh=1, sw=1)
_tconv("tconv_s1_valid", sh=1, sw=1, pad="VALID")
_tconv("tconv_valid", pad="VALID")
_tconv("tconv_k2", kh=2, kw=2)
_tconv("tconv_k2_valid", kh=2, kw=2, pad="VALID")
_tconv("tconv_k4", kh=4, kw=4)
_tconv("tconv_k5_valid", kh=5, kw=5, pad="VALID")
_tconv("tconv_k3x5", kh=3, kw=5)
_tconv("tconv_w2x1", kh=1, kw=3, sh=1, sw=2, shape=[1, 1, 12, 8])               # stride 2x1 with IFM height 1 and kernel height 1
_tconv("tconv_w2x1_valid", kh=1, kw=4, sh=1, sw=2, shape=[1, 1, 9, 8], pad="VALID")
_tconv("tconv_nobias", bias=False)
_tconv("tconv_s3", sh=3, sw=3, cpu=True)                                          # CPU: stride must be 1x1 or 2x2
_tconv("tconv_s2x1_h", sh=1, sw=2, cpu=True)                                      # CPU: 2x1 only with IFM height 1


@reg("tconv_bad_oshape", cpu=True)
def _tconv_bad(n, rng):
    """CPU: SAME padding needs OFM = IFM * stride"""
    H, W, C = hwc(rng, hs=(4, 7), ws=(4, 8), cs=(8,))
    x = inp(n, [1, H, W, C])
    y = n.tconv2(x, 8)
    n.t[y]["shape"][1] -= 1
    osz = n.o[-1]["inputs"][0]
    n.t[osz]["data"][1] -= 1
    return y


# ----------------------------------------------------------------------------- resize
def _resize(name, kind_, f, align=False, half=False, cpu=False, dt="INT8", shape=None):
    """f: (h, w) -> (oh, ow)"""
    @reg(name, cpu)
    def g(n, rng):
        H, W, C = hwc(rng, hs=(2, 4, 5), ws=(3, 4, 6), cs=(3, 8, 16))
        x = inp(n, shape or [1, H, W, C], dt)
        h, w = n.shape(x)[1:3]
        oh, ow = f(h, w)
        return n.resize2(x, oh, ow, kind_, align, half)


RB, NN = "RESIZE_BILINEAR", "RESIZE_NEAREST_NEIGHBOR"
for _k, _p in ((RB, "rb"), (NN, "nn")):
    _resize(_p + "_x4", _k, lambda h, w: (4 * h, 4 * w))
    _resize(_p + "_x8", _k, lambda h, w: (8 * h, 8 * w))
    _resize(_p + "_ac_x2", _k, lambda h, w: (2 * h - 1, 2 * w - 1), align=True)
    _resize(_p + "_ac_x4", _k, lambda h, w: (4 * h - 3, 4 * w - 3), align=True)
    _resize(_p + "_ac_x8", _k, lambda h, w: (8 * h - 7, 8 * w - 7), align=True)
    _resize(_p + "_1x1", _k, lambda h, w: (5, 7), shape=[1, 1, 1, 16])             # convert_resize_1x1_to_add
    _resize(_p + "_same", _k, lambda h, w: (h, w))                                  # IFM == OFM
    _resize(_p + "_x1_5", _k, lambda h, w: (3 * h // 2, 3 * w // 2), cpu=True, shape=[1, 4, 6, 8])   # CPU: non-integer factor
    _resize(_p + "_uneq", _k, lambda h, w: (2 * h, 4 * w), cpu=True)               # CPU: unequal scaling
    _resize(_p + "_x3", _k, lambda h, w: (3 * h, 3 * w), cpu=True)                 # CPU: factor 3
    _resize(_p + "_ac_hp", _k, lambda h, w: (2 * h, 2 * w), align=True, half=True, cpu=True)   # CPU: both attributes
    _resize(_p + "_u8", _k, lambda h, w: (2 * h, 2 * w), dt="UINT8")
    _resize(_p + "_i16", _k, lambda h, w: (2 * h, 2 * w), dt="INT16")
_resize("rb_hp_x2", RB, lambda h, w: (2 * h, 2 * w), half=True)                     # convert_resizebilinear_to_depthwise_convolutions
_resize("rb_hp_x4", RB, lambda h, w: (4 * h, 4 * w), half=True, cpu=True)           # CPU: half pixel only 2x
_resize("rb_hp_1x1", RB, lambda h, w: (4, 4), half=True, shape=[1, 1, 1, 8])
_resize("nn_hp_x2", NN, lambda h, w: (2 * h, 2 * w), half=True)
_resize("nn_hp_x4", NN, lambda h, w: (4 * h, 4 * w), half=True)
_resize("rb_ac_x2_h1", RB, lambda h, w: (1, 2 * w - 1), align=True, shape=[1, 1, 6, 8])
_resize("nn_ac_x2_c1", NN, lambda h, w: (2 * h - 1, 2 * w - 1), align=True, shape=[1, 4, 5, 1])    # convert_resizenn_ac_to_depthwise_conv


@reg("rb_bad_size", cpu=True)
def _rb_bad(n, rng):
    """CPU: size tensor must match the output shape"""
    x = inp(n, [1, 4, 4, 8])
    y = n.resize2(x, 8, 8)
    n.t[n.o[-1]["inputs"][1]]["data"] = [16, 16]
    return y


# ----------------------------------------------------------------------------- MEAN
def _mean(name, shape, axes, keep=True, cpu=False, dt="INT8", oscale=None, ozp=None):
    @reg(name, cpu)
    def g(n, rng):
        H, W, C = hwc(rng)
        x = inp(n, shape(H, W, C) if callable(shape) else shape, dt)
        return n.mean2(x, axes, keep, oscale=oscale, ozp=ozp)


_mean("mean_h", F, [1])
_mean("mean_w", F, [2])
_mean("mean_hw_nokeep", F, [1, 2], keep=False)
_mean("mean_h_nokeep", F, [1], keep=False)
_mean("mean_w_nokeep", F, [2], keep=False)
_mean("mean_wh_order", F, [2, 1])
_mean("mean_c_w1", lambda H, W, C: [1, H, 1, C], [3])                          # depth axis, W = 1
_mean("mean_c_h1", lambda H, W, C: [1, 1, W, C], [3])                          # depth axis, H = 1
_mean("mean_c_h1_nokeep", lambda H, W, C: [1, 1, W, C], [3], keep=False)
_mean("mean_wc_h1", lambda H, W, C: [1, 1, W, C], [2, 3])
_mean("mean_c_bad", F, [3], cpu=True)                                           # CPU: depth axis needs one of H, W, C = 1
_mean("mean_r2_ax0", lambda H, W, C: [W, C], [0])
_mean("mean_r2_ax1", lambda H, W, C: [W, C], [1])
_mean("mean_r2_both", lambda H, W, C: [W, C], [0, 1])
_mean("mean_r2_ax1_nokeep", lambda H, W, C: [W, C], [1], keep=False)
_mean("mean_r3_h", lambda H, W, C: [H, W, C], [0])
_mean("mean_r3_hw", lambda H, W, C: [H, W, C], [0, 1])
_mean("mean_r3_w_nokeep", lambda H, W, C: [H, W, C], [1], keep=False)
_mean("mean_r3_c", lambda H, W, C: [1, W, C], [2])
_mean("mean_r1", lambda H, W, C: [C], [0], cpu=True)                            # CPU: at least 2-D
_mean("mean_batch_axis", F, [0])                                                # batch axis of size 1: memory copy
_mean("mean_batch_hw", F, [0, 1, 2])
_mean("mean_nop", lambda H, W, C: [1, 1, 1, C], [1, 2])                         # all reduced axes have extent 1: memcpy
_mean("mean_batch2", lambda H, W, C: [2, H, W, C], [1, 2], cpu=True)            # CPU: batch must be 1
_mean("mean_hw_tall", [1, 80, 4, 8], [1, 2])                                    # h > 64, h*w <= 4096: reshaped to 1 x (h*w)
_mean("mean_h_tall", [1, 150, 3, 8], [1])                                       # h > 64, only H reduced: 3 convolutions + adds
_mean("mean_hw_huge", [1, 80, 64, 4], [1, 2])                                   # h*w > 4096: split into several convolutions
_mean("mean_w_wide", [1, 2, 300, 8], [2])
_mean("mean_u8", F, [1, 2], dt="UINT8")
_mean("mean_i16", F, [1, 2], dt="INT16")
_mean("mean_i16_h", F, [1], dt="INT16", keep=False)
_mean("mean_rescale", F, [1, 2], oscale=0.02, ozp=-7)


# ----------------------------------------------------------------------------- QUANTIZE / mixed precision
def _quant(name, dt, odt, oscale, ozp, cpu=False, iscale=None, izp=None):
    @reg(name, cpu)
    def g(n, rng):
        H, W, C = hwc(rng)
        x = inp(n, [1, H, W, C], dt, scale=iscale, zp=izp)
        return n.quantize(x, odt, oscale, ozp)


_quant("q_i16_i8", "INT16", "INT8", 0.008, -3)
_quant("q_i8_i16", "INT8", "INT16", 0.002, 0)
_quant("q_i8_u8", "INT8", "UINT8", 0.05, 128)
_quant("q_u8_i8", "UINT8", "INT8", 0.05, 0)
_quant("q_u8_u8", "UINT8", "UINT8", 0.1, 100)
_quant("q_i16_i16", "INT16", "INT16", 0.003, 0)
_quant("q_u8_i16", "UINT8", "INT16", 0.002, 0)
_quant("q_i8_i32", "INT8", "INT32", 0.001, 0, cpu=True)


@reg("q_const")
def _q_const(n, rng):
    """QUANTIZE of a constant is folded at compile time (optimise_quantize)"""
    H, W, C = hwc(rng)
    x = inp(n, [1, H, W, C])
    c = n.const("c", [1, 1, 1, C], "INT8", -100, 100, scale=[0.02], zp=[1])
    q = n.quantize(c, "INT8", 0.04, -2)
    return n.binary("ADD", x, q)


# ----------------------------------------------------------------------------- PAD variants
def _padk(name, pads, cpu=False, then="conv", dt="INT8", ptype="INT32", rank=4):
    @reg(name, cpu)
    def g(n, rng):
        H, W, C = hwc(rng)
        x = inp(n, [1, H, W, C][4 - rank:], dt)
        y = n.pad2(x, pads, dt=ptype)
        if then == "conv":
            return n.conv(y, 8, pad="VALID")
        if then == "dw":
            return n.dwconv(y, 3, pad="VALID")
        if then == "maxpool":
            return n.pool(y, "MAX_POOL_2D", k=3, stride=1, pad="VALID")
        if then == "avgpool":
            return n.pool(y, "AVERAGE_POOL_2D", k=3, stride=1, pad="VALID")
        return y


_padk("pad_alone", [[0, 0], [1, 2], [2, 1], [0, 0]], then=None)                # convert_pad: copy + border fills
_padk("pad_alone_top", [[0, 0], [3, 0], [0, 0], [0, 0]], then=None)
_padk("pad_dw", [[0, 0], [1, 1], [1, 1], [0, 0]], then="dw")                   # replace_pad_by_hw_pad
_padk("pad_maxpool", [[0, 0], [1, 1], [1, 1], [0, 0]], then="maxpool")
_padk("pad_avgpool", [[0, 0], [1, 1], [1, 1], [0, 0]], then="avgpool")
_padk("pad_asym_conv", [[0, 0], [0, 2], [0, 2], [0, 0]])
_padk("pad_big_conv", [[0, 0], [4, 4], [5, 5], [0, 0]])                        # more padding than the kernel can absorb
_padk("pad_i64", [[0, 0], [1, 1], [1, 1], [0, 0]], ptype="INT64")
_padk("pad_r3", [[1, 1], [2, 2], [0, 0]], then=None, rank=3)                   # [3,2] padding tensor
_padk("pad_channel", [[0, 0], [0, 0], [0, 0], [2, 3]], then=None)              # channel padding
_padk("pad_batch", [[1, 0], [0, 0], [0, 0], [0, 0]], then=None)      # batch padding: documented as CPU, this fork places it on the NPU
_padk("pad_u8", [[0, 0], [1, 1], [1, 1], [0, 0]], then=None, dt="UINT8")
_padk("pad_i16_conv", [[0, 0], [1, 1], [1, 1], [0, 0]], dt="INT16")


_padk("pad_r3_h", [[1, 2], [0, 0], [0, 0]], then=None, rank=3)                 # first dimension only: convert_pad_to_concat
_padk("pad_r3_w", [[0, 0], [1, 2], [0, 0]], then=None, rank=3)                 # convert_pad on a rank-3 tensor
_padk("pad_hw_channel", [[0, 0], [1, 1], [1, 1], [0, 2]], then=None)           # channel and spatial padding together


@reg("pad_huge")
def _pad_huge(n, rng):
    """padding larger than a sub-pad can handle (split_pad_to_sub_pad)"""
    x = inp(n, [1, 4, 4, 8])
    return n.pad2(x, [[0, 0], [20, 20], [1, 1], [0, 0]])


# ----------------------------------------------------------------------------- LSTM
def _lstm(name, batch, time, time_major=False, clip=0.0, cpu=False, dt="INT8"):
    @reg(name, cpu)
    def g(n, rng):
        nf, nc = rng.choice([8, 16]), rng.choice([8, 12])
        shape = [time, batch, nf] if time_major else [batch, time, nf]
        x = inp(n, shape, dt, scale=1 / 128 if dt == "INT8" else None)
        return n.lstm(x, nc, time_major, clip)


_lstm("lstm", 1, 3)                                    # Lstm(op).get_graph(): unrolled into FC / add / mul / LUT steps
_lstm("lstm_batch2", 2, 2)
_lstm("lstm_time_major", 2, 2, time_major=True)
_lstm("lstm_clip", 1, 2, clip=4.0)
_lstm("lstm_t1", 1, 1)


@reg("lstm_peephole", cpu=True)
def _lstm_peep(n, rng):
    """CPU: peephole connections unsupported"""
    x = inp(n, [1, 2, 8], scale=1 / 128)
    y = n.lstm(x, 8)
    for i in (9, 10, 11):
        n.o[-1]["inputs"][i] = n.const("peep%d" % i, [8], "INT16", -100, 100, scale=[0.001], zp=[0])
    return y


# ----------------------------------------------------------------------------- CPU fall-backs next to NPU operators
def _cpu_between(name, mk):
    @reg(name, cpu=True)
    def g(n, rng):
        H, W, C = hwc(rng, hs=(4, 8), ws=(4, 8), cs=(8, 16))
        x = inp(n, [1, H, W, C])
        a = n.conv(x, C, k=rng.choice([1, 3]))
        b = mk(n, a, rng)
        return n.conv(b, 8, k=1)


_cpu_between("cpu_mirror_pad", lambda n, a, rng: n.pad2(a, [[0, 0], [1, 1], [1, 1], [0, 0]], kind="MIRROR_PAD"))
_cpu_between("cpu_custom", lambda n, a, rng: n.cpu_op(a, "CUSTOM"))
_cpu_between("cpu_l2norm", lambda n, a, rng: n.cpu_op(a, "L2_NORMALIZATION"))
_cpu_between("cpu_neg", lambda n, a, rng: n.cpu_op(a, "NEG"))
_cpu_between("cpu_relu0to1", lambda n, a, rng: n.cpu_op(a, "RELU_0_TO_1"))
_cpu_between("cpu_sslice_stride2", lambda n, a, rng: n.strided_slice(a, [0, 0, 0, 0], list(n.shape(a)), strides=[1, 2, 1, 1]))
_cpu_between("cpu_transpose_nchw", lambda n, a, rng: n.reshape(n.transpose(a, [0, 3, 1, 2]), list(n.shape(a))))


@reg("argmax_tail")
def _argmax_tail(n, rng):
    """ARG_MAX at the end of a network (int32 output of an NPU subgraph) next to an ARG_MAX that stays on the CPU"""
    H, W, C = hwc(rng, hs=(4, 8), ws=(4, 8), cs=(8, 16))
    x = inp(n, [1, H, W, C])
    a = n.conv(x, C, 3)
    return [n.argmax(n.conv(a, rng.choice([5, 21]), 1)), n.argmax(a, 1)]


@reg("fc_keep_mismatch", cpu=True)
def _fc_keep_mismatch(n, rng):
    """CPU: keep_num_dims needs IFM and OFM of the same rank"""
    x = inp(n, [1, 4, 16])
    y = n.fc2(x, 10)
    n.o[-1]["opts"][1]["KeepNumDims"] = True
    return y


@reg("cpu_custom_two_inputs", cpu=True)
def _cpu_custom2(n, rng):
    """third-party CUSTOM operator with two NPU-produced inputs and two outputs, both consumed by NPU operators"""
    H, W, C = hwc(rng, hs=(4, 8), ws=(4, 8), cs=(8, 16))
    x = inp(n, [1, H, W, C])
    a = n.conv(x, C, k=1)
    b = n.pool(x, "MAX_POOL_2D", k=3, stride=1)
    o1, o2 = n.like(a, "cust_o1"), n.like(a, "cust_o2")
    n.op("CUSTOM", [a, b], [o1, o2], custom_code="ThirdPartyPair", custom_options=[7, 7])
    return [n.eltwise("ADD", o1, o2), n.unary("ABS", o2)]


# ----------------------------------------------------------------------------- LUT operators and rewrites specific to this fork
_unary("log", "LOG", iscale=0.05, izp=-128, oscale=0.05, ozp=10)                 # convert_ops_to_lut: log table
_unary("log_i16", "LOG", "INT16", iscale=0.001, oscale=0.0005, ozp=0)
_unary("sqrt", "SQRT", iscale=0.05, izp=-128, oscale=0.02, ozp=-128)
_unary("sqrt_i16", "SQRT", "INT16", iscale=0.001, oscale=0.0005, ozp=0)
_unary("log_u8", "LOG", "UINT8", cpu=True)


def _gelu(name, dt="INT8", approx=False, cpu=False):
    @reg(name, cpu)
    def g(n, rng):
        H, W, C = hwc(rng)
        x = inp(n, [1, H, W, C], dt)
        y = n.like(x, "gelu", scale={"INT16": 0.001}.get(dt, 0.04), zp={"INT8": -100}.get(dt, 0))
        n.op("GELU", [x], [y], ["GeluOptions", {"Approximate": bool(approx)}])
        return y


_gelu("gelu")
_gelu("gelu_approx", approx=True)
_gelu("gelu_i16", "INT16")


def _deq_lut_q(name, op):
    @reg(name)
    def g(n, rng):
        """DEQUANTIZE -> float EXP / LOG -> QUANTIZE is merged into one quantised LUT operator (merge_dequant_lut_quant)"""
        H, W, C = hwc(rng)
        x = inp(n, [1, H, W, C], scale=0.05, zp=-128 if op == "LOG" else 0)
        f1 = n.fm("deq", [1, H, W, C], "FLOAT32", None)
        n.op("DEQUANTIZE", [x], [f1], ["DequantizeOptions", {}])
        f2 = n.fm("flt", [1, H, W, C], "FLOAT32", None)
        n.op(op, [f1], [f2], ["ExpOptions", {}] if op == "EXP" else None)
        y = n.fm("q", [1, H, W, C], "INT8", 0.2 if op == "EXP" else 0.05, -128 if op == "EXP" else 10)
        n.op("QUANTIZE", [f2], [y])
        return y


_deq_lut_q("deq_exp_q", "EXP")
_deq_lut_q("deq_log_q", "LOG")


def _s2b(name, dw=False, block=2):
    @reg(name)
    def g(n, rng):
        """SPACE_TO_BATCH_ND -> CONV_2D / DEPTHWISE_CONV_2D (VALID) -> BATCH_TO_SPACE_ND = dilated convolution
        (replace_dilated_convolution)"""
        H, W, C = rng.choice([8, 12]), rng.choice([8, 12]), rng.choice([8, 16])
        x = inp(n, [1, H, W, C])
        b = block
        bs = n.i32("block", [b, b])
        pads = n.const("pads", [2, 2], "INT32", data=[b, b, b, b])
        s = n.like(x, "s2b", [b * b, (H + 2 * b) // b, (W + 2 * b) // b, C])
        n.op("SPACE_TO_BATCH_ND", [x, bs, pads], [s], ["SpaceToBatchNDOptions", {}])
        c = n.dwconv(s, 3, pad="VALID") if dw else n.conv(s, 8, 3, pad="VALID")
        bs2 = n.i32("block2", [b, b])
        crops = n.const("crops", [2, 2], "INT32", data=[0, 0, 0, 0])
        y = n.like(c, "b2s", [1, H, W, n.shape(c)[3]])
        n.op("BATCH_TO_SPACE_ND", [c, bs2, crops], [y], ["BatchToSpaceNDOptions", {}])
        return y


_s2b("s2b_conv_b2s")
_s2b("s2b_dw_b2s", dw=True)


# ============================================================================= multi-operator families
def f_memonly(rng, seed, style=None):
    """memory-only / shape-changing operators between NPU operators (bypass_memory_only_ops, split/concat offsets)"""
    n = Net(seed)
    H, W, C = rng.choice([4, 8]), rng.choice([4, 8]), rng.choice([8, 16, 24])
    x = n.fm("in", [1, H, W, C], is_input=True)
    a = n.conv(x, C, rng.choice([1, 3]))
    style = pick_style(rng, "memonly", ["reshape", "squeeze_expand", "slice", "sslice", "transpose", "unpack_pack", "split_v_concat",
                                        "concat_h", "reshape_chain", "io_memonly", "sslice_shrink", "transpose_mid", "slice_fanout"], style)
    if style == "reshape":
        b = n.reshape(a, [1, H * W, 1, C])
        outs = [n.conv(b, 8, 1)]
    elif style == "squeeze_expand":
        p = n.pool2(a, "AVERAGE_POOL_2D", H, W, 1, 1, "VALID")      # [1,1,1,C]
        s = n.squeeze(p, [1, 2])                                    # [1,C]
        f = n.fc2(s, 16)
        e = n.expand_dims(n.expand_dims(f, 1), 1)                   # [1,1,1,16]
        outs = [n.conv(e, 8, 1)]
    elif style == "slice":
        b = n.slice(a, [0, 1, 1, 0], [1, H - 2, W - 1, C])
        outs = [n.conv(b, 8, 3)]
    elif style == "sslice":
        b = n.strided_slice(a, [0, 0, 1, 4], [1, H, W, C], end_mask=0b0010)
        outs = [n.dwconv(b, 3)]
    elif style == "sslice_shrink":
        b = n.strided_slice(a, [0, 1, 0, 0], [1, 2, W, C], shrink=0b0010)    # [1, W, C]
        c = n.expand_dims(b, 1)
        outs = [n.conv(c, 8, 1)]
    elif style == "transpose":
        b = n.transpose(a, [0, 2, 1, 3])
        outs = [n.conv(b, 8, 3)]
    elif style == "transpose_mid":
        b = n.transpose(n.unary("ABS", a), [0, 2, 1, 3])
        outs = [n.eltwise("ADD", b, n.transpose(a, [0, 2, 1, 3])), a]
    elif style == "unpack_pack":
        us = n.unpack(n.reshape(a, [2, H // 2, W, C]), 0)            # 2 x [H/2, W, C]
        us = [n.unary("ABS", us[0]), us[1]]
        p = n.pack(us, 0)                                            # [2, H/2, W, C]
        outs = [n.conv(n.reshape(p, [1, H, W, C]), 8, 1)]
    elif style == "split_v_concat":
        ys = n.split_v(a, [C // 4, -1], 3)
        ys = [n.conv(ys[0], 8, 1), n.dwconv(ys[1], 3)]
        outs = [n.conv(n.concat2(ys[::-1], 3), 8, 1)]
    elif style == "concat_h":
        b = n.conv(x, C, 1)
        c = n.concat2([a, b, a], rng.choice([1, 2]))
        outs = [n.conv(c, 8, 3)]
    elif style == "reshape_chain":
        b = n.reshape(n.reshape(a, [1, H * W * C]), [1, W, H, C])
        outs = [n.conv(b, 8, 1), n.reshape(a, [H * W, C])]
    elif style == "slice_fanout":
        b = n.slice(a, [0, 0, 0, 0], [1, H // 2, W, C])
        c = n.slice(a, [0, H // 2, 0, 0], [1, H // 2, W, C])
        outs = [n.eltwise("ADD", b, c), n.unary("ABS", a)]
    else:                                                            # memory-only operators directly on graph inputs / outputs
        r = n.reshape(x, [1, W, H, C])
        outs = [n.squeeze(n.reshape(n.conv(r, 8, 1), [1, 1, W * H, 8]), [1]), r]
    return "memonly:" + style, n.desc(outs)


def f_precision(rng, seed, style=None):
    """mixed precision chains: QUANTIZE between int8 / int16 / uint8 sections"""
    n = Net(seed)
    H, W, C = rng.choice([4, 8]), rng.choice([4, 8]), rng.choice([8, 16])
    style = pick_style(rng, "precision", ["i8_i16_i8", "i16_i8", "i8_u8", "u8_i8_conv", "i16_pool_mean", "i8_i16_softmax",
                                          "requant_chain"], style)
    if style == "i8_i16_i8":
        x = n.fm("in", [1, H, W, C], is_input=True)
        a = n.conv(x, C, 3)
        q = n.quantize(a, "INT16", 1 / 4096, 0)
        t = n.act_op(rng.choice(["TANH", "LOGISTIC"]), q, oscale=1 / 32768, ozp=0)
        b = n.quantize(t, "INT8", 1 / 128, 0)
        outs = [n.conv(b, 8, 1)]
    elif style == "i16_i8":
        x = n.fm("in", [1, H, W, C], "INT16", 0.001, 0, is_input=True)
        a = n.conv(x, C, 3, oscale=0.002)
        b = n.quantize(a, "INT8", 0.05, -3)
        outs = [n.pool(b, "MAX_POOL_2D")]
    elif style == "i8_u8":
        x = n.fm("in", [1, H, W, C], is_input=True)
        a = n.conv(x, C, 1)
        b = n.quantize(a, "UINT8", 0.07, 123)
        outs = [n.pool(b, "AVERAGE_POOL_2D", k=2, stride=1)]
    elif style == "u8_i8_conv":
        x = n.fm("in", [1, H, W, C], "UINT8", 0.05, 128, is_input=True)
        b = n.quantize(x, "INT8", 0.05, 0)
        outs = [n.conv(b, 8, 3)]
    elif style == "i16_pool_mean":
        x = n.fm("in", [1, H, W, C], "INT16", 0.001, 0, is_input=True)
        a = n.pool2(x, "MAX_POOL_2D", 3, 3, 1, 1)
        b = n.pool2(a, "AVERAGE_POOL_2D", 2, 2, 2, 2)
        outs = [n.mean2(b, [1, 2])]
    elif style == "i8_i16_softmax":
        x = n.fm("in", [1, C * 2], is_input=True)
        a = n.fc2(x, 20)
        q = n.quantize(a, "INT16", 0.0005, 0)
        outs = [n.act_op("SOFTMAX", q, oscale=1 / 32768, ozp=0)]
    else:
        x = n.fm("in", [1, H, W, C], is_input=True)
        a = n.quantize(x, "INT8", 0.1, 5)
        b = n.quantize(a, "INT8", 0.025, -9)
        outs = [n.eltwise("ADD", b, n.conv(x, C, 1, oscale=0.025, ozp=-9))]
    return "precision:" + style, n.desc(outs)


def f_fusedact(rng, seed):
    """fused activation functions and stand-alone activation operators behind every kind of producer"""
    n = Net(seed)
    H, W, C = rng.choice([4, 8]), rng.choice([4, 8]), rng.choice([8, 16])
    x = n.fm("in", [1, H, W, C], is_input=True)
    prod = rng.choice(["conv", "dw", "maxpool", "avgpool", "add", "mul", "fc", "tconv", "resize"])
    fused = rng.choice([0, 0, 1, 2, 3])
    if prod == "conv":
        a = n.conv(x, C, 3, act=fused)
    elif prod == "dw":
        a = n.dwconv(x, 3, act=fused)
    elif prod in ("maxpool", "avgpool"):
        a = n.pool(x, "MAX_POOL_2D" if prod == "maxpool" else "AVERAGE_POOL_2D", k=3, stride=1, act=fused)
    elif prod in ("add", "mul"):
        x2 = n.fm("in2", [1, H, W, C], scale=0.03, zp=2, is_input=True)
        a = n.eltwise(prod.upper(), x, x2, act=fused)
    elif prod == "fc":
        a = n.fc2(n.reshape(x, [1, H * W * C]), 32, act=fused)
    elif prod == "tconv":
        a = n.tconv(x, C)
    else:
        a = n.resize(x)
    post = rng.choice(["RELU", "RELU6", "RELU_N1_TO_1", "TANH", "LOGISTIC", "HARD_SWISH", "LEAKY_RELU", "PRELU", "RELU_0_TO_1"])
    if post == "PRELU":
        b = n.prelu(a, alphas=[rng.randint(1, 60) for _ in range(n.shape(a)[-1])], ashape=[n.shape(a)[-1]])
    else:
        b = n.unary(post, a)
    outs = [b] if rng.random() < 0.6 else [b, a]            # second form: the producer's output is also observed
    return "fusedact:%s%d-%s" % (prod, fused, post), n.desc(outs)


def f_fallback(rng, seed, style=None):
    """operators just outside the documented constraints (and third-party custom operators) between NPU operators"""
    n = Net(seed)
    H, W, C = rng.choice([4, 8]), rng.choice([4, 8]), rng.choice([8, 16])
    x = n.fm("in", [1, H, W, C], is_input=True)
    a = n.conv(x, C, 3)
    style = pick_style(rng, "fallback", ["mirror_pad", "custom_mid", "resize_x3", "tr_nchw", "sslice_stride2", "dw_mult_bad",
                                         "avgpool_k9", "mean_c_bad", "hardswish_i16", "custom_par", "softmax_negbeta", "batch_add",
                                         "prelu_custom"], style)
    if style == "mirror_pad":
        b = n.pad2(a, [[0, 0], [1, 1], [1, 1], [0, 0]], kind="MIRROR_PAD")
    elif style == "custom_mid":
        b = n.cpu_op(a, "CUSTOM")
    elif style == "resize_x3":
        b = n.resize2(a, 3 * H, 3 * W)
    elif style == "tr_nchw":
        b = n.reshape(n.transpose(a, [0, 3, 1, 2]), [1, H, W, C])
    elif style == "sslice_stride2":
        b = n.strided_slice(a, [0, 0, 0, 0], [1, H, W, C], strides=[1, 2, 2, 1])
    elif style == "dw_mult_bad":
        b = n.dwconv2(a, mult=2)
    elif style == "avgpool_k9":
        b = n.pool2(a, "AVERAGE_POOL_2D", 9, 9, 1, 1, "SAME")
    elif style == "mean_c_bad":
        b = n.mean2(a, [3])
    elif style == "hardswish_i16":
        q = n.quantize(a, "INT16", 0.002, 0)
        b = n.quantize(n.act_op("HARD_SWISH", q), "INT8", 0.05, 0)
    elif style == "softmax_negbeta":
        b = n.act_op("SOFTMAX", a, oscale=1 / 256, ozp=-128, beta=-1.0)
    elif style == "batch_add":
        r = n.reshape(a, [2, H // 2, W, C])
        b = n.reshape(n.binary("ADD", r, r), [1, H, W, C])
    elif style == "custom_par":
        side = n.cpu_op(x, "CUSTOM")
        b = n.eltwise("ADD", a, side)
    else:                                                      # NPU operator whose second operand comes from a custom operator
        al = n.cpu_op(n.fm("alpha_in", [1, 1, C], scale=0.01, is_input=True), "CUSTOM")
        b = n.like(a, "prelu")
        n.op("PRELU", [a, al], [b])
    c = n.conv(b, 8, 1) if len(n.shape(b)) == 4 else b
    return "fallback:" + style, n.desc([c])


def f_mulmax(rng, seed, style=None):
    """MUL + MAXIMUM patterns that are fused into LeakyRelu / Abs (convert_mul_max_to_abs_or_lrelu) and near misses"""
    n = Net(seed)
    H, W, C = rng.choice([4, 8]), rng.choice([4, 8]), rng.choice([8, 16])
    x = n.fm("in", [1, H, W, C], is_input=True)
    style = pick_style(rng, "mulmax", ["lrelu", "abs", "neg_other", "mul_fanout", "diff_quant", "tensor_alpha"], style)
    a = n.conv(x, C, 1, oscale=0.05, ozp=0) if rng.random() < 0.5 else x
    val = {"lrelu": 26, "abs": -1, "neg_other": -3}.get(style, 20)
    sc = {"abs": 1.0}.get(style, 0.01)
    if style == "tensor_alpha":
        k = n.const("alpha", [1, 1, 1, C], "INT8", 1, 60, scale=[0.01], zp=[0])
    else:
        k = n.const("alpha", [], "INT8", scale=[sc], zp=[0], data=[val])
    m = n.fm("mul", [1, H, W, C], "INT8", 0.05 if style != "diff_quant" else 0.04, 0)
    n.op("MUL", [a, k], [m], ["MulOptions", {"FusedActivationFunction": 0}])
    y = n.fm("max", [1, H, W, C], "INT8", 0.05, 0)
    n.op("MAXIMUM", [a, m] if rng.random() < 0.5 else [m, a], [y])
    outs = [y, m] if style == "mul_fanout" else [y]
    return "mulmax:" + style, n.desc(outs)


FAMILIES = {"memonly": f_memonly, "precision": f_precision, "fusedact": f_fusedact, "fallback": f_fallback,
            "mulmax": f_mulmax}
