"""C11 compile runner: one forked interpreter per job (like vela_run.compile_many) with run-time
observation wrappers around module attributes of the working tree (no source hooks):

  pass_packing.pack_into_passes          -> marks "inside pass packing"
  nn_graph.Subgraph.build_pass_links     -> records the pass list pack_into_passes produced
                                            (placement, npu-able flag, producer passes), *before*
                                            the compiler's own assertion on it can fire
  extract_npu_subgraphs.extract_subgraph -> records how the list was cut into NPU runs

and, after the compile, a re-read of the written file with Vela's own reader (model_reader.read_model).
The result carries in/out bytes so the parent can run the plain-flatbuffer parser on both."""
import io
import multiprocessing as mp
import os
import shutil
import sys
import traceback

from . import codec, netgen
from .common import scratch
from .vela_run import cli_args


def _install_hooks(log):
    from ethosu.vela import pass_packing, nn_graph, extract_npu_subgraphs as ens
    from ethosu.vela.nn_graph import PassPlacement
    state = {"in_pack": False}
    names = {PassPlacement.Cpu: "Cpu", PassPlacement.Npu: "Npu", PassPlacement.MemoryOnly: "Mem",
             PassPlacement.StartupInit: "Startup"}

    def describe(passes, sg_outputs=()):
        idx = {id(ps): i + 1 for i, ps in enumerate(passes)}
        out = []
        tid, tnames = {}, []

        def tensor_id(tens):
            if id(tens) not in tid:
                tid[id(tens)] = len(tid) + 1
                tnames.append(tens.name)
            return tid[id(tens)]

        sg_out = {id(t) for t in sg_outputs}
        for ps in passes:
            # tensors the operators of this pass produce and somebody outside the pass uses
            esc = []
            for op in ps.ops:
                for tens in op.outputs:
                    if tens is None:
                        continue
                    outside = any(c is not None and getattr(c, "scheduled_pass", None) is not ps
                                  for c in tens.consumers())
                    if (outside or id(tens) in sg_out) and tensor_id(tens) not in esc:
                        esc.append(tensor_id(tens))
            decl = []
            for tens in ps.outputs:
                if tens is not None and tensor_id(tens) not in decl:
                    decl.append(tensor_id(tens))
            prod = []
            for tens in ps.inputs:
                for op in tens.ops:
                    sp = getattr(op, "scheduled_pass", None)
                    j = idx.get(id(sp), 0) if sp is not None else 0
                    if j and j not in prod:
                        prod.append(j)
            out.append({"pl": names.get(ps.placement, "Unknown"),
                        "na": bool(ps.ops and ps.ops[0].run_on_npu),
                        "prod": prod, "name": ps.name, "esc": esc, "decl": decl,
                        "escnames": [tnames[i - 1] for i in esc if i not in decl][:4],
                        "ops": [str(op.type).replace("Op.", "") for op in ps.ops][:4],
                        "opnames": [op.name for op in ps.ops][:4]})
        return out

    real_pack = pass_packing.pack_into_passes

    def pack(nng, arch, *a, **k):
        state["in_pack"] = True
        try:
            return real_pack(nng, arch, *a, **k)
        finally:
            state["in_pack"] = False

    pass_packing.pack_into_passes = pack

    real_links = nn_graph.Subgraph.build_pass_links

    def links(self):
        if state["in_pack"]:
            try:
                log.append({"ev": "packed", "sg": self.name, "passes": describe(self.passes, self.output_tensors)})
            except Exception:
                log.append({"ev": "hook_error", "where": "packed", "tb": traceback.format_exc()[-800:]})
        return real_links(self)

    nn_graph.Subgraph.build_pass_links = links

    real_extract = ens.extract_subgraph

    def extract(nng, orig_sg, arch):
        before = list(orig_sg.passes)
        idx = {id(ps): i + 1 for i, ps in enumerate(before)}
        new = real_extract(nng, orig_sg, arch)
        try:
            runs, call_of = [], {}
            for r, sg in enumerate(new):
                runs.append([idx[id(ps)] for ps in sg.passes if id(ps) in idx])
                call_of[id(sg)] = r + 1
            cseq = []
            for ps in orig_sg.passes:
                if id(ps) in idx:
                    cseq.append(idx[id(ps)])
                else:
                    sub = ps.ops[0].attrs.get("subgraph") if ps.ops else None
                    cseq.append(-call_of.get(id(sub), 0))
            log.append({"ev": "extracted", "sg": orig_sg.name, "m": len(before), "runs": runs, "cseq": cseq})
        except Exception:
            log.append({"ev": "hook_error", "where": "extracted", "tb": traceback.format_exc()[-800:]})
        return new

    ens.extract_subgraph = extract


def _child(job, conn):
    try:
        sys.setrecursionlimit(10000)
        codec.inject()
        from ethosu.vela import vela
        log = []
        if job.get("hooks", True):
            _install_hooks(log)
        d = scratch("c11job")
        try:
            mpath = os.path.join(d, "m.tflite")
            data = netgen.build(job["net"]) if "net" in job else open(job["model"], "rb").read()
            with open(mpath, "wb") as f:
                f.write(data)
            # this process is ours alone: redirect the file descriptors (some printers of the compiler bind
            # sys.stdout at import time, so replacing sys.stdout would miss them)
            logf = open(os.path.join(d, "stdout.txt"), "w+")
            sys.stdout.flush()
            sys.stderr.flush()
            os.dup2(logf.fileno(), 1)
            os.dup2(logf.fileno(), 2)
            exc = None
            try:
                rc = vela.main([mpath, "--output-dir", d] + cli_args(job.get("opts", {})))
                rc = 0 if rc is None else rc
            except SystemExit as ex:
                rc = ex.code if isinstance(ex.code, int) else 2
            except BaseException:
                rc = -1
                exc = traceback.format_exc()
            sys.stdout.flush()
            sys.stderr.flush()
            logf.seek(0)
            text = logf.read()
            old = sys.stdout, sys.stderr
            res = {"id": job.get("id"), "rc": rc, "stdout": text, "stderr": "", "exc": exc,
                   "in_bytes": data, "passlog": log}
            ofile = os.path.join(d, "m_vela.tflite")
            if os.path.exists(ofile):
                with open(ofile, "rb") as f:
                    res["out_bytes"] = f.read()
                # Reparse with Vela's own reader
                so2 = io.StringIO()
                sys.stdout, sys.stderr = so2, so2
                try:
                    from ethosu.vela import model_reader
                    nng, _ = model_reader.read_model(ofile, model_reader.ModelReaderOptions())
                    nops = sum(1 for sg in nng.subgraphs for op in sg.get_all_ops()
                               if str(op.type) not in ("Op.Const", "Op.Placeholder", "Op.SubgraphInput"))
                    res["reparse"] = {"ok": True, "ops": nops, "subgraphs": len(nng.subgraphs)}
                except SystemExit as ex:
                    res["reparse"] = {"ok": False, "why": "exit %r: %s" % (ex.code, so2.getvalue()[-300:])}
                except BaseException:
                    res["reparse"] = {"ok": False, "why": traceback.format_exc()[-600:]}
                finally:
                    sys.stdout, sys.stderr = old
        finally:
            shutil.rmtree(d, ignore_errors=True)
        conn.send(res)
    except BaseException:
        try:
            conn.send({"id": job.get("id"), "rc": -2, "exc": traceback.format_exc(), "stdout": "", "stderr": "",
                       "passlog": []})
        except Exception:
            pass
    finally:
        conn.close()
        os._exit(0)


def _run_one(args):
    job, timeout = args
    ctx = mp.get_context("fork")
    pc, cc = ctx.Pipe(duplex=False)
    p = ctx.Process(target=_child, args=(job, cc))
    p.start()
    cc.close()
    res = None
    if pc.poll(timeout):
        try:
            res = pc.recv()
        except EOFError:
            res = None
    if res is None:
        res = {"id": job.get("id"), "rc": -9, "exc": "timeout or child died", "stdout": "", "stderr": "",
               "timeout": True, "passlog": []}
    p.join(1)
    if p.is_alive():
        p.kill()
        p.join()
    return res


def compile_many(jobs, workers=None, timeout=300):
    from concurrent.futures import ThreadPoolExecutor
    from .common import ensure_repo_on_path
    codec.build()
    ensure_repo_on_path()
    codec.inject()
    import ethosu.vela.vela  # noqa: F401   heavy imports once, before forking
    workers = workers or min(16, os.cpu_count() or 4)
    sys.stdout.flush()
    sys.stderr.flush()
    with ThreadPoolExecutor(workers) as ex:
        return list(ex.map(_run_one, [(j, timeout) for j in jobs]))
