"""Mutation catalogue for C10 (DESIGN.md 5.10 / 5.3 "must detect").  Not part of quick/thorough.

    cd /verif && /venv/bin/python -m harness.c10_mutants [--tier quick] [--part compiled] [NAME ...]

For every mutant: copy /repo/ethosu to a scratch directory outside /repo and /verif, apply ONE textual change,
run `./check C10` with VERIF_REPO pointing at the copy, compare the violation keys with those of the unchanged
tree (BASE), delete the copy and the replay files the run created.  A mutant is *caught* iff the run exits 1 and
reports at least one key the unchanged tree does not report.  Exit status 2 (machinery) counts as NOT caught."""
import glob
import json
import os
import re
import shutil
import subprocess
import sys

from .common import VERIF, REPLAY, scratch

HLCS = "ethosu/vela/high_level_command_stream.py"
GEN = "ethosu/vela/high_level_command_stream_generator.py"
MUTS = {
    "pad_top_after_clamp": (HLCS,
        "                pad_top = max(0, 0 - new_start_coord[-3]) + skirt_top_remainder\n                new_start_coord[-3] = max(new_start_coord[-3], 0)\n",
        "                new_start_coord[-3] = max(new_start_coord[-3], 0)\n                pad_top = max(0, 0 - new_start_coord[-3]) + skirt_top_remainder\n"),
    "skirt_remainder_removed": (HLCS, "new_end_coord[-3] * stride + skirt[2] + (skirt[2] % upscaling_factor)",
                                "new_end_coord[-3] * stride + skirt[2]"),
    "lt_le_left_pad_reset": ("ethosu/vela/high_level_command_to_npu_op.py", "cmd.ifm_box.start_coord[-2] > box_start_coord_min",
                             "cmd.ifm_box.start_coord[-2] >= box_start_coord_min"),
    "lt_le_right_pad_reset": ("ethosu/vela/high_level_command_to_npu_op.py", "cmd.ifm_box.end_coord[-2] < box_end_coord_max",
                              "cmd.ifm_box.end_coord[-2] <= box_end_coord_max"),
    "split_offset_twice": (HLCS,
        "                new_start_coord[idx] += split_offset[idx]\n                new_end_coord[idx] += split_offset[idx]\n",
        "                new_start_coord[idx] += 2 * split_offset[idx]\n                new_end_coord[idx] += 2 * split_offset[idx]\n"),
    "step_width_for_height": (GEN,
        "    for start_height in range(ofm_start.height, ofm_end.height, ofm_step.height):\n        end_height = min(start_height + ofm_step.height, ofm_end.height)",
        "    for start_height in range(ofm_start.height, ofm_end.height, ofm_step.width):\n        end_height = min(start_height + ofm_step.width, ofm_end.height)"),
    "tile_crossing_from_end_coord": ("ethosu/vela/tensor.py", "crossing_y = numeric_util.round_up(start_coord[1] + 1, storage_shape_4D.height)",
                                     "crossing_y = numeric_util.round_up(end_coord[1], storage_shape_4D.height)"),
    "rolling_buffer_max_instead_of_sum": ("ethosu/vela/cascade_builder.py",
        "buffer_height = round_up(producer_stripe.height + consumer_stripe_input.height, consumer_stripe_input.height)",
        "buffer_height = max(producer_stripe.height, consumer_stripe_input.height)"),
    "rolling_buffer_two_rows_short": ("ethosu/vela/cascade_builder.py",
        "buffer_height = round_up(producer_stripe.height + consumer_stripe_input.height, consumer_stripe_input.height)",
        "buffer_height = producer_stripe.height + consumer_stripe_input.height - 2"),
    "ifm_present_one_row_early": (GEN,
        "                            if prev_cmd.is_npu_pass_command() and prev_cmd.ps == producer_op.parent_ps:\n                                ifm_present.end_coord = prev_cmd.ofm_box.end_coord\n",
        "                            if prev_cmd.is_npu_pass_command():\n                                ifm_present.end_coord = [c + 1 for c in prev_cmd.ofm_box.end_coord]\n"),
    "pad_bottom_off_by_one": (HLCS, "0, k_start + total_stride + k_dilated_height - (ifm_shape.height * upscaling_factor)",
                              "0, k_start + total_stride + k_dilated_height - 1 - (ifm_shape.height * upscaling_factor)"),
    "same_padding_split_swapped": ("ethosu/vela/tflite_graph_optimiser.py",
        "        top_pad = (ypad + 0) // 2\n        bottom_pad = (ypad + 1) // 2", "        top_pad = (ypad + 1) // 2\n        bottom_pad = (ypad + 0) // 2"),
}


PART = None       # "compiled": run only the compiled-stream part of the check (C10_PART=compiled)


def run_one(name, tier):
    dst = scratch("c10mut")
    try:
        shutil.copytree("/repo/ethosu", os.path.join(dst, "ethosu"))
        if name != "BASE":
            f, old, new = MUTS[name]
            p = os.path.join(dst, f)
            s = open(p).read()
            if s.count(old) != 1:
                return {"mutant": name, "rc": None, "keys": [], "tail": "mutation does not apply (%d matches)" % s.count(old)}
            open(p, "w").write(s.replace(old, new))
        before = set(os.listdir(REPLAY)) if os.path.isdir(REPLAY) else set()
        r = subprocess.run([os.path.join(VERIF, "check"), "C10", "--tier", tier], cwd=VERIF, env=dict(os.environ, VERIF_REPO=dst, **({"C10_PART": PART} if PART else {})),
                           capture_output=True, text=True)
        out = r.stdout + r.stderr
        keys = []
        for m in re.finditer(r"VIOLATION property=C10 replay=(\S+)", out):
            try:
                keys.append(json.load(open(m.group(1)))["key"])
            except OSError:
                pass
        for fn in set(os.listdir(REPLAY)) - before:
            os.remove(os.path.join(REPLAY, fn))
        return {"mutant": name, "rc": r.returncode, "keys": keys, "tail": (out.strip().splitlines() or [""])[-1]}
    finally:
        shutil.rmtree(dst, ignore_errors=True)


def main(argv):
    global PART
    tier = "quick"
    if "--part" in argv:
        PART = argv[argv.index("--part") + 1]
        argv = [a for a in argv if a not in ("--part", PART)]
    if "--tier" in argv:
        tier = argv[argv.index("--tier") + 1]
        argv = [a for a in argv if a not in ("--tier", tier)]
    names = argv or list(MUTS)
    ev_path = os.path.join(VERIF, "evidence", "C10.json")
    saved = open(ev_path).read() if os.path.exists(ev_path) else None
    try:
        base = run_one("BASE", tier)
        print("BASE rc=%s keys=%d  %s" % (base["rc"], len(base["keys"]), base["tail"]))
        bad = 0
        for n in names:
            r = run_one(n, tier)
            new = [k for k in r["keys"] if k not in base["keys"]]
            caught = r["rc"] == 1 and bool(new)
            bad += 0 if caught else 1
            print("%-36s rc=%s %s new keys: %s" % (n, r["rc"], "CAUGHT" if caught else "NOT CAUGHT", new[:4] or r["tail"]))
    finally:
        if saved is not None:       # the evidence file describes the real tree, not the last mutant
            open(ev_path, "w").write(saved)
    return 1 if bad else 0


if __name__ == "__main__":
    sys.exit(main(sys.argv[1:]))
