#!/venv/bin/python
"""Minimal reproductions of the crashes the strengthened C16 check met on the UNCHANGED tree (round 4).

Each network satisfies every constraint the generated supported-operators report lists for its operator (or, for N1 / N4, a
case the wording leaves undecided), so the report promises an output model; `python -m ethosu.vela` dies with a traceback
instead.  The corresponding case classes are switched off in harness/checks/c16.py (constants named below) or tolerated
as "undecided" (SupportedOpsTrace.cfg: UndecidedFailureIsVerdict = FALSE).

usage: /venv/bin/python /verif/harness/repro/c16_round4_findings.py [N1 N2 ...]        (VERIF_REPO selects the tree, default /repo)
"""
import os
import sys
import tempfile

sys.path.insert(0, os.path.dirname(os.path.dirname(os.path.dirname(os.path.abspath(__file__)))))
from harness import netgen, vela_run  # noqa: E402
from harness.netgen import TT  # noqa: E402


def n1():
    "N1  CONV_2D int16, int64 bias 2^39+5 (40 significant bits; 'must fit within 40-bits'): AssertionError in encode_bias"
    n = netgen.Net(1)
    x = n.fm("x", [1, 4, 4, 8], "INT16", 0.05, 0, is_input=True)
    w = n.const("w", [8, 1, 1, 8], "INT8", -127, 127, scale=[0.01], zp=[0])
    b = n.const("b", [8], "INT64", scale=[0.0005], zp=[0], data=[(1 << 39) + 5] + [100] * 7)
    y = n.fm("y", [1, 4, 4, 8], "INT16", 0.07, 0)
    n.op("CONV_2D", [x, w, b], [y], ["Conv2DOptions", {"Padding": 0, "StrideW": 1, "StrideH": 1, "DilationWFactor": 1,
                                                       "DilationHFactor": 1, "FusedActivationFunction": 0}])
    return n.desc([y])


def n2():
    "N2  CONCATENATION with fused RELU (c16.CONCAT_FUSED_ACTIVATION_CASES): AssertionError in pass_packing.build_pass"
    n = netgen.Net(1)
    a = n.fm("a", [1, 6, 7, 8], "INT8", 0.05, 0, is_input=True)
    b = n.fm("b", [1, 6, 7, 4], "INT8", 0.05, 0, is_input=True)
    y = n.fm("y", [1, 6, 7, 12], "INT8", 0.05, 0)
    n.op("CONCATENATION", [a, b], [y], ["ConcatenationOptions", {"Axis": 3, "FusedActivationFunction": 1}])
    return n.desc([y])


def _resize(kind, ishape, oshape, align):
    n = netgen.Net(1)
    x = n.fm("x", ishape, "INT8", 0.05, 0, is_input=True)
    s = n.const("size", [2], "INT32", data=[oshape[1], oshape[2]])
    y = n.fm("y", oshape, "INT8", 0.05, 0)
    n.op(kind, [x, s], [y], ["ResizeBilinearOptions" if kind == "RESIZE_BILINEAR" else "ResizeNearestNeighborOptions",
                             {"AlignCorners": align, "HalfPixelCenters": False}])
    return n.desc([y])


def n3():
    "N3  RESIZE_NEAREST_NEIGHBOR align_corners, 4x5 -> 7x9 (2x), depth 8 (c16.RESIZE_NN_ALIGN_CORNERS_CASES): ValueError (reshape)"
    return _resize("RESIZE_NEAREST_NEIGHBOR", [1, 4, 5, 8], [1, 7, 9, 8], True)


def n4():
    "N4  RESIZE_BILINEAR align_corners, 1x5 -> 1x9 (height 1: scaling 0/0, undecided): ValueError 'cannot convert float NaN'"
    return _resize("RESIZE_BILINEAR", [1, 1, 5, 8], [1, 1, 9, 8], True)


def n5():
    "N5  TRANSPOSE without quantisation parameters (the report exempts TRANSPOSE; c16.UNQUANTISED_TRANSPOSE_CASES): AttributeError"
    n = netgen.Net(1)
    x = n.fm("x", [1, 6, 7, 8], "INT32", None, is_input=True)
    p = n.const("perm", [4], "INT32", data=[0, 2, 1, 3])
    y = n.fm("y", [1, 7, 6, 8], "INT32", None)
    n.op("TRANSPOSE", [x, p], [y], ["TransposeOptions", {}])
    return n.desc([y])


def n6():
    "N6  EXP on int16 with input scale 0.05 (|x| up to 1638; c16.EXP_INT16_WIDE_RANGE): OverflowError 'math range error'"
    n = netgen.Net(1)
    x = n.fm("x", [1, 6, 7, 8], "INT16", 0.05, 0, is_input=True)
    y = n.fm("y", [1, 6, 7, 8], "INT16", 0.05, 0)
    n.op("EXP", [x], [y])
    return n.desc([y])


def n7():
    "N7  ARG_MAX int8 over the depth axis (c16.ARG_MAX_NPU_PATH_CASES; the known NumPy 2 crash): OverflowError"
    n = netgen.Net(1)
    x = n.fm("x", [1, 6, 7, 8], "INT8", 0.05, 0, is_input=True)
    a = n.const("axis", [], "INT32", data=[3])
    y = n.fm("y", [1, 6, 7], "INT32", None)
    n.op("ARG_MAX", [x, a], [y], ["ArgMaxOptions", {"OutputType": TT.INT32}])
    return n.desc([y])


ALL = {"N1": n1, "N2": n2, "N3": n3, "N4": n4, "N5": n5, "N6": n6, "N7": n7}


def main(argv):
    bad = 0
    for name in (argv or sorted(ALL)):
        f = ALL[name]
        with tempfile.TemporaryDirectory(prefix="c16repro", dir="/var/tmp") as d:
            path = os.path.join(d, name.lower() + ".tflite")
            with open(path, "wb") as fh:
                fh.write(netgen.build(f()))
            r = vela_run.run_cli(path, {"accel": "ethos-u55-128"}, d)
        last = [ln for ln in (r["stderr"] + r["stdout"]).splitlines() if ln.strip()][-1:]
        crashed = r["rc"] != 0 and "Traceback" in r["stderr"]
        bad += crashed
        print("%s\n    exit status %s, output written: %s%s" % (f.__doc__, r["rc"], bool(r["output"]),
                                                                "   <-- " + last[0][:140] if crashed else ""))
    print("%d of the reproductions crash the compiler" % bad)
    return 1 if bad else 0


if __name__ == "__main__":
    sys.exit(main(sys.argv[1:]))
