# Run: /venv/bin/python /verif/harness/repro/c11_c16_findings.py
# Minimal reproductions through the real CLI (python -m ethosu.vela) of the findings of C11/C16.
import sys, subprocess, os, shutil
sys.path.insert(0, "/verif")
from harness import netgen, flatmodel
import tempfile
D = tempfile.mkdtemp(prefix="c11c16-repro-", dir="/var/tmp")
def vela(name, net, extra=()):
    p = os.path.join(D, name + ".tflite"); open(p, "wb").write(netgen.build(net))
    r = subprocess.run(["/venv/bin/python", "-m", "ethosu.vela", p, "--output-dir", D, "--accelerator-config", "ethos-u55-128", *extra],
                       capture_output=True, text=True, env=dict(os.environ, PYTHONPATH=os.environ.get("VERIF_REPO", "/repo")))
    out = os.path.join(D, name + "_vela.tflite")
    ops = None
    if os.path.exists(out):
        g = flatmodel.abstract(open(out, "rb").read())
        ops = [(o["code"] + (":" + o["custom_code"] if o["custom_code"] else ""), "v%d" % o["version"]) for o in g["subgraphs"][0]["ops"]]
    tail = [l for l in (r.stdout + r.stderr).splitlines() if l.strip()][-1][:150]
    print("%-28s rc=%d ops=%s | %s" % (name, r.returncode, ops, tail if r.returncode else ""))

# F-A  pass_packing rule 1: CPU pass with a non-IFM operand produced by an NPU pass is moved above its producer
n = netgen.Net(1); x = n.fm("in0", [1,8,8,8], is_input=True); x1 = n.fm("in1", [1,8,8,8], is_input=True)
c = n.conv(x, 8, 3); y = n.fm("y", [1,8,8,24])
n.op("CONCATENATION", [c, x, x1], [y], ["ConcatenationOptions", {"Axis": 3, "FusedActivationFunction": 5}])
vela("A_cpu_concat_first_from_npu", n.desc([y]))
n = netgen.Net(1); x = n.fm("in0", [1,8,8,8], is_input=True); x1 = n.fm("in1", [1,8,8,8], is_input=True)
w = n.conv(x1, 8, 1, name="w_dyn"); b = n.const("b", [8], "INT32", data=[0]*8, scale=[0.001], zp=[0]); y = n.fm("y", [1,8,8,8])
n.op("DEPTHWISE_CONV_2D", [x, w, b], [y], ["DepthwiseConv2DOptions", {"Padding": 0, "StrideW": 1, "StrideH": 1, "DepthMultiplier": 1, "DilationWFactor": 1, "DilationHFactor": 1, "FusedActivationFunction": 0}])
vela("A_dwconv_dynamic_weights", n.desc([y]))
# F-B  writer: operator version collapses to the highest version of that operator type
n = netgen.Net(1); x = n.fm("in", [1,8,8,8], is_input=True); a = n.fm("a", [1,8,8,8]); b = n.fm("b", [1,8,8,8])
n.op("FLOOR_DIV", [x, x], [a], ["FloorDivOptions", {}], version=1); n.op("FLOOR_DIV", [a, x], [b], ["FloorDivOptions", {}], version=2)
vela("B_two_versions", n.desc([b]))
# F-C  third-party custom operator without custom_options crashes the writer
n = netgen.Net(1); x = n.fm("in", [1,8,8,8], is_input=True); a = n.fm("a", [1,8,8,8]); n.op("CUSTOM", [x], [a], custom_code="ThirdPartyOp")
vela("C_custom_no_options", n.desc([a]))
# F-D  int64 bias of magnitude 2^39 passes 'fit within 40-bits' and crashes encode_bias
n = netgen.Net(1); x = n.fm("in", [1,4,4,8], "INT16", 0.001, 0, is_input=True)
w = n.const("w", [8,1,1,8], "INT8", -127, 127, scale=[0.01], zp=[0]); b = n.const("b", [8], "INT64", data=[(1<<39)+5]+[0]*7, scale=[0.00001], zp=[0])
y = n.fm("y", [1,4,4,8], "INT16", 0.002, 0)
n.op("CONV_2D", [x, w, b], [y], ["Conv2DOptions", {"Padding": 0, "StrideW": 1, "StrideH": 1, "DilationWFactor": 1, "DilationHFactor": 1, "FusedActivationFunction": 0}])
vela("D_bias_2pow39", n.desc([y]))
# F-E  C16: bias of shape [1,8] ("must be 1D") runs on the NPU; F-F asymmetric int8 weights stay on the CPU; F-G avg pool VALID 9x2 on the NPU
def conv(bias_shape, wzp):
    n = netgen.Net(1); x = n.fm("in", [1,9,13,8], is_input=True)
    w = n.const("w", [8,3,3,8], "INT8", -127, 127, scale=[0.01], zp=[wzp]); b = n.const("b", bias_shape, "INT32", data=list(range(8)), scale=[0.0005], zp=[0])
    y = n.fm("y", [1,9,13,8], "INT8", 0.07, -5)
    n.op("CONV_2D", [x, w, b], [y], ["Conv2DOptions", {"Padding": 0, "StrideW": 1, "StrideH": 1, "DilationWFactor": 1, "DilationHFactor": 1, "FusedActivationFunction": 0}])
    return n.desc([y])
vela("E_bias_shape_1x8", conv([1, 8], 0))
vela("F_weights_zero_point_3", conv([8], 3))
n = netgen.Net(1); x = n.fm("in", [1,9,13,8], is_input=True); y = n.fm("y", [1,1,12,8])
n.op("AVERAGE_POOL_2D", [x], [y], ["Pool2DOptions", {"Padding": 1, "StrideW": 1, "StrideH": 1, "FilterWidth": 2, "FilterHeight": 9, "FusedActivationFunction": 0}])
vela("G_avgpool_valid_9x2", n.desc([y]))
# F-H  C16: MEAN over the height axis only, width 4097: 'If Width axis is reduced ...' holds, yet the operator stays on the CPU
n = netgen.Net(1); x = n.fm("in", [1,2,4097,2], is_input=True); ax = n.const("axes", [1], "INT32", data=[1]); y = n.fm("y", [1,1,4097,2])
n.op("MEAN", [x, ax], [y], ["ReducerOptions", {"KeepDims": True}])
vela("H_mean_width_not_reduced", n.desc([y]))
shutil.rmtree(D, ignore_errors=True)
