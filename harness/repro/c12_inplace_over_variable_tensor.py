"""Reproduction (real code, unchanged tree): an NPU elementwise operator is allowed to write its result over a variable
(state) tensor it reads.  Found by C12 with the corpus family `statevar` (styles with the state as a direct operand of an NPU
elementwise operator).

  cd /verif && /venv/bin/python -m harness.repro.c12_inplace_over_variable_tensor

Network:  in -> CONV_2D (NPU) -> a ;  out = SUB(a, state) (NPU) ;  `state` is a variable tensor (is_variable, no buffer): it keeps
its value from one inference to the next, nothing in this network writes it.
live_range._get_ifm_to_fuse accepts any operand that has one consumer and is not write protected; it does not look at
is_variable.  `a` (NPU-internal, brick format) is refused because its format differs from the output's, `state` is accepted:
SUB's output shares the live range - and the arena bytes - of `state`.  After the first inference the state holds a - state,
the second inference computes with that.  (When the other operand qualifies first - e.g. a tensor made by a CPU operator - the
output goes over that one and nothing is wrong.)  (The line "Variable tensor live-range is for entire inference" then stretches the fused range over the whole
inference, which keeps everybody else away from the bytes but not the operator's own output.)

The script prints the arena offsets of the output file (OfflineMemoryAllocation metadata) and the verdict of C12's plan check
(ArenaTrace.tla NoOverlapLive: a variable tensor is live throughout, so the in-place exception - the operand dies at the
operator - does not apply).  Exit status 1 = defect present."""
import json
import sys

from .. import streams, tlc, vela_run
from ..checks import c12
from ..netgen import Net


def main():
    res = 0
    for alloc in ("HillClimb", "Greedy", "LinearAlloc"):
        n = Net(11)
        x = n.fm("in", [1, 8, 8, 16], is_input=True)
        st = n.fm("state", [1, 8, 8, 16], "INT8", 0.04, 1)
        n.t[st]["is_variable"] = True
        a = n.conv(x, 16, 3)
        out = n.eltwise("SUB", a, st, name="out")
        job = {"id": 0, "net": n.desc([out]), "opts": {"accel": "ethos-u55-128", "allocator": alloc}}
        r = vela_run.compile_many([job])[0]
        if r["rc"] != 0:
            print("compilation failed", r.get("exc"), r["stdout"][-1000:])
            return 2
        model, ss = streams.analyse(r["out_bytes"], "ethos-u55-128")
        off = model["offline"]["offsets"]
        print("[%s] operators:" % alloc, [(o["k"], o.get("custom") or o["code"], o["inputs"], o["outputs"]) for o in model["ops"]])
        for t, o in zip(model["tensors"], off):
            if o >= 0:
                print("  arena tensor %-20s offset %5d size %5d%s" % (t["name"], o, t["size"], "  (variable)" if t["is_variable"] else ""))
        rec, why = c12.plan_record(1, r["out_bytes"], 16, r.get("summary_csv"), r["stdout"], "ethos-u55-128")
        if rec is None:
            print("no plan record:", why)
            return 2
        _, viol = tlc.validate_traces("ArenaTrace", "ArenaTrace.cfg", [rec])
        print("  ArenaTrace verdict:", json.dumps(viol))
        res = res or (1 if viol else 0)
    return res


if __name__ == "__main__":
    sys.exit(main())
