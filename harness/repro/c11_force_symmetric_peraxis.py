# Run: /venv/bin/python /verif/harness/repro/c11_force_symmetric_peraxis.py      (exit status 1 = defect present)
# Found by C11 (spec/Fields.tla "weight" cases, harness/c11fields.weight_net) on the UNCHANGED tree:
#   --force-symmetric-int-weights rewrites the constant weights of a convolution that stays on the CPU.
# in -> CONV_2D 1x1 (NPU) -> CONV_2D 3x3 stride 4 (CPU: stride > 3), int8 weights with PER-AXIS non-zero zero points
# -> CONV_2D 1x1 (NPU).  tflite_graph_optimiser.fixup_asymmetric_weights runs before the supported-operator checks and
# does `op.weights.quantization.zero_point *= 0` on the reader's clone of the weights; QuantizationParameters.clone()
# copies the zero point BY REFERENCE, so for a per-axis zero point (a numpy array) the in-place multiplication also
# zeroes the array of the source tensor, which tflite_writer puts back when the operator stays on the CPU: the written
# CPU operator claims zero points 0 for weights that were quantised with 5, 1, -3 ...  (A per-tensor zero point is a
# scalar: `*=` rebinds it and the source tensor is untouched.)  Without the option the file is written verbatim.
# The case class is switched off in harness/c11fields.py (WEIGHT_CASES_OFF).
import os
import shutil
import subprocess
import sys
import tempfile

sys.path.insert(0, "/verif")
from harness import netgen, flatmodel  # noqa: E402

D = tempfile.mkdtemp(prefix="c11sym-repro-", dir="/var/tmp")


def build(per_axis):
    n = netgen.Net(3)
    x = n.fm("in", [1, 16, 16, 8], scale=0.05, zp=1, is_input=True)
    h = n.conv2(x, 8, 1, 1, name="head")
    c = n.conv2(h, 8, 3, 3, sh=4, sw=4, name="kept", per_channel=per_axis)
    w = n.t[n.o[-1]["inputs"][1]]
    w["zp"] = [5 - (i % 3) * 4 for i in range(len(w["scale"]))]
    y = n.conv2(c, 8, 1, 1, name="tail")
    return n.desc([y])


def zps(path):
    sg = flatmodel.abstract(open(path, "rb").read())["subgraphs"][0]
    return ({t["name"]: t["fields"]["zp"] for t in sg["tensors"]}, [o["code"] for o in sg["ops"]])


bad = 0
for per_axis in (True, False):
    for opt in ([], ["--force-symmetric-int-weights"]):
        name = "m_%s_%s" % ("axis" if per_axis else "tensor", "forced" if opt else "plain")
        p = os.path.join(D, name + ".tflite")
        open(p, "wb").write(netgen.build(build(per_axis)))
        r = subprocess.run(["/venv/bin/python", "-m", "ethosu.vela", p, "--output-dir", D, "--accelerator-config",
                            "ethos-u55-128"] + opt, capture_output=True, text=True,
                           env=dict(os.environ, PYTHONPATH=os.environ.get("VERIF_REPO", "/repo")))
        out = os.path.join(D, name + "_vela.tflite")
        if r.returncode or not os.path.exists(out):
            print(name, "did not compile:", (r.stdout + r.stderr).strip().splitlines()[-1][:160])
            continue
        (zs, _), (zo, ops) = zps(p), zps(out)
        same = zs["kept_w"] == zo.get("kept_w")
        bad += not same
        print("%-16s %-34s output operators %s: weights 'kept_w' zero point %s -> %s  %s" % (
            name, " ".join(opt) or "(no option)", ops, zs["kept_w"], zo.get("kept_w"), "ok" if same else "CHANGED"))


# ---- second part: dynamic weights.  in1 is a NETWORK INPUT used as the weights of a DEPTHWISE_CONV_2D (dynamic weights:
# the operator stays on the CPU).  The reader does not clone non-constant weights, so op.weights IS the source tensor and
# fixup_asymmetric_weights zeroes the zero point of a subgraph input (and of the operand of the kept operator).
def build_dyn():
    n = netgen.Net(4)
    C = 8
    x = n.fm("in0", [1, 8, 8, C], scale=0.05, zp=1, is_input=True)
    w = n.fm("in1_as_weights", [1, 3, 3, C], scale=0.03, zp=2, is_input=True)
    h = n.conv2(x, C, 1, 1, name="head")
    bt = n.const("dyn_b", [C], "INT32", -100, 100, scale=[0.0005], zp=[0])
    y = n.fm("dyn", [1, 8, 8, C], "INT8", 0.1, 1)
    n.op("DEPTHWISE_CONV_2D", [h, w, bt], [y],
         ["DepthwiseConv2DOptions", {"Padding": 0, "StrideW": 1, "StrideH": 1, "DepthMultiplier": 1, "DilationWFactor": 1,
                                     "DilationHFactor": 1, "FusedActivationFunction": 0}])
    z = n.conv2(y, C, 1, 1, name="tail")
    return n.desc([z])


for opt in ([], ["--force-symmetric-int-weights"]):
    name = "m_dyn_%s" % ("forced" if opt else "plain")
    p = os.path.join(D, name + ".tflite")
    open(p, "wb").write(netgen.build(build_dyn()))
    r = subprocess.run(["/venv/bin/python", "-m", "ethosu.vela", p, "--output-dir", D, "--accelerator-config",
                        "ethos-u55-128"] + opt, capture_output=True, text=True,
                       env=dict(os.environ, PYTHONPATH=os.environ.get("VERIF_REPO", "/repo")))
    out = os.path.join(D, name + "_vela.tflite")
    if r.returncode or not os.path.exists(out):
        print(name, "did not compile:", (r.stdout + r.stderr).strip().splitlines()[-1][:160])
        continue
    (zs, _), (zo, ops) = zps(p), zps(out)
    same = zs["in1_as_weights"] == zo.get("in1_as_weights")
    bad += not same
    print("%-16s %-34s output operators %s: network input 'in1_as_weights' zero point %s -> %s  %s" % (
        name, " ".join(opt) or "(no option)", ops, zs["in1_as_weights"], zo.get("in1_as_weights"), "ok" if same else "CHANGED"))
shutil.rmtree(D, ignore_errors=True)
sys.exit(1 if bad else 0)
