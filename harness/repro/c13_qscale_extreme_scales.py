#!/venv/bin/python
"""Three internal exceptions of the UNCHANGED compiler on structurally valid models with extreme quantisation parameters
(found by the C13 corner lattice `qscale` of spec/CliCorners.tla; switched off there behind IncludePendingTriage / Pending).
Each case: one operator, input -> op -> output, compiled by the real command line.  A neighbouring binade compiles.
    /venv/bin/python /var/tmp/repro-c13-qscale/repro.py        (exit status 1 = at least one case dies with a traceback)
"""
import os, sys, tempfile
sys.path.insert(0, "/verif")
from harness import corners, netgen, vela_run, codec
CASES = [
    # (name, record, expected)
    ("A  int16 CONV_2D, ifm*w/ofm = 2^15 (reduced shift = 15 - 16 < 0): AssertionError in weight_compressor.encode_bias",
     dict(fam="qscale", op="conv", e=15, m="one", zp="mid", chan="tensor", dt="int16")),
    ("A' same with 2^14 (control: compiles)", dict(fam="qscale", op="conv", e=14, m="one", zp="mid", chan="tensor", dt="int16")),
    ("A'' int16 FULLY_CONNECTED 2^20", dict(fam="qscale", op="fc", e=20, m="one", zp="mid", chan="tensor", dt="int16")),
    ("B  int8 LEAKY_RELU, ifm_scale/ofm_scale = 2^24: AssertionError in fp_math.saturating_rounding_mul32",
     dict(fam="qscale", op="lrelu", e=24, m="one", zp="mid", chan="tensor", dt="int8")),
    ("B' same with 2^22 (control: compiles)", dict(fam="qscale", op="lrelu", e=22, m="one", zp="mid", chan="tensor", dt="int8")),
    ("C  int8 MEAN, ifm_scale/ofm_scale = 2^-33: ValueError negative shift count in convert_mean_to_depthwise_conv",
     dict(fam="qscale", op="mean", e=-33, m="one", zp="mid", chan="tensor", dt="int8")),
    ("C' same with 2^-32 and 2^-34 (controls: compile)", dict(fam="qscale", op="mean", e=-32, m="one", zp="mid", chan="tensor", dt="int8")),
]
codec.shim_dir()
bad = 0
for name, rec in CASES:
    d = tempfile.mkdtemp(prefix="repro-qs-")
    label, net, _ = corners.build([rec], 1)
    mp = os.path.join(d, "m.tflite")
    open(mp, "wb").write(netgen.build(net))
    r = vela_run.run_cli(mp, {"accel": "ethos-u55-128"}, d)
    tb = "Traceback (most recent call last)" in (r["stdout"] + r["stderr"])
    last = [l for l in (r["stdout"] + r["stderr"]).splitlines() if l.strip()][-1][:120]
    scales = [(t["name"], t.get("scale")) for t in net["tensors"] if t.get("scale")]
    print("%s\n    rc=%s written=%s traceback=%s :: %s\n    scales %s" % (name, r["rc"], r["output"] is not None, tb, last, scales))
    bad += tb
sys.exit(1 if bad else 0)
