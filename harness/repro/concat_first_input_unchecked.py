"""
NOT REPAIRED - extra finding, reproduction only.
CONCATENATION: Op.ConcatTFLite uses the tensor indices [1, 2] (operation.py NNG_CONCAT_INDICES, tflite_mapping.py
TFLITE_CONCAT_INDICES; meant for the TensorFlow Concat whose input 0 is the axis), so op.ifm is inputs[1] and the FIRST
input of a TFLite CONCATENATION is not examined by any check that is based on op.get_ifm_ifm2_weights_ofm()
(quantisation present / finite, per-axis quantisation, tensor data type, ...).
 * first input without quantisation parameters: the operator is placed on the NPU ->
   AttributeError 'NoneType' object has no attribute 'scale_f32' in generate_ofm_scaling_for_pooling
   (with patch 10 applied: compiles, the slice is copied without rescaling);
 * second input without quantisation parameters (control): "must have quantization parameters", CPU.
Run: VERIF_REPO=<tree> /venv/bin/python repro.py   (exit 1 = defect present)
"""
import os
import sys

sys.path.insert(0, "/verif")
os.environ.setdefault("ETHOS_U_VELA_VERIF", "1")
os.environ.setdefault("VERIF_REPO", "/repo")        # tree to compile with; set VERIF_REPO=<worktree> to test a patch
from harness import netgen, vela_run  # noqa: E402

ACCELS = ("ethos-u55-128", "ethos-u65-256")


def compile_all(cases, accels=ACCELS, extra=()):
    """cases: [(label, net description)].  Compiles each with vela.main in a forked child; returns the number of
    compilations that ended with an internal exception (anything but an output file or an `Error:` diagnosis)."""
    bad = 0
    for label, net in cases:
        for acc in accels:
            x = vela_run.compile_many([{"id": 0, "net": net, "opts": {"accel": acc, "extra": list(extra)}}])[0]
            text = (x.get("exc") or "") + (x.get("stdout") or "")
            ok = x["rc"] == 0 and x.get("out_bytes")
            diagnosed = x["rc"] == 1 and not x.get("exc") and "Error" in text and "Traceback" not in text
            cpu = [ln.strip() for ln in text.splitlines() if "CPU operators =" in ln]
            print("%-34s %-14s rc=%s output_file=%s %s%s" % (label, acc, x["rc"], bool(x.get("out_bytes")),
                                                          "diagnosed " if diagnosed else "", " ".join(cpu)))
            if not (ok or diagnosed):
                bad += 1
                for line in text.strip().splitlines()[-4:]:
                    print("        " + line)
    print("\n%d compilation(s) ended with a Python exception instead of an output file or a diagnosis" % bad)
    return bad


def net(which):
    n = netgen.Net(1)
    a = n.fm("a", [1, 4, 4, 8], "INT8", None if which == 0 else 0.05, 0, is_input=True)
    b = n.fm("b", [1, 4, 4, 8], "INT8", None if which == 1 else 0.05, 0, is_input=True)
    y = n.fm("out", [1, 4, 4, 16])
    n.op("CONCATENATION", [a, b], [y], ["ConcatenationOptions", {"Axis": 3, "FusedActivationFunction": 0}])
    return n.desc([y])


cases = [("first input unquantised", net(0)), ("second input unquantised (control)", net(1))]
sys.exit(1 if compile_all(cases) else 0)
