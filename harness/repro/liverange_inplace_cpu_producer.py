"""Reproduction (real code, unchanged tree) of the in-place fusing defect found by the LiveRange growth component.

  cd /verif && /venv/bin/python -m harness.repro.liverange_inplace_cpu_producer

Network:  in -> ROUND (CPU) -> a ;  b = ABS(a) (NPU, elementwise) ;  out = FLOOR_DIV(a, b) (CPU)
`a` is produced by a CPU operator and has two consumers.  extract_npu_subgraphs.rewrite_tensor_cpu_producer_npu_consumers
sets ifm_write_protected on the NPU-side clone only for *network inputs* with several consumers (or network outputs); the
clone's consumer_list holds the NPU consumers only, so live_range._get_ifm_to_fuse sees "one consumer, not protected" and
puts `a` and `b` into one live range: ABS overwrites `a` in place, FLOOR_DIV then reads a == b.

The script prints the arena offsets of the output file (OfflineMemoryAllocation metadata) and the verdict of C12's own
plan check (ArenaTrace.tla NoOverlapLive) on it."""
import json
import sys

from .. import streams, tlc, vela_run
from ..checks import c12
from ..netgen import Net


def main():
    n = Net(7)
    x = n.fm("in", [1, 8, 8, 16], is_input=True)
    a = n.cpu_op(x, "ROUND")
    b = n.unary("ABS", a)
    out = n.fm("cpu_out", [1, 8, 8, 16], "INT8", 0.05, 0)
    n.op("FLOOR_DIV", [a, b], [out])
    job = {"id": 0, "net": n.desc([out]), "opts": {"accel": "ethos-u55-128"}}
    r = vela_run.compile_many([job])[0]
    if r["rc"] != 0:
        print("compilation failed", r.get("exc"), r["stdout"][-1000:])
        return 2
    model, ss = streams.analyse(r["out_bytes"], "ethos-u55-128")
    off = model["offline"]["offsets"]
    print("operators:", [(o["k"], o.get("name") or o.get("custom") or o.get("op"), o["inputs"], o["outputs"]) for o in model["ops"]])
    for t, o in zip(model["tensors"], off):
        if o >= 0:
            print("  arena tensor %-28s offset %5d size %5d" % (t["name"], o, t["size"]))
    rec, why = c12.plan_record(1, r["out_bytes"], 16, r.get("summary_csv"), r["stdout"], "ethos-u55-128")
    if rec is None:
        print("no plan record:", why)
        return 2
    _, viol = tlc.validate_traces("ArenaTrace", "ArenaTrace.cfg", [rec])
    print("ArenaTrace verdict:", json.dumps(viol))
    return 1 if viol else 0


if __name__ == "__main__":
    sys.exit(main())
