# Run: /venv/bin/python /verif/harness/repro/c11_partial_quant_tables.py      (exit status 1 = members lost)
# C11, spec/Fields.tla tensor cases: quantisation tables that hold NEITHER a scale NOR a zero point (min only, max only,
# min + max on an integer tensor, a quantised dimension only ...) on a network input that a CPU-resident operator reads.
# tflite_reader.parse_tensor drops a table without scale and zero point (quantization = None), so the written model has
# lost the members: the defect of known finding M3, whose match keys only cover the float {min, max} instance.
# Tables with a scale and no zero point (or the reverse) are kept: those cases are switched ON in the check.
# The case class is switched off in harness/c11fields.py (NOSCALE_TABLES_OFF).
import os
import shutil
import subprocess
import sys
import tempfile

sys.path.insert(0, "/verif")
from harness import netgen, flatmodel  # noqa: E402

D = tempfile.mkdtemp(prefix="c11quant-repro-", dir="/var/tmp")
bad = 0
for dt in ("INT8", "FLOAT32"):
    for pres in (["min"], ["max"], ["min", "max"], ["qdim"], ["min", "max", "qdim"], ["scale"], ["zp"], ["scale", "min"]):
        n = netgen.Net(5)
        x = n.fm("in0", [1, 8, 8, 8], scale=0.05, zp=1, is_input=True)
        h = n.conv2(x, 8, 1, 1, name="head")
        y = n.fm("in1", [2, 3, 8], dt, 0.04, 1, is_input=True)
        n.t[y].update(scale=[0.04], zp=[1], min=[-1.0], max=[1.0], qdim=2, qpresent=pres)
        o = n.fm("mix", [1, 8, 8, 8], "INT8", 0.06, -1)
        n.op("CUSTOM", [h, y], [o], custom_code="Mix", custom_options=[1])
        z = n.conv2(o, 8, 1, 1, name="tail")
        name = "m_%s_%s" % (dt.lower(), "_".join(pres))
        p = os.path.join(D, name + ".tflite")
        open(p, "wb").write(netgen.build(n.desc([z])))
        r = subprocess.run(["/venv/bin/python", "-m", "ethosu.vela", p, "--output-dir", D, "--accelerator-config",
                            "ethos-u55-128"], capture_output=True, text=True,
                           env=dict(os.environ, PYTHONPATH=os.environ.get("VERIF_REPO", "/repo")))
        out = os.path.join(D, name + "_vela.tflite")
        if r.returncode or not os.path.exists(out):
            print(name, "did not compile:", (r.stdout + r.stderr).strip().splitlines()[-1][:160])
            continue
        f = lambda path: {t["name"]: t["fields"] for t in flatmodel.abstract(open(path, "rb").read())["subgraphs"][0]["tensors"]}["in1"]
        a, b = f(p), f(out)
        diff = {k: (a[k], b[k]) for k in a if a[k] != b[k]}
        bad += bool(diff)
        print("%-28s table members %-22s %s" % (name, pres, "LOST: %s" % diff if diff else "ok"))
shutil.rmtree(D, ignore_errors=True)
sys.exit(1 if bad else 0)
