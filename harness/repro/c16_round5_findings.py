#!/venv/bin/python
"""Minimal reproductions of what the strengthened C16 check (round 5: equivalent encodings of an operator attribute) met on
the UNCHANGED tree.  The corresponding case classes are switched off in harness/checks/c16.py (constants named below).

R1  SLICE with a size entry written as -1 ("up to the end", plain TFLite): every listed constraint holds (the same slice
    with the size written out compiles and runs on the NPU).  Operation.get_split_inputs_axis (operation.py, Op.Slice
    branch) computes offset_end = size + begin with the raw -1, so the read box ends before it starts.  With -1 in the
    width (second-to-last) dimension and the SLICE as only NPU operator the compiler dies with AssertionError in
    high_level_command_stream.Box.__init__; with -1 in other dimensions it depends on options (size [-1, 4, 3, -1] of
    [1, 6, 7, 8] from [0, 1, 2, 0] dies on ethos-u65-256 with --tensor-allocator Greedy) and otherwise compiles with a
    read region nobody checked.  c16.SLICE_SIZE_MINUS_ONE_CASES
R2  MEAN whose axes tensor counts the axes from the end ([-3, -2] = height and width of a 4-D tensor, plain TFLite): the
    same MEAN written [1, 2] runs on the NPU; the negative form is rejected by constraint_mean_axis ("Requirements for
    axis parameter") and stays on the CPU although the bullet's conditions (reduction over H and W) hold for the operator.
    No crash - a placement the report does not explain.  c16.MEAN_NEGATIVE_AXES_CASES
R3  SQUARED_DIFFERENCE whose second operand is a constant, between third-party CUSTOM operators (CPU-only neighbours):
    every listed constraint holds, the compiler dies with AssertionError in tflite_writer.serialise_tensor
    (buf_id == BUF_IDX_ZERO with values present).  Alone or between NPU operators the same operator compiles; ADD / MAXIMUM
    in the same position compile (checked with c16.build_case; the control below uses ADD).  c16.SQDIFF_CONST_OPERAND_CPU_NEIGHBOURS

usage: /venv/bin/python /verif/harness/repro/c16_round5_findings.py        (VERIF_REPO selects the tree, default /repo)
"""
import os
import sys
import tempfile

sys.path.insert(0, os.path.dirname(os.path.dirname(os.path.dirname(os.path.abspath(__file__)))))
from harness import flatmodel, netgen, vela_run  # noqa: E402


def slice_net(sizes):
    n = netgen.Net(1)
    x = n.fm("x", [1, 6, 7, 8], "INT8", 0.05, 0, is_input=True)
    b = n.const("begin", [4], "INT32", data=[0, 1, 2, 0])
    s = n.const("size", [4], "INT32", data=sizes)
    y = n.fm("y", [1, 5, 5, 8], "INT8", 0.05, 0)
    n.op("SLICE", [x, b, s], [y], ["SliceOptions", {}])
    return n.desc([y])


def mean_net(axes):
    n = netgen.Net(1)
    x = n.fm("x", [1, 6, 7, 8], "INT8", 0.05, 0, is_input=True)
    a = n.const("axes", [2], "INT32", data=axes)
    y = n.fm("y", [1, 1, 1, 8], "INT8", 0.05, 0)
    n.op("MEAN", [x, a], [y], ["ReducerOptions", {"KeepDims": True}])
    return n.desc([y])


def sqdiff_net(op):
    n = netgen.Net(1)
    src = n.fm("src", [1, 4, 6, 8], "INT8", 0.05, 0, is_input=True)
    x = n.fm("x", [1, 4, 6, 8], "INT8", 0.05, 0)
    n.op("CUSTOM", [src], [x], custom_code="CpuOnlyBefore", custom_options=[1])
    k = n.const("k", [1, 4, 6, 8], "INT8", scale=[0.05], zp=[0], data={"rng": 11, "lo": -120, "hi": 120})
    y = n.fm("y", [1, 4, 6, 8], "INT8", 0.1, -1)
    n.op(op, [x, k], [y], ["AddOptions", {"FusedActivationFunction": 0}] if op == "ADD" else None)
    z = n.fm("z", [1, 4, 6, 8], "INT8", 0.07, -5)
    n.op("CUSTOM", [y], [z], custom_code="CpuOnlyAfter", custom_options=[2])
    return n.desc([z])


CASES = [("R1 control  SLICE size [1, 5, 5, 8]", slice_net([1, 5, 5, 8]), "NPU"),
         ("R1          SLICE size [1, 5, -1, 8] (same slice, width written as -1)", slice_net([1, 5, -1, 8]), "NPU"),
         ("R1          SLICE size [1, -1, 5, -1] (height and depth written as -1)", slice_net([1, -1, 5, -1]), "NPU"),
         ("R3 control  CUSTOM -> ADD(x, const) -> CUSTOM", sqdiff_net("ADD"), "CUSTOM,NPU,CUSTOM"),
         ("R3          CUSTOM -> SQUARED_DIFFERENCE(x, const) -> CUSTOM", sqdiff_net("SQUARED_DIFFERENCE"), "CUSTOM,NPU,CUSTOM"),
         ("R2 control  MEAN axes [1, 2]", mean_net([1, 2]), "NPU"),
         ("R2          MEAN axes [-3, -2] (same reduction)", mean_net([-3, -2]), "NPU")]


def main():
    bad = 0
    for title, desc, want in CASES:
        with tempfile.TemporaryDirectory(prefix="c16repro", dir="/var/tmp") as d:
            path = os.path.join(d, "m.tflite")
            with open(path, "wb") as fh:
                fh.write(netgen.build(desc))
            r = vela_run.run_cli(path, {"accel": "ethos-u55-128"}, d)
            if r["rc"] != 0 or not r["output"]:
                last = [ln for ln in (r["stderr"] or r["stdout"]).splitlines() if ln.strip()][-1:]
                got = "no output model (exit status %s): %s" % (r["rc"], last[0][:120] if last else "")
            else:
                with open(r["output"], "rb") as fh:
                    ops = [o["code"] for o in flatmodel.abstract(fh.read())["subgraphs"][0]["ops"]]
                got = "NPU" if ops == ["CUSTOM"] else "CUSTOM,NPU,CUSTOM" if ops == ["CUSTOM"] * 3 else "operators of the output: %s" % ops
        ok = got == want
        bad += not ok
        print("%-80s expected %s, got %s%s" % (title, want, got, "" if ok else "   <--"))
    print("%d deviations" % bad)
    return 1 if bad else 0


if __name__ == "__main__":
    sys.exit(main())
