# Run: /venv/bin/python /verif/harness/repro/c11_fields_findings.py
# Minimal reproductions, through the real CLI (python -m ethosu.vela) on the unchanged tree, of what the field-level part
# of C11 (spec/Fields.tla, harness/c11fields.py) found: members of CPU-resident operators / interface tensors that do
# not survive the round trip.  Every case prints the member in the source model and in the written model.
# The matching case classes are switched off in harness/c11fields.py (OPTION_MEMBERS_OFF, OPTION_VALUES_OFF,
# TENSOR_CLASSES_OFF).
import os
import shutil
import subprocess
import sys
import tempfile

sys.path.insert(0, "/verif")
from harness import netgen, flatmodel  # noqa: E402

D = tempfile.mkdtemp(prefix="c11fields-repro-", dir="/var/tmp")


def vela(name, net):
    p = os.path.join(D, name + ".tflite")
    open(p, "wb").write(netgen.build(net))
    r = subprocess.run(["/venv/bin/python", "-m", "ethosu.vela", p, "--output-dir", D, "--accelerator-config", "ethos-u55-128"],
                       capture_output=True, text=True, env=dict(os.environ, PYTHONPATH=os.environ.get("VERIF_REPO", "/repo")))
    out = os.path.join(D, name + "_vela.tflite")
    if r.returncode or not os.path.exists(out):
        print("%-26s rc=%d %s" % (name, r.returncode, (r.stdout + r.stderr).strip().splitlines()[-1][:150]))
        return None, None
    return (flatmodel.abstract(open(p, "rb").read())["subgraphs"][0], flatmodel.abstract(open(out, "rb").read())["subgraphs"][0])


def island():
    """in -> conv (NPU) -> DEQUANTIZE -> [float operators: CPU] -> QUANTIZE -> conv (NPU)"""
    n = netgen.Net(1)
    x = n.fm("in", [1, 8, 8, 8], scale=0.05, zp=1, is_input=True)
    c = n.conv(x, 8, 1, name="head")
    f = n.fm("f0", [1, 8, 8, 8], "FLOAT32", None)
    n.op("DEQUANTIZE", [c], [f])
    return n, f


def close(n, f):
    q = n.fm("requant", [1, 8, 8, 8], "INT8", 0.05, 1)
    n.op("QUANTIZE", [f], [q])
    return n.desc([n.conv(q, 8, 1, name="tail")])


def tensor(sg, name):
    return next(t for t in sg["tensors"] if t["name"] == name)["fields"]


# F-1  TRANSPOSE_CONV kept on the CPU loses its fused activation function (TransposeConvOptions.fused_activation_function
#      is not in the member list of tflite_mapping.py, so it is neither read nor written)
n, f = island()
osz = n.const("tc_oshape", [4], "INT32", data=[1, 8, 8, 8])
w = n.const("tc_w", [8, 3, 3, 8], "FLOAT32", data={"fill": 0.5})
b = n.const("tc_b", [8], "FLOAT32", data={"fill": 0.0})
y = n.fm("tc", [1, 8, 8, 8], "FLOAT32", None)
n.op("TRANSPOSE_CONV", [osz, w, f, b], [y], ["TransposeConvOptions", {"Padding": 0, "StrideW": 1, "StrideH": 1,
                                                                     "FusedActivationFunction": 1}])
S, O = vela("F1_tconv_fused_relu", close(n, y))
if S:
    print("F1 TRANSPOSE_CONV options   src %s\n%31s out %s" % (
        next(o for o in S["ops"] if o["code"] == "TRANSPOSE_CONV")["opts"], "",
        next(o for o in O["ops"] if o["code"] == "TRANSPOSE_CONV")["opts"]))

# F-2  DEPTHWISE_CONV_2D kept on the CPU with the implicit depth multiplier 0 comes back with an explicit value
n, f = island()
w = n.const("dw_w", [1, 3, 3, 8], "FLOAT32", data={"fill": 0.5})
b = n.const("dw_b", [8], "FLOAT32", data={"fill": 0.0})
y = n.fm("dw", [1, 8, 8, 8], "FLOAT32", None)
n.op("DEPTHWISE_CONV_2D", [f, w, b], [y], ["DepthwiseConv2DOptions", {"Padding": 0, "StrideW": 1, "StrideH": 1,
                                                                     "DepthMultiplier": 0}])
S, O = vela("F2_dwconv_depth_mult_0", close(n, y))
if S:
    print("F2 DEPTHWISE_CONV_2D depth_multiplier   src %s  out %s" % (
        next(o for o in S["ops"] if o["code"] == "DEPTHWISE_CONV_2D")["opts"]["DepthMultiplier"],
        next(o for o in O["ops"] if o["code"] == "DEPTHWISE_CONV_2D")["opts"]["DepthMultiplier"]))

# F-3  float tensors that carry min / max but no scale lose them (reader: quantisation = None when scale and zero point
#      are both absent), also on a subgraph output
n, f = island()
y = n.fm("g", [1, 8, 8, 8], "FLOAT32", None)
n.op("GELU", [f], [y], ["GeluOptions", {"Approximate": True}])
net = close(n, y)
for t in net["tensors"]:
    if t["name"] in ("f0", "g"):
        t["min"], t["max"] = [-1.0], [1.0]
net["outputs"].append(next(i for i, t in enumerate(net["tensors"]) if t["name"] == "g"))
S, O = vela("F3_float_minmax_only", net)
if S:
    print("F3 subgraph output g min/max   src %s/%s  out %r/%r" % (tensor(S, "g")["min"], tensor(S, "g")["max"],
                                                                  tensor(O, "g")["min"], tensor(O, "g")["max"]))

# F-4  shape_signature / has_rank of interface tensors are dropped (never read, never written)
n = netgen.Net(1)
x = n.fm("in", [1, 8, 8, 8], scale=0.05, zp=1, is_input=True)
n.t[x]["shape_signature"] = [-1, 8, 8, 8]
n.t[x]["has_rank"] = True
y = n.conv(x, 8, 1, name="out")
n.t[y]["shape_signature"] = [-1, 8, 8, 8]
S, O = vela("F4_shape_signature", n.desc([y]))
if S:
    for nm in ("in", "out"):
        print("F4 %-3s shape_signature / has_rank   src %s / %s  out %r / %s" % (
            nm, tensor(S, nm)["shape_signature"], tensor(S, nm)["has_rank"], tensor(O, nm)["shape_signature"],
            tensor(O, nm)["has_rank"]))
shutil.rmtree(D, ignore_errors=True)
