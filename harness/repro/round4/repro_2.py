#!/venv/bin/python
"""repro_2: a constant tensor that is also listed as a model OUTPUT disappears from the output list (C11 SameInterface).

Model: in -> ADD(in, k) -> add0, subgraph outputs = [add0, k] with k a constant int8 tensor that also feeds the
(NPU-placed) ADD.  The compiled model's subgraph outputs are [add0] only: the application loses an output it could read
from the source model.  Runs the real compiler (python -m ethosu.vela) and compares the output lists of both files.
exit status 1 = defect present, 0 = absent."""
import os, shutil, subprocess, sys, tempfile
sys.path.insert(0, "/verif")
from harness import netgen
from harness.common import ensure_repo_on_path, REPO
ensure_repo_on_path()
from ethosu.vela.tflite import Model


def outputs(path):
    buf = open(path, "rb").read()
    sg = Model.Model.GetRootAsModel(buf, 0).Subgraphs(0)
    return [sg.Tensors(sg.Outputs(i)).Name().decode() for i in range(sg.OutputsLength())]


bad = 0
for accel in ("ethos-u55-128", "ethos-u65-256"):
    n = netgen.Net(2)
    x = n.fm("in", [1, 4, 8, 8], is_input=True)
    k = n.const("k", [1, 4, 8, 8], "INT8", -100, 100, scale=[0.02], zp=[0])
    a = n.eltwise("ADD", x, k)
    d = tempfile.mkdtemp(prefix="repro2-", dir="/var/tmp")
    try:
        src = os.path.join(d, "m.tflite")
        open(src, "wb").write(netgen.build(n.desc([a, k])))
        p = subprocess.run([sys.executable, "-m", "ethosu.vela", src, "--output-dir", d, "--accelerator-config", accel],
                           cwd=d, env=dict(os.environ, PYTHONPATH=REPO), capture_output=True, text=True)
        if p.returncode != 0:
            print(accel, "compile failed", (p.stdout + p.stderr)[-400:]); bad += 1; continue
        s, c = outputs(src), outputs(os.path.join(d, "m_vela.tflite"))
        print(accel, "source outputs", s, "-> compiled outputs", c)
        bad += s != c
    finally:
        shutil.rmtree(d, ignore_errors=True)
print("DEFECT: the compiled model has a different output list" if bad else "ok")
sys.exit(1 if bad else 0)
