"""Grouped CONV_2D (weights [oc, kh, kw, ifm_depth / groups]): convert_conv_groups creates the split axis as a const
tensor of shape [0]/values [-1]; Operation.get_split_inputs_axis does int(axis_tens.values) on a 1-element array ->
TypeError "only 0-dimensional arrays can be converted to Python scalars" under the installed numpy.
Run: /venv/bin/python /verif/harness/repro/round4/repro_3.py"""
import sys
import repro_common
sys.exit(repro_common.run(["conv_groups2", "conv_groups4"]))
