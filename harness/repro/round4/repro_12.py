"""STRIDED_SLICE with new_axis_mask (inside the documented constraints: 4 inputs, constant begin/end/strides, strides 1,
no ellipsis, no shrink mask): in [H,W,C], begin [0,2,0,0], end [1,H,W,C], new_axis_mask 1, begin_mask 0b1100,
end_mask 0b1110, i.e. out = in[newaxis, 2:, :, :] with shape [1,H-2,W,C].
TFLiteSemantic._get_slice_offsets walks the *input* rank and indexes begin/end/masks with the input dimension, ignoring
that entry 0 belongs to the new axis: the begin value 2 meant for H is applied to W (and end[0] = 1 to H).
Emitted artefact: the copy reads from IFM address + 2 * C (two columns in) instead of + 2 * W * C (two rows down) and
walks H-2 rows from there: the last rows run past the bytes that belong to the positions it is meant to read
(C03 ReadsIntended).  The variant without offset (single:sslice_newaxis) compiles to a correct copy but carries the
inconsistent read window [0,+1) on H (C10 PadAfter).
Run: /venv/bin/python /verif/harness/repro/round4/repro_12.py"""
import random
import sys
import repro_stream as rs
from harness import corpus

rng = random.Random(0)
label, net = corpus.f_single(rng, 1, "sslice_newaxis_off")
t = {t["name"]: t for t in net["tensors"]}
H, W, C = t["in"]["shape"]
print(label, "IFM", t["in"]["shape"], "begin", t["sslice0_begin"]["data"], "end", t["sslice0_end"]["data"], net["ops"][0]["opts"][1],
      "OFM", t["sslice0"]["shape"])
x, ss, lgs = rs.compile_and_decode(net, {"accel": "ethos-u55-128"})
bad = 0
for s, lg in zip(ss, lgs):
    for o, c in zip(s["ops"], lg["cmds"]):
        if o["kind"] == "dma":
            continue
        r = o["regs"]
        off = r["NPU_SET_IFM_BASE0"] - c["ifm"]["addr"]
        print("op %d %s: IFM tensor at %d, IFM_BASE0 = %d (offset %d bytes), read offsets recorded by Vela %s, read shape %s" % (
            o["index"], c["name"], c["ifm"]["addr"], r["NPU_SET_IFM_BASE0"], off, c["read_offsets"][0], c["read_shapes"][0]))
        print("   expected offset for in[2:, :, :] = 2 * W * C = %d bytes" % (2 * W * C))
        if off != 2 * W * C:
            bad += 1
            print("   -> WRONG: the copy starts %d bytes into the tensor (= 2 * C: two columns), not two rows" % off)
sys.exit(1 if bad else 0)
