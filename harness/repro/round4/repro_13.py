"""SOFTMAX int8 [1,4,3,21] on ethos-u55-32 (Ethos_U55_High_End_Embedded / Shared_Sram, Performance, HillClimb):
the REDUCE_SUM pooling operation of the softmax lowering follows the operation that produces its IFM (depth 21, written in
depth blocks 16 + 5).  REDUCE_SUM reads the whole IFM depth for every OFM element, but calc_blockdep sizes the first-job
input volume with get_ifm_ofm_block_depth() = OFM depth = 1, finds no overlap with the producer's last block
(depth 16..20) and emits BLOCKDEP = 1: the first job of the REDUCE_SUM may start while the producer's last block job is
still outstanding, and that job writes bytes the REDUCE_SUM job reads (C04 BlockDepSafe; same family as the repaired D5).
The failing network / options are in repro_13_case.json (replay file of the check).
Run: /venv/bin/python /verif/harness/repro/round4/repro_13.py"""
import json
import sys
import repro_stream as rs
from harness import npuhw

rp = json.load(open("/verif/harness/repro/round4/repro_13_case.json"))["replay"]
print(rp["family"], rp["opts"])
x, ss, lgs = rs.compile_and_decode(rp["net"], rp["opts"])
bad = 0
for s in ss:
    prev = None
    for o in s["ops"]:
        if o["kind"] == "dma":
            continue
        g = npuhw.geometry(o["kind"], o["regs"])
        bd = o["regs"].get("NPU_SET_BLOCKDEP", 0)
        if prev is not None and o["kind"] == "pool" and o["param"] == 2:
            pg = npuhw.geometry(prev["kind"], prev["regs"])
            print("op %d REDUCE_SUM: IFM depth %d, OFM %dx%dx%d block %dx%dx%d, BLOCKDEP = %d" % (
                o["index"], g["id"], g["oh"], g["ow"], g["od"], g["bh"], g["bw"], g["bd"], bd))
            print("   producer op %d (%s): OFM %dx%dx%d in blocks %dx%dx%d" % (
                prev["index"], prev["kind"], pg["oh"], pg["ow"], pg["od"], pg["bh"], pg["bw"], pg["bd"]))
            rd0 = npuhw.first_jobs_read(o, s["accel"], 1)[0]
            for k, (reg, iv) in enumerate(npuhw.last_jobs_written(prev, s["accel"], 3)):
                hit = any(reg == r2 and npuhw.intervals_intersect(iv, iv2) for (r2, iv2) in rd0)
                print("   producer job %d from its end writes %d bytes; read by job 0 of the REDUCE_SUM: %s" % (
                    k, sum(b - a for a, b in iv), hit))
                if hit and k < bd:
                    bad += 1
                    print("   -> WRONG: BLOCKDEP %d lets job 0 start with %d producer job(s) outstanding, job %d from the end "
                          "writes what it reads" % (bd, bd, k))
        prev = o
sys.exit(1 if bad else 0)
