"""UNIDIRECTIONAL_SEQUENCE_LSTM inside the documented constraints (int8, 24 inputs, 5 intermediates, variable state
tensors, no CIFG/peephole/projection/normalisation), batch-major (time_major = False):
every Ethos-U55 configuration aborts - AssertionError "Tensors assigned to the same LiveRange need to fit the size of
the LiveRange" (live_range.merge_elementwise_op_ranges fuses the NHCWB16 output of cell_state*forget_gate into the
live range of the linear variable cell-state tensor) or TypeError in Tensor.address_for_coordinate (the per-batch
clone `<cell_state>_state#0`, mem_type Scratch_fast, never receives an address).  Ethos-U65 and time_major = True compile.
Run: /venv/bin/python /verif/harness/repro/round4/repro_6.py"""
import sys
import repro_common
rc = repro_common.run(["lstm", "lstm_batch2", "lstm_t1"], accels=("ethos-u55-32", "ethos-u55-128", "ethos-u55-256", "ethos-u65-256"))
print("\ncontrol (time major):")
repro_common.run(["lstm_time_major"])
sys.exit(rc)
