"""PAD that pads the first (or last) dimension together with other dimensions.  convert_pad_to_concat (run before the
supported-operator rewrites) turns the PAD into a concatenation along that one axis and silently drops every other
padding; the OFM keeps its full padded shape, the concatenation writes only part of it, and the Add that
add_add_op_after_concat appends reads the whole OFM (C03 NoUninitRead / ReadsIntended on pad0_concat_add).
 a) rank 3: [8,4,3] padded [[1,1],[2,2],[0,0]] -> [10,8,3]: only columns 0..3 of the OFM are written
 b) rank 4: [1,H,W,C] padded [[0,0],[1,1],[1,1],[0,2]]: only the channel padding survives
Run: /venv/bin/python /verif/harness/repro/round4/repro_8.py"""
import random
import sys
import repro_stream as rs
from harness import corpus, npuhw

bad = 0
for kind in ("pad_r3", "pad_hw_channel"):
    rng = random.Random(0)
    label, net = corpus.f_single(rng, 1, kind)
    t = {t["name"]: t for t in net["tensors"]}
    print("==", label, "IFM", t["in"]["shape"], "paddings", t["pad0_p"]["data"], "OFM", t["pad0"]["shape"])
    x, ss, lgs = rs.compile_and_decode(net, {"accel": "ethos-u55-128"})
    for s, lg in zip(ss, lgs):
        written = []
        for o, c in zip(s["ops"], lg["cmds"]):
            if o["kind"] == "dma":
                continue
            fp = npuhw.footprint(o, s["accel"])
            ofm = [iv for (w, reg, iv) in fp["wr"] if w == "ofm"][0]
            ifm = [iv for (w, reg, iv) in fp["rd"] if w == "ifm"][0]
            print("  op %d %-28s %-8s reads %-18s %6d bytes, writes %-14s %6d bytes" % (
                o["index"], c["name"], c["op"], c["ifm"]["name"], sum(b - a for a, b in ifm), c["ofm"]["name"],
                sum(b - a for a, b in ofm)))
            if c["name"].endswith("_add"):
                tot = sum(b - a for a, b in ifm)
                cov = sum(max(0, min(b, d) - max(a, c_)) for (a, b) in ifm for (c_, d) in npuhw.merge((p, q - p) for p, q in written))
                print("  -> the Add reads %d bytes of %s, of which %d were written by the preceding operations" % (
                    tot, c["ifm"]["name"], cov))
                if cov < tot:
                    bad += 1
                    print("  -> WRONG: %d bytes are read without ever having been written" % (tot - cov))
            else:
                written += ofm
sys.exit(1 if bad else 0)
