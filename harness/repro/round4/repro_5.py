"""RESIZE_BILINEAR, align_corners = True, IFM 1x1x6x8 -> OFM 1x1x11x8 (height 1 on both sides):
constraint_resize computes (ofm_h - 1) / (ifm_h - 1) = 0 / 0 = NaN and int(NaN) raises ValueError inside the
supported-operator check itself -> traceback instead of a CPU fall-back.
Run: /venv/bin/python /verif/harness/repro/round4/repro_5.py"""
import sys
import repro_common
sys.exit(repro_common.run(["rb_ac_x2_h1"]))
