"""RESIZE_NEAREST_NEIGHBOR with align_corners = True and OFM-1 = 2x/4x/8x (IFM-1) (documented as supported):
convert_resizenn_ac_to_depthwise_conv reshapes k*k weight values into [k, k, depth, depth] -> ValueError for every
depth > 1 (nn_ac_x2_c1 with depth 1 compiles).  Run: /venv/bin/python /verif/harness/repro/round4/repro_4.py"""
import sys
import repro_common
rc = repro_common.run(["nn_ac_x2", "nn_ac_x4", "nn_ac_x8"])
print("\ncontrol (depth 1):")
repro_common.run(["nn_ac_x2_c1"])
sys.exit(rc)
