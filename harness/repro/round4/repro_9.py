"""PACK (or CONCATENATION) whose result has batch > 1, consumed on the NPU: conv -> reshape [2,H/2,W,C] -> UNPACK ->
(ABS, identity) -> PACK axis 0 -> reshape [1,H,W,C] -> conv.  add_add_op_after_concat appends an Add over the packed
tensor [2,4,8,16]; the emitted elementwise operation has OFM_HEIGHT 4 (batch 0 only).  The second half of the Add's OFM
(which the final convolution reads as rows 4..7) is never written by it: those bytes still belong to the tensor that was
allocated there before (C03 ReadsIntended on conv6).
Run: /venv/bin/python /verif/harness/repro/round4/repro_9.py"""
import random
import sys
import repro_stream as rs
from harness import corpus_ops, npuhw

rng = random.Random(5)
label, net = corpus_ops.f_memonly(rng, 3, style="unpack_pack")
print(label, [o["op"] for o in net["ops"]])
x, ss, lgs = rs.compile_and_decode(net, {"accel": "ethos-u55-256"})
bad = 0
for s, lg in zip(ss, lgs):
    last_writer = {}
    for o, c in zip(s["ops"], lg["cmds"]):
        if o["kind"] == "dma":
            continue
        fp = npuhw.footprint(o, s["accel"])
        g = fp["geom"]
        ofm = [iv for (w, reg, iv) in fp["wr"] if w == "ofm"][0]
        ifm = [iv for (w, reg, iv) in fp["rd"] if w == "ifm"][0]
        print("  op %d %-22s %-10s logical OFM shape %-16s emitted OFM %dx%dx%d -> writes %d of %d bytes of %s" % (
            o["index"], c["name"], c["op"], c["ofm"]["shape"], g["oh"], g["ow"], g["od"], sum(b - a for a, b in ofm),
            c["ofm"]["size"], c["ofm"]["name"]))
        for (a, b) in ifm:
            for addr in range(a, b):
                w = last_writer.get(addr)
                if w is not None and w != c["ifm"]["name"]:
                    bad += 1
                    print("  -> WRONG: op %d (%s) reads %s at byte %d..: last written as %s" % (o["index"], c["name"], c["ifm"]["name"], addr, w))
                    break
            else:
                continue
            break
        for (a, b) in ofm:
            for addr in range(a, b):
                last_writer[addr] = c["ofm"]["name"]
sys.exit(1 if bad else 0)
