"""A CPU-placed operator with omitted optional inputs (tensor index -1): UNIDIRECTIONAL_SEQUENCE_LSTM with peephole weights
(falls back to the CPU: "Must not use Peephole") still has -1 for projection / normalisation inputs.  With
--show-cpu-operations (or --verbose-all) stats_writer.format_tens_list does tens.shape on those None inputs ->
AttributeError traceback after the output file was written; rc = 1, no diagnosis.  Without the option it compiles.
Run: /venv/bin/python /verif/harness/repro/round4/repro_10.py"""
import os
import random
import shutil
import sys

sys.path.insert(0, "/verif")
os.environ.setdefault("ETHOS_U_VELA_VERIF", "1")
os.environ["VERIF_CORPUS_OPS"] = "1"
from harness import corpus, netgen, vela_run  # noqa: E402

rng = random.Random(0)
label, net = corpus.f_single(rng, 1, "lstm_peephole")
d = "/verif/harness/repro/round4/r10"
os.makedirs(d, exist_ok=True)
with open(os.path.join(d, "m.tflite"), "wb") as f:
    f.write(netgen.build(net))
rc = 0
for extra in ([], ["--show-cpu-operations"]):
    r = vela_run.run_cli(os.path.join(d, "m.tflite"), {"accel": "ethos-u55-128", "extra": extra}, d)
    tail = (r["stdout"] + r["stderr"]).strip().splitlines()[-3:]
    print("options %-28s rc=%s output=%s" % (extra, r["rc"], bool(r["output"])))
    if r["rc"] != 0:
        rc = 1
        for line in tail:
            print("     " + line)
shutil.rmtree(d, ignore_errors=True)
sys.exit(rc)
