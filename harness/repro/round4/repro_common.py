"""shared by repro_<n>.py: build a single-kind network of the corpus, compile it with the real CLI code path
(vela.main in a forked child, harness/vela_run.compile_many) and print the outcome"""
import os
import random
import sys

sys.path.insert(0, "/verif")
os.environ.setdefault("ETHOS_U_VELA_VERIF", "1")
os.environ["VERIF_CORPUS_OPS"] = "1"
from harness import corpus, netgen, vela_run  # noqa: E402


def run(kinds, accels=("ethos-u55-128", "ethos-u65-256"), seed=0, expect=None, save=None):
    bad = 0
    for k in kinds:
        rng = random.Random(seed * 7919 + 11)
        label, net = corpus.f_single(rng, rng.randrange(1 << 20), k)
        if save:
            with open(save % k, "wb") as f:
                f.write(netgen.build(net))
        print("== %s: operators %s" % (label, [o["op"] for o in net["ops"]]))
        for t in net["tensors"]:
            if "data" not in t or len(t["shape"]) <= 1:
                print("     tensor %-28s %-6s %s%s" % (t["name"], t["type"], t["shape"],
                                                   " const=%s" % (t["data"],) if isinstance(t.get("data"), list) else ""))
        for o in net["ops"]:
            print("     op %s opts=%s" % (o["op"], o.get("opts")))
        for acc in accels:
            x = vela_run.compile_many([{"id": 0, "net": net, "opts": {"accel": acc}}])[0]
            tail = (x.get("exc") or x.get("stdout") or "").strip().splitlines()
            ok = x["rc"] == 0 and x.get("out_bytes")
            print("   %-14s rc=%s output_file=%s" % (acc, x["rc"], bool(x.get("out_bytes"))))
            if not ok:
                bad += 1
                for line in tail[-6:]:
                    print("        " + line)
    print("\n%d compilation(s) ended with a Python exception instead of an output file or a diagnosis" % bad)
    return 1 if bad else 0
