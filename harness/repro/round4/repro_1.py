#!/venv/bin/python
"""repro_1: an NPU-placed ARG_MAX changes the shape of the model OUTPUT tensor (C11 SameInterface).

ARG_MAX over the depth axis of a [1, H, W, C] int8 tensor has the output shape [1, H, W]; the output model written by
Vela declares the same subgraph output (same name) with the shape [1, H, W, 1] (rank 2 / 3 inputs: [N] -> [N, 1],
[H, W] -> [H, W, 1]).  An application that sizes / indexes the output from the source model sees a different interface.
Runs the real compiler (python -m ethosu.vela) on a generated model and compares the interface tensors of both files.
exit status 1 = defect present, 0 = absent."""
import os, shutil, subprocess, sys, tempfile
sys.path.insert(0, "/verif")
from harness import netgen
from harness.common import ensure_repo_on_path, REPO
ensure_repo_on_path()
from ethosu.vela.tflite import Model


def outputs(path):
    buf = open(path, "rb").read()
    sg = Model.Model.GetRootAsModel(buf, 0).Subgraphs(0)
    return [(sg.Tensors(sg.Outputs(i)).Name().decode(), list(sg.Tensors(sg.Outputs(i)).ShapeAsNumpy())) for i in range(sg.OutputsLength())]


bad = 0
for shape in ([1, 7, 8, 16], [13, 4, 8], [8, 21]):
    n = netgen.Net(1)
    x = n.fm("in", shape, is_input=True)
    y = n.argmax(x)
    d = tempfile.mkdtemp(prefix="repro1-", dir="/var/tmp")
    src = os.path.join(d, "m.tflite")
    open(src, "wb").write(netgen.build(n.desc([y])))
    p = subprocess.run([sys.executable, "-m", "ethosu.vela", src, "--output-dir", d, "--accelerator-config", "ethos-u55-128"],
                       cwd=d, env=dict(os.environ, PYTHONPATH=REPO), capture_output=True, text=True)
    if p.returncode != 0:
        print("compile failed", p.stderr[-400:]); bad += 1; shutil.rmtree(d, ignore_errors=True); continue
    a, b = outputs(src), outputs(os.path.join(d, "m_vela.tflite"))
    print("source outputs", a, "-> compiled outputs", b)
    shutil.rmtree(d, ignore_errors=True)
    if a != b:
        bad += 1
print("DEFECT: model output shape changed by the compiler" if bad else "ok")
sys.exit(1 if bad else 0)
