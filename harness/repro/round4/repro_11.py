"""LOG and SQRT are placed on the NPU by this fork (unary elementwise -> LUT, convert_ops_to_lut).
 * int16 IFM (zero point 0, so the quantised range covers negative reals): create_lut_int16_op evaluates math.log /
   math.sqrt over the whole int16 range -> ValueError "math domain error", traceback, no output, no diagnosis
 * uint8 IFM: passes the supported-operator check, convert_ops_to_lut hits `assert False, "Unsupported data type"`.
int8 LOG / SQRT (controls) compile.  Run: /venv/bin/python /verif/harness/repro/round4/repro_11.py"""
import sys
import repro_common
rc = repro_common.run(["log_i16", "sqrt_i16", "log_u8"])
print("\ncontrols:")
repro_common.run(["log", "sqrt"])
sys.exit(rc)
