"""TRANSPOSE_CONV, stride 1x1, VALID padding, 3x3 kernel, IFM 1x7x8x3 -> OFM 1x9x10x16 (inside the documented constraints,
placed on the NPU).  fixup_conv2d_backprop only sets the TRANSPOSE resampling mode for stride 2, so add_padding_fields takes
calc_padding_and_skirt(VALID) = no padding: the emitted NPU_OP_CONV has a 3x3 kernel, all IFM_PAD_* = 0, OFM 9x10 and an
IFM of 7x8.  A 9x10 output of an unpadded 3x3 kernel needs IFM rows 0..10 and columns 0..11; rows >= 7 and columns >= 8 are
fetched through tile 2 / tile 1 (IFM_HEIGHT0_M1 = 6, IFM_WIDTH0_M1 = 7, BASE1 = BASE2 = BASE0), i.e. the operation
consumes bytes that are not the elements it is meant to read (C03 ReadsIntended; C10 Exact fails on the same stripe).
Run: /venv/bin/python /verif/harness/repro/round4/repro_7.py"""
import random
import sys
import repro_stream as rs
from harness import corpus, npuhw

rng = random.Random(0)
label, net = corpus.f_single(rng, 1, "tconv_s1_valid")
shapes = {t["name"]: t["shape"] for t in net["tensors"]}
print(label, "IFM", shapes["in"], "OFM", shapes["tconv0"], "options", net["ops"][0]["opts"])
x, ss, lg = rs.compile_and_decode(net, {"accel": "ethos-u55-128"})
bad = 0
for s in ss:
    for o in s["ops"]:
        if o["kind"] != "conv":
            continue
        r = o["regs"]
        g = npuhw.geometry("conv", r)
        ih_tensor, iw_tensor = r["NPU_SET_IFM_HEIGHT0_M1"] + 1, r["NPU_SET_IFM_WIDTH0_M1"] + 1
        print("NPU_OP_CONV: kernel %dx%d stride %dx%d pads t/b/l/r = %d/%d/%d/%d OFM %dx%dx%d" % (
            g["kh"], g["kw"], g["sy"], g["sx"], g["pt"], g["pb"], g["pl"], g["pr"], g["oh"], g["ow"], g["od"]))
        print("  IFM registers:", rs.show_fm(r, "IFM"))
        print("  rows x columns of the IFM the kernel walks over: %d x %d; IFM tensor (tile 0): %d x %d" % (
            g["ih"], g["iw"], ih_tensor, iw_tensor))
        if g["ih"] > shapes["in"][1] or g["iw"] > shapes["in"][2]:
            bad += 1
            print("  -> WRONG: the operation reads %d rows / %d columns of a %d x %d feature map" % (
                g["ih"], g["iw"], shapes["in"][1], shapes["in"][2]))
sys.exit(1 if bad else 0)
