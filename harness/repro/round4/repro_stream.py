"""helpers for repro_7..9: compile a network, decode the emitted command stream of the output file (harness/streams)
and print the registers / footprints that show the defect"""
import os
import sys

sys.path.insert(0, "/verif")
os.environ.setdefault("ETHOS_U_VELA_VERIF", "1")
os.environ["VERIF_CORPUS_OPS"] = "1"
from harness import logical, npuhw, streams, vela_run  # noqa: E402


def compile_and_decode(net, opts):
    x = vela_run.compile_many([{"id": 0, "net": net, "opts": opts}], extractor=logical.extract)[0]
    if x["rc"] != 0:
        print("compilation failed:", (x.get("exc") or x["stdout"])[-800:])
        sys.exit(2)
    _, ss = streams.analyse(x["out_bytes"], opts["accel"])
    return x, ss, x["extract"]


def show_fm(regs, pfx):
    keys = ["BASE0", "BASE1", "BASE2", "BASE3", "HEIGHT0_M1", "HEIGHT1_M1", "WIDTH0_M1", "STRIDE_Y", "STRIDE_X", "STRIDE_C"]
    return {k: regs.get("NPU_SET_%s_%s" % (pfx, k)) for k in keys}
