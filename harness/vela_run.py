"""Compile networks with the working tree: through the real CLI (subprocess) or in a forked
child that calls vela.main() and additionally hands the in-memory graph to an extractor.

A job is {"id", "net": description | "model": path, "opts": {...}}.
opts keys (all optional): accel, config, system_config, memory_mode, optimise, allocator, arena,
align, max_blockdep, hillclimb_iter, extra (list of raw CLI arguments).
"""
import io
import multiprocessing as mp
import os
import shutil
import subprocess
import sys
import time
import traceback

from . import codec, netgen
from .common import PY, REPO, scratch

ARM_INI = os.path.join(REPO, "ethosu", "config_files", "Arm", "vela.ini")


def cli_args(opts):
    a = []
    m = [("accel", "--accelerator-config"), ("system_config", "--system-config"), ("memory_mode", "--memory-mode"),
         ("optimise", "--optimise"), ("allocator", "--tensor-allocator"), ("arena", "--arena-cache-size"),
         ("align", "--cpu-tensor-alignment"), ("max_blockdep", "--max-block-dependency"),
         ("hillclimb_iter", "--hillclimb-max-iterations"), ("recursion", "--recursion-limit")]
    for k, flag in m:
        if opts.get(k) is not None:
            a += [flag, str(opts[k])]
    if opts.get("config"):
        for c in (opts["config"] if isinstance(opts["config"], list) else [opts["config"]]):
            a += ["--config", c]
    a += list(opts.get("extra", []))
    return a


def _env():
    e = dict(os.environ)
    e["PYTHONPATH"] = codec.shim_dir() + os.pathsep + REPO
    e.setdefault("PYTHONHASHSEED", "0")
    return e


def run_cli(model_path, opts, outdir, cwd=None, timeout=300, hashseed=None):
    """One real invocation of `python -m ethosu.vela`."""
    args = [PY, "-m", "ethosu.vela", model_path, "--output-dir", outdir] + cli_args(opts)
    e = _env()
    if hashseed is not None:
        e["PYTHONHASHSEED"] = str(hashseed)
    t0 = time.time()
    try:
        p = subprocess.run(args, cwd=cwd or outdir, env=e, capture_output=True, text=True, timeout=timeout)
        rc, out, err, to = p.returncode, p.stdout, p.stderr, False
    except subprocess.TimeoutExpired as ex:
        rc, out, err, to = -9, (ex.stdout or b"").decode(errors="replace") if isinstance(ex.stdout, bytes) else "", "", True
    base = os.path.splitext(os.path.basename(model_path))[0]
    ofile = os.path.join(outdir, base + "_vela.tflite")
    res = {"rc": rc, "stdout": out, "stderr": err, "timeout": to, "wall": time.time() - t0,
           "output": ofile if os.path.exists(ofile) else None, "args": args[2:]}
    csvs = [f for f in os.listdir(outdir) if f.startswith(base + "_summary_") and f.endswith(".csv")] if os.path.isdir(outdir) else []
    res["summary_csv"] = os.path.join(outdir, csvs[0]) if csvs else None
    return res


# ------------------------------------------------------------------ in-process (forked child per job)
def _child(job, extractor, conn):
    try:
        sys.setrecursionlimit(10000)
        codec.inject()
        from ethosu.vela import vela
        d = scratch("inproc")
        try:
            mpath = os.path.join(d, "m.tflite")
            if "net" in job:
                with open(mpath, "wb") as f:
                    f.write(netgen.build(job["net"]))
            else:
                shutil.copy(job["model"], mpath)
            captured = {}
            real_process = vela.process

            def process(input_name, enable_debug_db, arch, *a, **k):
                captured["arch"] = arch
                nng = real_process(input_name, enable_debug_db, arch, *a, **k)
                captured["nng"] = nng
                return nng

            vela.process = process
            # capture at file-descriptor level (some printers bind sys.stdout at import time)
            sys.stdout.flush()
            sys.stderr.flush()
            cap = open(os.path.join(d, "stdout.txt"), "w+")
            os.dup2(cap.fileno(), 1)
            os.dup2(cap.fileno(), 2)
            exc = None
            try:
                rc = vela.main([mpath, "--output-dir", d] + cli_args(job.get("opts", {})))
            except SystemExit as ex:
                rc = ex.code if isinstance(ex.code, int) else 2
            except BaseException:
                rc = -1
                exc = traceback.format_exc()
            finally:
                sys.stdout.flush()
                sys.stderr.flush()
            cap.seek(0)
            res = {"id": job.get("id"), "rc": rc, "stdout": cap.read(), "stderr": "", "exc": exc}
            ofile = os.path.join(d, "m_vela.tflite")
            if os.path.exists(ofile):
                with open(ofile, "rb") as f:
                    res["out_bytes"] = f.read()
            with open(mpath, "rb") as f:
                res["in_bytes"] = f.read()
            csvs = [f for f in os.listdir(d) if "_summary_" in f and f.endswith(".csv")]
            if csvs:
                with open(os.path.join(d, csvs[0])) as f:
                    res["summary_csv"] = f.read()
            if extractor is not None and ((rc == 0 and "nng" in captured) or getattr(extractor, "on_failure", False)):
                try:
                    res["extract"] = extractor(captured.get("nng"), captured.get("arch"), res)
                except BaseException:
                    res["extract_error"] = traceback.format_exc()
        finally:
            shutil.rmtree(d, ignore_errors=True)
        conn.send(res)
    except BaseException:
        try:
            conn.send({"id": job.get("id"), "rc": -2, "exc": traceback.format_exc(), "stdout": "", "stderr": ""})
        except Exception:
            pass
    finally:
        conn.close()
        os._exit(0)


def _run_one(args):
    job, extractor, timeout = args
    ctx = mp.get_context("fork")
    pc, cc = ctx.Pipe(duplex=False)
    p = ctx.Process(target=_child, args=(job, extractor, cc))
    p.start()
    cc.close()
    res = None
    if pc.poll(timeout):
        try:
            res = pc.recv()
        except EOFError:
            res = None
    if res is None:
        res = {"id": job.get("id"), "rc": -9, "exc": "timeout or child died", "stdout": "", "stderr": "",
               "timeout": True}
    p.join(1)
    if p.is_alive():
        p.kill()
        p.join()
    return res


def compile_many(jobs, extractor=None, workers=None, timeout=300):
    """Each job compiled in its own forked interpreter (no state shared between compilations);
    results in job order.  extractor(nng, arch, res) runs in the child and must return JSON-able data."""
    from concurrent.futures import ThreadPoolExecutor
    codec.build()
    # make sure the heavy imports happen once, before forking
    from .common import ensure_repo_on_path
    ensure_repo_on_path()
    codec.inject()
    import ethosu.vela.vela  # noqa: F401
    workers = workers or min(16, os.cpu_count() or 4)
    with ThreadPoolExecutor(workers) as ex:
        return list(ex.map(_run_one, [(j, extractor, timeout) for j in jobs]))
