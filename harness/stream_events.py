"""Projection of analysed command streams onto the ndjson event vocabularies of the trace specifications."""
from . import cells, npuhw


def rkey(reg):
    return "shram" if reg == npuhw.SHRAM else "r%d" % reg


def c02_events(tid, stream, spilling=False, arena_cache=0):
    """NpuMemTrace events for one stream (see spec/NpuMemTrace.tla)."""
    acc = []          # (region, intervals)
    owner = []        # ("ext", key) | ("acc", op index, what, dir)
    for reg, n in stream["extent"].items():
        acc.append((reg, [(0, n)] if n > 0 else []))
        owner.append(("ext", rkey(reg)))
    for o in stream["ops"]:
        if o["fp"] is None:
            continue
        for d, lst in (("r", o["fp"]["rd"]), ("w", o["fp"]["wr"])):
            for (what, reg, iv) in lst:
                acc.append((reg, iv))
                owner.append(("acc", o["index"], what, d, rkey(reg)))
    cl, ncls = cells.classes(acc)
    ext = {}
    per_op = {}
    for c, ow in zip(cl, owner):
        if ow[0] == "ext":
            ext[ow[1]] = c
        else:
            per_op.setdefault(ow[1], []).append({"w": ow[2], "dir": ow[3], "region": ow[4], "cells": c})
    ev = [{"t": tid, "e": "Hdr", "ext": ext, "known": sorted(ext), "spilling": bool(spilling),
           "fast_len": int(stream["extent"][2]), "arena_cache": int(arena_cache)}]
    for o in stream["ops"]:
        if o["fp"] is not None:
            ev.append({"t": tid, "e": "Op", "i": o["index"], "acc": per_op.get(o["index"], [])})
    return ev, ncls


def c04_events(tid, ops, accel):
    """NpuExecTrace events for one stream given as the list of ops_with_waits (+fp) of artefact/streams."""
    acc = []
    slot = []
    prev_kernel = None
    plan = []
    for o in ops:
        fp = o["fp"]
        ent = {"o": o}
        base = len(acc)
        rd = [(reg, iv) for (_, reg, iv) in fp["rd"]]
        wr = [(reg, iv) for (_, reg, iv) in fp["wr"]]
        ent["R"] = list(range(len(acc), len(acc) + len(rd)))
        acc += rd
        ent["W"] = list(range(len(acc), len(acc) + len(wr)))
        acc += wr
        ent["SR"] = [ent["R"][k] for k, (_, reg, _) in enumerate(fp["rd"]) if reg == npuhw.SHRAM]
        ent["SW"] = [ent["W"][k] for k, (_, reg, _) in enumerate(fp["wr"]) if reg == npuhw.SHRAM]
        ent["jr"] = []
        ent["pw"] = []
        if o["kind"] != "dma":
            if prev_kernel is not None:
                for rds in npuhw.first_jobs_read(o, accel):
                    ids = list(range(len(acc), len(acc) + len(rds)))
                    acc += rds
                    ent["jr"].append(ids)
                for (reg, iv) in npuhw.last_jobs_written(prev_kernel, accel):
                    ent["pw"].append([len(acc)])
                    acc.append((reg, iv))
            prev_kernel = o
        plan.append(ent)
    cl, ncls = cells.classes(acc)

    def u(ids):
        s = set()
        for i in ids:
            s.update(cl[i])
        return sorted(s)
    ev = [{"t": tid, "e": "Hdr", "maxdma": npuhw.ACCEL[accel][3]}]
    for ent in plan:
        o = ent["o"]
        for (q, n) in o["waits"]:
            ev.append({"t": tid, "e": "Wait", "q": "k" if q == "kernel" else "d", "n": n})
        ev.append({"t": tid, "e": "Op", "q": "d" if o["kind"] == "dma" else "k", "i": o["index"],
                   "R": u(ent["R"]), "W": u(ent["W"]), "SR": u(ent["SR"]), "SW": u(ent["SW"]),
                   "bd": o["regs"].get("NPU_SET_BLOCKDEP", 0) if o["kind"] != "dma" else 0,
                   "jr": [u(j) for j in ent["jr"]], "pw": [u(j) for j in ent["pw"]]})
    ev.append({"t": tid, "e": "Stop"})
    return ev, ncls
