"""Runs inside the compiling child (extractor for vela_run.compile_many): the *logical* dataflow of every NPU
subgraph - for each high-level command which tensor (storage identity = equivalence id) and which unwrapped
coordinates it reads and writes - as JSON.  Used by C03 (expected writer tags) and C10 (stripe boxes).
Only reads Vela's data structures; physical addresses of accesses are NOT taken from here (they come from the
decoded registers), only tensor identities, logical strides and box coordinates."""
import numpy as np


def _ids():
    table = {}

    def sid(t):
        return table.setdefault(str(t.equivalence_id), len(table) + 1)
    return sid


def _fm(tens, box, op_shape4D, tile_off, sid, get_region, arch, stride_mult=None, is_ofm=False):
    from ethosu.vela.tensor import TensorFormat
    from ethosu.vela.operation import Op
    from ethosu.vela.shape4d import Shape4D
    if tens.shape == []:
        return None
    if is_ofm and tens.ops and tens.ops[0] is not None and tens.ops[0].original_type == Op.Transpose:
        shp = Shape4D([op_shape4D.batch, op_shape4D.width, op_shape4D.height, op_shape4D.depth])
        strides = list(tens.get_strides(shp))
        strides[-3], strides[-2] = strides[-2], strides[-3]
    else:
        strides = list(tens.get_strides(op_shape4D))
    if stride_mult and stride_mult != [1, 1, 1]:
        for i, f in enumerate(stride_mult, start=1):
            strides[i] *= f
    start = [int(v) for v in box.start_coord]
    end = [int(v) for v in box.end_coord]
    start4 = ([0] * (4 - len(start)) + start)[-4:]
    aug = tens.get_augmented_coord(start4)
    base = int(np.dot(aug, strides)) + int(tile_off)
    return {"sid": sid(tens), "name": tens.name, "region": int(get_region(tens.mem_type, arch)),
            "addr": int(tens.address), "size": int(tens.storage_size()), "base": base,
            "Sy": int(strides[2]), "Sx": int(strides[3]), "Sc": int(strides[1]), "es": int(tens.element_size()),
            "b16": tens.format == TensorFormat.NHCWB16, "start": start4, "end": ([0] * (4 - len(end)) + end)[-4:],
            "shape": [int(v) for v in op_shape4D.as_list()], "storage_shape": [int(v) for v in tens.storage_shape],
            "perm": tens.mem_type.name.startswith("Permanent")}


def extract(nng, arch, res):
    from ethosu.vela.nn_graph import PassPlacement
    from ethosu.vela.high_level_command_stream import NpuStripe, DMA
    try:
        from ethosu.vela.high_level_command_stream import NOP
    except ImportError:            # older trees have no NOP command
        NOP = ()
    from ethosu.vela.high_level_command_to_npu_op import get_region
    from ethosu.vela.tensor import TensorPurpose
    from ethosu.vela.weight_compressor import WeightKey
    from ethosu.vela.operation import Op
    out = []
    for sg in nng.subgraphs:
        if sg.placement != PassPlacement.Npu:
            continue
        sid = _ids()
        cmds = []
        aliases = []
        pids = {}
        init = {}

        def add_init(t, region=None):
            if t is None or t.address is None:
                return
            r = int(get_region(t.mem_type, arch)) if region is None else region
            init[(r, int(t.address), sid(t))] = {"region": r, "addr": int(t.address), "size": int(t.storage_size()),
                                               "sid": sid(t), "name": t.name}
        for t in sg.input_tensors:
            add_init(t)
        for cmd in sg.high_level_command_stream:
            if isinstance(cmd, DMA):
                it, ot = cmd.in_tensor, cmd.out_tensor
                d = {"type": "dma", "name": cmd.ps.name, "in": {"sid": sid(it), "addr": int(it.address), "name": it.name,
                                                                "bytes": int(it.elements() * it.dtype.size_in_bytes())},
                     "out": {"sid": sid(ot), "addr": int(ot.address), "name": ot.name}}
                if it.purpose == TensorPurpose.Weights:
                    d["mode"] = "copy"
                    add_init(it)
                elif ot.purpose == TensorPurpose.LUT:
                    d["mode"] = "copy"
                    add_init(it)
                else:
                    d["mode"] = "retag"
                    if it.mem_type.name.startswith("Permanent"):
                        add_init(it)
                cmds.append(d)
                continue
            if NOP and isinstance(cmd, NOP):
                # a feature-map copy that the compiler elided: it claims that source and destination are the same bytes, i.e.
                # that from here on the bytes of in_tensor *are* out_tensor.  No NPU operation is emitted, so it is recorded
                # beside the command list (position = index of the next emitted command) with the region AND offset of both
                # tensors; whether they really are the same bytes (same memory, not just equal offsets) is decided by
                # NpuTagTrace.tla (Alias / ElidedCopySameBytes), not assumed here.
                it, ot = cmd.in_tensor, cmd.out_tensor
                if it.address is not None and ot.address is not None:
                    aliases.append({"before": len(cmds), "name": cmd.ps.name,
                                    "in": {"sid": sid(it), "addr": int(it.address), "size": int(it.storage_size()),
                                           "region": int(get_region(it.mem_type, arch)), "name": it.name},
                                    "out": {"sid": sid(ot), "addr": int(ot.address), "size": int(ot.storage_size()),
                                            "region": int(get_region(ot.mem_type, arch)), "name": ot.name}})
                    if it.mem_type.name.startswith("Permanent"):
                        add_init(it)
                continue
            if not isinstance(cmd, NpuStripe):
                continue
            ps = cmd.ps
            op = ps.primary_op
            # pass names are not unique (every average pool a SPLIT / UNPACK is lowered to carries the same name):
            # "pid" numbers the distinct passes of the subgraph in first-seen order
            d = {"type": "stripe", "name": ps.name, "pid": pids.setdefault(id(ps), len(pids)), "op": op.type.name, "orig": op.original_type.name if op.original_type else None,
                 "first_h": bool(cmd.is_first_h_stripe), "last_h": bool(cmd.is_last_h_stripe)}
            d["ifm"] = _fm(cmd.ifm_tensor, cmd.ifm_box, ps.ifm_shapes[0], op.tile_base_offsets_ifm[0][0], sid, get_region, arch)
            if cmd.ifm2_tensor is not None and len(ps.ifm_shapes) > 1:
                d["ifm2"] = _fm(cmd.ifm2_tensor, cmd.ifm2_box, ps.ifm_shapes[1], op.tile_base_offsets_ifm[1][0], sid, get_region, arch)
            d["ofm"] = _fm(cmd.ofm_tensor, cmd.ofm_box, ps.ofm_shapes[0], op.tile_base_offsets_ofm[0], sid, get_region, arch,
                           op.ofm_stride_multiplier, True)
            for key, t in (("ifm", cmd.ifm_tensor), ("ifm2", cmd.ifm2_tensor)):
                if t is not None and t.shape != [] and t.mem_type.name.startswith("Permanent"):
                    add_init(t)
                elif t is not None and t.shape != [] and getattr(t, "is_variable", False):
                    # TFLite variable tensor (LSTM state): allocated and zeroed by the runtime before the first
                    # invocation and persistent between invocations, i.e. defined on entry like a subgraph input
                    add_init(t)
            if cmd.weight_tensor is not None:
                wt = cmd.weight_tensor
                src = wt.src_tensor if wt.src_tensor is not None else wt
                depth = int(cmd.weight_box.start_coord[-1])
                w = {"sid": sid(src), "buffered": wt is not src, "cores": []}
                for core in range(arch.ncores):
                    k = WeightKey(core, depth)
                    if k in src.encoded_ranges:
                        wr = src.encoded_ranges[k]
                        w["cores"].append({"core": core, "off": int(wr.offset), "scale_bytes": int(wr.scale_bytes),
                                           "weight_off": int(wr.weight_offset), "weight_bytes": int(wr.weight_bytes)})
                if wt is src:
                    add_init(wt)
                # identification of the source constants for C08's artefact-level check (names and shape only; every
                # address, length and byte is taken from the output file)
                w["depth"] = [int(cmd.weight_box.start_coord[-1]), int(cmd.weight_box.end_coord[-1])]
                if op.weights is not None:
                    w["wname"] = op.weights.name
                    w["wshape"] = [int(v) for v in op.weights.shape]
                if op.bias is not None:
                    w["bname"] = op.bias.name
                d["weights"] = w
                if cmd.scale_tensor is not None:
                    st = cmd.scale_tensor
                    add_init(st)
                    sc = {"sid": sid(st), "cores": []}
                    for core in range(arch.ncores):
                        k = WeightKey(core, depth)
                        if k in st.encoded_ranges:
                            sr = st.encoded_ranges[k]
                            sc["cores"].append({"core": core, "off": int(sr.offset), "scale_bytes": int(sr.scale_bytes)})
                    d["scales"] = sc
            luts = [t for t in op.inputs if t is not None and t.purpose == TensorPurpose.LUT]
            if luts and op.activation is not None and op.activation.lut_index is not None:
                lt = luts[0]
                src = lt.src_tensor if lt.src_tensor is not None else lt
                d["lut"] = {"sid": sid(src), "src_addr": int(src.address) if src.address is not None else None,
                            "size": int(lt.storage_size()), "shram_addr": int(lt.address), "index": int(op.activation.lut_index)}
            k = op.kernel
            d["kernel"] = {"h": int(k.height), "w": int(k.width), "sy": int(k.stride.y), "sx": int(k.stride.x),
                           "dy": int(k.dilation.y), "dx": int(k.dilation.x)}
            d["upscale"] = op.ifm_resampling_mode.name if hasattr(op.ifm_resampling_mode, "name") else str(op.ifm_resampling_mode)
            d["block_type"] = op.type.npu_block_type.name
            d["tile_padding"] = str(op.attrs.get("padding", "")).endswith("TILE")
            d["pad_attr"] = [int(v) for v in op.attrs["explicit_padding"]] if "explicit_padding" in op.attrs else None
            d["read_offsets"] = [None if ro is None else [int(v) for v in ro.as_list()] for ro in op.read_offsets]
            d["write_offset"] = None if op.write_offset is None else [int(v) for v in op.write_offset.as_list()]
            # C10 (compiled-stream stripes): padding type, split read window, concat write window
            pad = op.attrs.get("padding", None)
            d["pad_type"] = None if pad is None else getattr(pad, "name", str(pad))
            d["read_shapes"] = [None if rs is None else [int(v) for v in rs.as_list()] for rs in op.read_shapes]
            d["write_shape"] = None if op.write_shape is None else [int(v) for v in op.write_shape.as_list()]
            d["reversed"] = bool(getattr(cmd, "reversed_operands", False))
            d["stride_mult"] = [int(v) for v in op.ofm_stride_multiplier]
            cmds.append(d)
        out.append({"name": sg.name, "words": [int(w) for w in sg.register_command_stream], "cmds": cmds,
                    "aliases": aliases, "init": list(init.values()), "accel": arch.accelerator_config.value,
                    "lut_base": int(arch.shram_lut_address), "ncores": int(arch.ncores)})
    return out
