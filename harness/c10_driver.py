"""C10 driver: runs the REAL striping code of the working tree on synthetic operator chains.

A *case* is a JSON-able description of a chain of 1..3 operators (kernel, stride, dilation, padding
type, upscaling, split read offset, concat write offset, depth slices, stripe height).  From it the
driver builds real ethosu.vela objects (Tensor, Operation, Pass, SchedulerOperation, Connection,
Schedule, CascadeInfo) and calls, unmodified:

  tflite_graph_optimiser.add_padding_fields        (-> calc_padding_and_skirt / calc_upscaled_padding_and_skirt)
  scheduler.SchedulerOperation.create_scheduler_info (-> get_ifm_area_required, stripe_input clamp)
  scheduler.Scheduler.propose_schedule_striping    (producer stripe heights of a cascade)
  cascade_builder.BufferMap.get_buffer             (-> rolling_buffer_shape)
  scheduler.Scheduler.apply_schedule               (-> Tensor.set_new_sub_purpose(RollingBufferY))
  high_level_command_stream_generator.generate_high_level_commands_for_sched_op
                                                   (stripe loops, ifm_present/ifm_required interleaving,
                                                    Box.transform_with_strides_and_skirt)
  high_level_command_to_npu_op.create_padding, create_feature_map
                                                   (-> Tensor.addresses_for_rolling_buffer)

and records what they did as events for StripesTrace.tla / CascadeTrace.tla.  Nothing here judges
the result: the deciding comparison is TLC's.

Only two things are stubbed: weight encoding (scheduler.weight_compressor.encode_weight_and_scale_tensor,
irrelevant to geometry and needs real weights) and Scheduler.estimate_op_performance (cycle estimate)."""
import math
import types

from .common import ensure_repo_on_path, MachineryError

_ENV = None


class Env:
    pass


def env():
    """Import the working tree's modules once per process."""
    global _ENV
    if _ENV is not None:
        return _ENV
    ensure_repo_on_path()
    e = Env()
    from ethosu.vela import npu_performance  # noqa: F401  (import order: breaks the scheduler<->npu_performance cycle)
    from ethosu.vela import architecture_features as af
    from ethosu.vela import cascade_builder, high_level_command_stream as hlcs
    from ethosu.vela import high_level_command_stream_generator as hlcsg
    from ethosu.vela import high_level_command_to_npu_op as hl2npu
    from ethosu.vela import scheduler, tflite_graph_optimiser as tgo, operation_util
    from ethosu.vela.data_type import DataType
    from ethosu.vela.nn_graph import Pass, PassPlacement
    from ethosu.vela.operation import Op, Operation, Padding, NpuBlockType
    from ethosu.vela.shape4d import Shape4D
    from ethosu.vela.tensor import Tensor, TensorPurpose, TensorFormat, MemType, MemArea
    from ethosu.vela.ethos_u55_regs.ethos_u55_regs import resampling_mode
    e.af, e.cb, e.hlcs, e.hlcsg, e.hl2npu, e.scheduler, e.tgo, e.opu = af, cascade_builder, hlcs, hlcsg, hl2npu, scheduler, tgo, operation_util
    e.DataType, e.Pass, e.PassPlacement, e.Op, e.Operation, e.Padding, e.NpuBlockType = DataType, Pass, PassPlacement, Op, Operation, Padding, NpuBlockType
    e.Shape4D, e.Tensor, e.TensorPurpose, e.TensorFormat, e.MemType, e.MemArea, e.rm = Shape4D, Tensor, TensorPurpose, TensorFormat, MemType, MemArea, resampling_mode
    e.arch = af.create_default_arch(af.Accelerator.Ethos_U55_128)
    _ENV = e
    return e


class stubbed:
    """geometry does not depend on encoded weights: while a case is being built, the encoder the scheduler reaches
    through its module attribute is replaced.  Scoped (not a process-wide patch): real compilations forked from the
    same parent process (c10.validate_compiled) must see the real encoder."""

    def __enter__(self):
        e = env()
        self.saved = e.scheduler.weight_compressor
        e.scheduler.weight_compressor = types.SimpleNamespace(encode_weight_and_scale_tensor=lambda *a, **k: (None, None))

    def __exit__(self, *a):
        env().scheduler.weight_compressor = self.saved


PADS = {"SAME": "SAME", "VALID": "VALID", "EXPLICIT": "EXPLICIT"}
CLS_OP = {"conv": "Conv2DBias", "dw": "DepthwiseConv2DBias", "maxpool": "MaxPool", "avgpool": "AvgPool",
          "rsum": "ReduceSum", "fc": "FullyConnected", "ew1": "Abs", "ew2": "Add", "cat": "AvgPool",
          "tconv": "Conv2DBackpropInputSwitchedBias"}
REDUCING = ("conv", "fc", "rsum", "tconv")      # IFM depth is consumed completely
UPS = {"none": 0, "nearest": 1, "transpose": 2}


def out_extent(cls, i_eff, k, d, s, pad, ep, up):
    """OFM extent on one spatial axis, by the TensorFlow Lite shape rules (independent of Vela)."""
    kd = d * (k - 1) + 1
    if cls in ("ew1", "ew2", "cat", "fc", "rsum"):
        return i_eff
    if up == "transpose":               # stride-2 transpose convolution
        return 2 * i_eff if pad == "SAME" else 2 * i_eff + max(k - 2, 0)
    n = i_eff * (2 if up == "nearest" else 1)
    if pad == "SAME":
        return -(-n // s)
    if pad == "VALID":
        return (n - kd) // s + 1
    return (n + ep[0] + ep[1] - kd) // s + 1


def op_defaults(o):
    o = dict(o)
    for k, v in (("kh", 1), ("kw", 1), ("sh", 1), ("sw", 1), ("dh", 1), ("dw", 1), ("pad", "VALID"),
                 ("ep", [0, 0, 0, 0]), ("up", "none"), ("roff", None), ("rshape", None), ("woff", None),
                 ("otens", None), ("oc", None), ("slices", None), ("stripe", None), ("bc", None)):
        o.setdefault(k, v)
    if o["cls"] in ("ew1", "ew2", "cat", "fc", "rsum"):      # no kernel geometry on these classes
        o.update(kh=1, kw=1, sh=1, sw=1, dh=1, dw=1, pad="VALID", ep=[0, 0, 0, 0])
    return o


def case_shapes(case):
    """[(ifm tensor HWC, effective (read) HWC, ofm write HWC, ofm tensor HWC)] per operator, or None if the case
    is geometrically impossible (empty output)."""
    shapes = []
    cur = list(case["ifm"])
    for o in map(op_defaults, case["ops"]):
        eff = list(o["rshape"]) if o["roff"] is not None else list(cur)
        oh = out_extent(o["cls"], eff[0], o["kh"], o["dh"], o["sh"], o["pad"], (o["ep"][0], o["ep"][2]), o["up"])
        ow = out_extent(o["cls"], eff[1], o["kw"], o["dw"], o["sw"], o["pad"], (o["ep"][1], o["ep"][3]), o["up"])
        oc = o["oc"] if (o["cls"] in ("conv", "fc", "tconv") and o["oc"]) else (1 if o["cls"] == "rsum" else eff[2])
        if oh < 1 or ow < 1:
            return None
        wr = [oh, ow, oc]
        ot = list(o["otens"]) if o["woff"] is not None else wr
        shapes.append((list(cur), eff, wr, ot))
        cur = ot
    return shapes


def build(case):
    """-> dict with real sched_ops, schedule, tensors for the case."""
    with stubbed():
        return _build(case)


def _build(case):
    e = env()
    S4 = e.Shape4D
    shapes = case_shapes(case)
    if shapes is None:
        return None
    ops = [op_defaults(o) for o in case["ops"]]
    n = len(ops)
    tens = []
    t0 = e.Tensor([1] + shapes[0][0], e.DataType.int8, "t0")
    tens.append(t0)
    sched_ops, metas = [], []
    for i, o in enumerate(ops):
        ifm_t, eff, wr, ot = shapes[i]
        ofm_tens = e.Tensor([1] + ot, e.DataType.int8, "t%d" % (i + 1))
        tens.append(ofm_tens)
        optype = getattr(e.Op, CLS_OP[o["cls"]])
        if o["cls"] == "cat":
            op = e.opu.create_avgpool_nop("op%d" % i)
        else:
            op = e.Operation(optype, "op%d" % i)
        op.run_on_npu = True
        inputs = [tens[i]]
        if o["cls"] in ("conv", "fc"):
            wshape = [o["kh"], o["kw"], eff[2], wr[2]] if o["cls"] == "conv" else [eff[0] * eff[1] * eff[2], wr[2]]
            inputs += [e.Tensor(wshape, e.DataType.int8, "w%d" % i), e.Tensor([wr[2]], e.DataType.int32, "x%d" % i)]
        elif o["cls"] == "dw":
            inputs += [e.Tensor([o["kh"], o["kw"], 1, eff[2]], e.DataType.int8, "w%d" % i), e.Tensor([eff[2]], e.DataType.int32, "x%d" % i)]
        elif o["cls"] == "tconv":
            inputs += [e.Tensor([o["kh"], o["kw"], eff[2], wr[2]], e.DataType.int8, "w%d" % i),
                       e.Tensor([4], e.DataType.int32, "s%d" % i), e.Tensor([wr[2]], e.DataType.int32, "x%d" % i)]
        elif o["cls"] == "ew2":
            shp2 = [1] + list(eff)
            if o["bc"] == "H":
                shp2[1] = 1
            elif o["bc"] == "W":
                shp2[2] = 1
            inputs += [e.Tensor(shp2, e.DataType.int8, "b%d" % i)]
        op.inputs = inputs
        for t in inputs:
            if t is not None:
                t.consumer_list.append(op)
                t.purpose = e.TensorPurpose.FeatureMap if t.name[0] in "tb" else e.TensorPurpose.Weights
        op.outputs = [ofm_tens]
        ofm_tens.ops = [op]
        ofm_tens.purpose = e.TensorPurpose.FeatureMap
        if o["cls"] not in ("ew1", "ew2", "fc", "cat"):
            op.attrs["padding"] = getattr(e.Padding, o["pad"])
            op.attrs["strides"] = (1, o["sh"], o["sw"], 1)
            op.attrs["stride_h"], op.attrs["stride_w"] = o["sh"], o["sw"]
            op.attrs["dilation"] = (1, o["dh"], o["dw"], 1)
            if o["cls"] in ("maxpool", "avgpool", "rsum"):
                op.attrs["ksize"] = (1, o["kh"], o["kw"], 1)
                op.attrs["filter_height"], op.attrs["filter_width"] = o["kh"], o["kw"]
            if o["pad"] == "EXPLICIT":
                op.attrs["explicit_padding"] = tuple(o["ep"])
        if o["up"] == "nearest":
            op.ifm_resampling_mode = e.rm.NEAREST
        elif o["up"] == "transpose":
            op.ifm_resampling_mode = e.rm.TRANSPOSE
        # shapes as the graph optimiser sees them when add_padding_fields runs: the *slice* is the IFM
        op.ifm_shapes = [S4([1] + eff)]
        if o["cls"] == "ew2":
            op.ifm_shapes.append(S4(op.inputs[1].shape))
        op.ofm_shapes = [S4([1] + ot)]
        if o["cls"] == "fc":
            op.ifm_shapes = [S4([1] + eff)]
        e.tgo.add_padding_fields(op, e.arch, None)                      # REAL: padding + skirt
        # afterwards the split read is moved to the consumer (graph_optimiser_util.move_splitsliceread_to_consumer)
        if o["roff"] is not None:
            op.read_offsets[0] = S4([0] + list(o["roff"]))
            op.read_shapes[0] = S4([1] + list(o["rshape"]))
            op.ifm_shapes[0] = S4([1] + ifm_t)
        if o["woff"] is not None:
            op.write_offset = S4([0] + list(o["woff"]))
            op.write_shape = S4([1] + wr)
        ps = e.Pass("ps%d" % i, e.PassPlacement.Npu, False, optype.npu_block_type)
        ps.ops = [op]
        ps.primary_op = op
        ps.ifm_tensor = tens[i]
        ps.ifm2_tensor = op.inputs[1] if o["cls"] == "ew2" else None
        ps.ofm_tensor = ofm_tens
        ps.ifm_shapes = op.ifm_shapes
        ps.ofm_shapes = op.ofm_shapes
        ps.inputs = [t for t in op.inputs if t is not None]
        ps.outputs = [ofm_tens]
        for t in (tens[i], ofm_tens, ps.ifm2_tensor):
            if t is not None:
                t.mem_area = e.arch.feature_map_storage_mem_area
                t.mem_type = e.MemType.Scratch
        so = e.scheduler.SchedulerOperation(ps, e.arch, None)           # REAL
        so.index = i
        sched_ops.append(so)
        metas.append(dict(o=o, ifm_t=ifm_t, eff=eff, wr=wr, ot=ot, op=op, ps=ps))
    # connections
    conns = [e.scheduler.Connection(t) for t in tens]
    for i, so in enumerate(sched_ops):
        so.add_ifm_connection(conns[i])
        so.add_ofm_connection(conns[i + 1])
        if so.ifm2 is not None:
            so.add_ifm2_connection(e.scheduler.Connection(so.parent_ps.ifm2_tensor))
    # scheduler and schedules
    sg = types.SimpleNamespace(name="c10", schedule=None)
    opts = e.scheduler.SchedulerOptions(e.scheduler.OptimizationStrategy.Performance, 1 << 20, False)
    sch = e.scheduler.Scheduler(None, sg, e.arch, opts)                 # REAL object, no graph attached
    sch.sched_ops = sched_ops
    sch.estimate_op_performance = lambda *a, **k: None
    ref = e.scheduler.Schedule(sg, "ref")
    for so in sched_ops:
        ref.cost_map[so] = _cost(e, so, so.ofm.shape)
    last = sched_ops[-1]
    h_last = ops[-1]["stripe"] or last.ofm.shape.height
    if n > 1 and not case.get("free_stripes"):
        final = last.ofm.shape.with_height(h_last)
        sched = sch.propose_schedule_striping(final, "c10", ref)        # REAL: producer stripe heights
        for so in sched_ops:
            _fix_cost(sched.cost_map[so])
    else:
        sched = e.scheduler.Schedule(sg, "c10")
        for so, o in zip(sched_ops, ops):
            h = o["stripe"] or so.ofm.shape.height
            sched.cost_map[so] = _cost(e, so, so.ofm.shape.with_height(h))
    for so, o in zip(sched_ops, ops):
        if o["slices"]:
            sched.cost_map[so].ofm_depth_slices = list(o["slices"])
    buffers = {}
    if n > 1:
        bm = e.cb.BufferMap()
        for i in range(1, n):
            shape, _ = bm.get_buffer(sched_ops[i - 1], sched_ops[i], sched.cost_map)     # REAL: rolling_buffer_shape
            if case.get("shrink"):      # negative-control knob only
                shape = shape.with_height(max(1, sched.cost_map[sched_ops[i]].stripe_input.height - case["shrink"]))
            buffers[sched_ops[i]] = shape
            sched.cost_map[sched_ops[i]].cascade = n - 1
        sched.cost_map[sched_ops[0]].cascade = n - 1
        sched.cascades[n - 1] = e.cb.CascadeInfo(0, n - 1, buffers, 0)
    for t in tens:
        t.set_format(e.TensorFormat.NHWC, e.arch)
        t.force_linear_format = False      # what graph_optimiser_util.check_format_restrictions decides for cascadable FMs
    for so in sched_ops:
        if so.parent_ps.ifm2_tensor is not None:
            so.parent_ps.ifm2_tensor.set_format(e.TensorFormat.NHWC, e.arch)
    sch.apply_schedule(sched)                                           # REAL: rolling buffer tensors
    for i, t in enumerate(tens):
        t.address = 0x10000 * (i + 1)
    return dict(sched_ops=sched_ops, sched=sched, metas=metas, tens=tens, buffers=buffers, n=n)


class _DummyBlock:
    def old_style_representation(self):
        return [1, 1, 1, 1]


def _fix_cost(cost):
    if cost.block_config is None:
        cost.block_config = _DummyBlock()


def _cost(e, so, stripe):
    try:
        c = so.create_scheduler_info(None, stripe)                      # REAL
    except AttributeError:
        # find_block_config found nothing for an exotic shape: geometry does not depend on it
        c = None
    if c is None:
        orig = so._get_block_config
        so._get_block_config = lambda *a, **k: _DummyBlock()
        try:
            c = so.create_scheduler_info(None, stripe)
        finally:
            so._get_block_config = orig
    _fix_cost(c)
    return c


def _ints(xs):
    return [int(x) for x in xs]


def run_case(case):
    """-> list of events (see StripesTrace.tla / CascadeTrace.tla), or None if the case has no geometry."""
    e = env()
    b = build(case)
    if b is None:
        return None
    sched_ops, sched, metas = b["sched_ops"], b["sched"], b["metas"]
    psmap = {m["ps"]: i for i, m in enumerate(metas)}
    cmds = list(e.hlcsg.generate_high_level_commands_for_sched_op(sched_ops[-1], sched))      # REAL
    t = case["id"]
    events = []
    # header: the operator geometry (from the case) and what the scheduler-side code decided
    hdr = {"t": t, "e": "Hdr", "n": b["n"], "model": True, "ops": []}
    for i, (so, m) in enumerate(zip(sched_ops, metas)):
        o = m["o"]
        c = sched.cost_map[so]
        buf = b["buffers"].get(so)
        tin = b["tens"][i]
        ro = o["roff"] or [0, 0, 0]
        rs = o["rshape"] or m["ifm_t"]
        wo = o["woff"] or [0, 0, 0]
        i2 = _ints(so.parent_ps.ifm_shapes[1].as_list())[1:] if o["cls"] == "ew2" else []
        hdr["ops"].append({
            "cls": o["cls"], "sp": o["roff"] is not None, "up": UPS[o["up"]], "pt": o["pad"], "i2": i2,
            "chk": True, "full": i == b["n"] - 1,
            "h": int(c.stripe.height), "hin": int(c.stripe_input.height), "buf": int(buf.height) if buf is not None else 0,
            "store": int(tin.storage_shape[-3]) if len(tin.storage_shape) >= 3 else 0,
            "ax": {"H": _axis(m, 0, o["kh"], o["dh"], o["sh"], (o["ep"][0], o["ep"][2]), ro, rs, wo),
                   "W": _axis(m, 1, o["kw"], o["dw"], o["sw"], (o["ep"][1], o["ep"][3]), ro, rs, wo),
                   "C": _axis(m, 2, 1, 1, 1, (0, 0), ro, rs, wo)}})
    events.append(hdr)
    seq = 0
    for cmd in cmds:
        if not cmd.is_npu_pass_command():
            continue
        i = psmap[cmd.ps]
        m = metas[i]
        o, op = m["o"], m["op"]
        ib, ob = cmd.ifm_box, cmd.ofm_box
        if o["cls"] in ("ew1", "ew2"):
            top = left = bottom = right = 0          # no padding registers on elementwise operations
        else:
            p = e.hl2npu.create_padding(cmd, op, None)                  # REAL
            top, left, bottom, right = int(p.top), int(p.left), int(p.bottom), int(p.right)
        tiles_r = tiles_w = []
        if b["n"] > 1:
            if i > 0:
                fm = e.hl2npu.create_feature_map(cmd.ifm_tensor, ib, e.arch, cmd.ps.ifm_shapes[0], op.tile_base_offsets_ifm[0])   # REAL
                tiles_r = _tiles(fm, cmd.ifm_tensor)
            if i < b["n"] - 1:
                fm = e.hl2npu.create_feature_map(cmd.ofm_tensor, ob, e.arch, cmd.ps.ofm_shapes[0], op.tile_base_offsets_ofm)     # REAL
                tiles_w = _tiles(fm, cmd.ofm_tensor)
        isc, iec = _ints(ib.start_coord), _ints(ib.end_coord)
        osc, oec = _ints(ob.start_coord), _ints(ob.end_coord)
        ev = {"t": t, "e": "S", "q": seq, "op": i, "first": bool(cmd.is_first_h_stripe), "last": bool(cmd.is_last_h_stripe),
              "H": [osc[1], oec[1], isc[1], iec[1], top, bottom],
              "W": [osc[2], oec[2], isc[2], iec[2], left, right],
              "C": [osc[3], oec[3], isc[3], iec[3], 0, 0],
              "b2": [], "rd": tiles_r, "wr": tiles_w}
        if o["cls"] == "ew2":
            s2, e2 = _ints(cmd.ifm2_box.start_coord), _ints(cmd.ifm2_box.end_coord)
            ev["b2"] = [[s2[1], e2[1]], [s2[2], e2[2]], [s2[3], e2[3]]]
        events.append(ev)
        seq += 1
    events.append({"t": t, "e": "End"})
    return events


def _axis(m, ax, k, d, s, ep, ro, rs, wo):
    return {"I": m["ifm_t"][ax], "ro": ro[ax], "rl": rs[ax], "wo": wo[ax], "O": m["wr"][ax], "OT": m["ot"][ax],
            "k": k, "d": d, "s": s, "ep": [ep[0], ep[1]]}


def _tiles(fm, tens):
    """(slot of first row, rows in tile 0, slot of the first row of the wrapped tile or -1) from the REAL tile
    addresses; slot = (address - tensor base) div STRIDE_Y."""
    sy = int(fm.strides.height)
    a0 = int(fm.tiles.addresses[0]) - int(tens.address)
    a2 = int(fm.tiles.addresses[2])
    s2 = (a2 - int(tens.address)) // sy if a2 != 0 else -1
    return [a0 // sy, int(fm.tiles.height_0), s2]
