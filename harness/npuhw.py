"""Hardware view of one NPU operation, computed from a *register snapshot* only (assumption A-HW4 of
DESIGN.md): which bytes it reads and writes, in which region, and the block-job footprints needed for
the BLOCKDEP rule (A-HW3).  Nothing here looks at Vela's own objects."""

SHRAM = "shram"
ELEM = {0: 1, 1: 2, 2: 4}
ACCEL = {  # name: (shram banks, cores, ifm ublock depth, max outstanding dma, ofm ublock (w,h,d), ifm ublock (w,h,d))
    "ethos-u55-32": (16, 1, 8, 1, (1, 1, 4), (1, 1, 8)), "ethos-u55-64": (16, 1, 8, 1, (1, 1, 8), (1, 1, 8)),
    "ethos-u55-128": (24, 1, 8, 1, (2, 1, 8), (2, 1, 8)), "ethos-u55-256": (48, 1, 8, 1, (2, 2, 8), (2, 2, 8)),
    "ethos-u65-256": (48, 1, 8, 2, (2, 2, 8), (2, 2, 8)), "ethos-u65-512": (48, 2, 8, 2, (2, 2, 8), (2, 2, 8))}
MAX_KERNELS = 2
BANK = 1024


def lut_base(accel):
    return (ACCEL[accel][0] - 2) * BANK


def shram_written_end(accel, uses_lut):
    banks = ACCEL[accel][0]
    return (banks - 2 if (uses_lut or banks > 16) else banks) * BANK


def region_name(r):
    """DMA/feature-map region register -> region key (259 = SHRAM mem2mem slot)."""
    return SHRAM if r >= 256 else int(r)


def r(regs, name, default=None):
    v = regs.get(name, default)
    if v is None:
        raise KeyError(name)
    return v


def geometry(kind, regs):
    g = {"kind": kind}
    g["oh"] = r(regs, "NPU_SET_OFM_HEIGHT_M1") + 1
    g["ow"] = r(regs, "NPU_SET_OFM_WIDTH_M1") + 1
    g["od"] = r(regs, "NPU_SET_OFM_DEPTH_M1") + 1
    g["bh"] = r(regs, "NPU_SET_OFM_BLK_HEIGHT_M1") + 1
    g["bw"] = r(regs, "NPU_SET_OFM_BLK_WIDTH_M1") + 1
    g["bd"] = r(regs, "NPU_SET_OFM_BLK_DEPTH_M1") + 1
    g["up"] = regs.get("NPU_SET_IFM_UPSCALE", 0)
    if kind != "ew":
        g["kh"] = r(regs, "NPU_SET_KERNEL_HEIGHT_M1") + 1      # dilated extent
        g["kw"] = r(regs, "NPU_SET_KERNEL_WIDTH_M1") + 1
        ks = r(regs, "NPU_SET_KERNEL_STRIDE")
        g["sx"] = 1 + (ks & 1) + 2 * ((ks >> 6) & 7)
        g["sy"] = 1 + ((ks >> 1) & 1) + 2 * ((ks >> 9) & 7)
        g["dx"] = 1 + ((ks >> 3) & 1)
        g["dy"] = 1 + ((ks >> 4) & 1)
        g["part_kernel"] = (ks >> 2) & 1
        g["pt"], g["pb"], g["pl"], g["pr"] = [regs.get("NPU_SET_IFM_PAD_" + x, 0) for x in ("TOP", "BOTTOM", "LEFT", "RIGHT")]
        dh = (g["oh"] - 1) * g["sy"] + g["kh"] - g["pt"] - g["pb"]
        dw = (g["ow"] - 1) * g["sx"] + g["kw"] - g["pl"] - g["pr"]
        if g["up"]:
            dh, dw = (dh + 1) // 2, (dw + 1) // 2
        g["ih"], g["iw"] = max(dh, 0), max(dw, 0)
    else:
        g["kh"] = g["kw"] = g["sx"] = g["sy"] = g["dx"] = g["dy"] = 1
        g["pt"] = g["pb"] = g["pl"] = g["pr"] = 0
        g["part_kernel"] = 0
        g["ih"], g["iw"] = g["oh"], g["ow"]
    g["id"] = r(regs, "NPU_SET_IFM_DEPTH_M1") + 1
    prec = r(regs, "NPU_SET_IFM_PRECISION")
    g["ifm_bits"] = 8 * ELEM[(prec >> 2) & 3]
    act = regs.get("NPU_SET_ACTIVATION", 0)
    g["lut"] = (act & 0x1F) - 16 if (act & 0x1F) >= 16 else None
    return g


def fm_runs(regs, pfx, y0, y1, x0, x1, c0, c1):
    """Contiguous byte runs of the box [y0,y1) x [x0,x1) x [c0,c1) of feature map `pfx` (IFM, IFM2, OFM), addressed
    through the four tile bases, HEIGHT0/1, WIDTH0, strides and layout.  Yields (addr, nbytes, y, x, c) where
    (y, x, c) is the coordinate of the first element of the run."""
    if y1 <= y0 or x1 <= x0 or c1 <= c0:
        return
    prec = r(regs, "NPU_SET_%s_PRECISION" % pfx)
    es = ELEM[(prec >> 1) & 3] if pfx == "OFM" else ELEM[(prec >> 2) & 3]
    b16 = (prec >> 6) & 1
    base = [r(regs, "NPU_SET_%s_BASE%d" % (pfx, i)) for i in range(4)]
    h0 = r(regs, "NPU_SET_%s_HEIGHT0_M1" % pfx) + 1
    h1 = r(regs, "NPU_SET_%s_HEIGHT1_M1" % pfx) + 1
    w0 = r(regs, "NPU_SET_%s_WIDTH0_M1" % pfx) + 1
    sy = r(regs, "NPU_SET_%s_STRIDE_Y" % pfx)
    sx = r(regs, "NPU_SET_%s_STRIDE_X" % pfx)
    sc = r(regs, "NPU_SET_%s_STRIDE_C" % pfx)
    for y in range(y0, y1):
        # column spans per tile for this row: (tile, xa, xb, yy, xoff)
        spans = []
        if x0 < w0:
            t, yy = (0, y) if y < h0 else (2, y - h0)
            spans.append((t, x0, min(x1, w0), yy, 0))
        if x1 > w0:
            t, yy = (1, y) if y < h1 else (3, y - h1)
            spans.append((t, max(x0, w0), x1, yy, w0))
        for t, xa, xb, yy, xoff in spans:
            rowbase = base[t] + yy * sy
            if b16:
                for b in range(c0 // 16, (c1 + 15) // 16):
                    lo, hi = max(c0, 16 * b), min(c1, 16 * b + 16)
                    n = (hi - lo) * es
                    a0 = rowbase + b * sc + (lo % 16) * es
                    if hi - lo == 16:
                        yield (a0 + (xa - xoff) * 16 * es, (xb - xa) * 16 * es, y, xa, lo)
                    else:
                        for x in range(xa, xb):
                            yield (a0 + (x - xoff) * 16 * es, n, y, x, lo)
            else:
                n = (c1 - c0) * es
                a0 = rowbase + c0 * es
                if n == sx:
                    yield (a0 + (xa - xoff) * sx, (xb - xa) * sx, y, xa, c0)
                else:
                    for x in range(xa, xb):
                        yield (a0 + (x - xoff) * sx, n, y, x, c0)


def merge(iv):
    """sorted, merged list of (start, end) from (addr, n, ...) tuples"""
    out = []
    for a, n in sorted((t[0], t[1]) for t in iv):
        if n <= 0:
            continue
        if out and a <= out[-1][1]:
            if a + n > out[-1][1]:
                out[-1][1] = a + n
        else:
            out.append([a, a + n])
    return [(a, b) for a, b in out]


def ifm2_dims(regs, g):
    bc = regs.get("NPU_SET_IFM2_BROADCAST", 0)
    if bc & 0x80:
        return None  # scalar
    return (1 if bc & 1 else g["oh"], 1 if bc & 2 else g["ow"], 1 if bc & 4 else g["od"])


EW_UNARY = {5, 6, 7}  # LRELU, ABS, CLZ (NPU_OP_ELEMENTWISE parameter)


def lut_size(regs, g):
    oprec = r(regs, "NPU_SET_OFM_PRECISION")
    oes = ELEM[(oprec >> 1) & 3]
    return 2048 if g["ifm_bits"] == 16 else 256 * oes


def footprint(op, accel):
    """op = {"kind", "param", "regs"} -> {"rd": [(what, region, [(start,end)...])], "wr": [...], "geom": g}"""
    regs = op["regs"]
    kind = op["kind"]
    if kind == "dma":
        n = r(regs, "NPU_SET_DMA0_LEN")
        s, d = r(regs, "NPU_SET_DMA0_SRC"), r(regs, "NPU_SET_DMA0_DST")
        return {"rd": [("dma_src", region_name(r(regs, "NPU_SET_DMA0_SRC_REGION")), [(s, s + n)])],
                "wr": [("dma_dst", region_name(r(regs, "NPU_SET_DMA0_DST_REGION")), [(d, d + n)])],
                "geom": {"kind": "dma", "len": n}}
    g = geometry(kind, regs)
    rd, wr = [], []
    rd.append(("ifm", region_name(r(regs, "NPU_SET_IFM_REGION")),
               merge(fm_runs(regs, "IFM", 0, g["ih"], 0, g["iw"], 0, g["id"]))))
    if kind == "ew" and op["param"] not in EW_UNARY:
        d2 = ifm2_dims(regs, g)
        if d2 is not None:
            rd.append(("ifm2", region_name(r(regs, "NPU_SET_IFM2_REGION")),
                       merge(fm_runs(regs, "IFM2", 0, d2[0], 0, d2[1], 0, d2[2]))))
    if kind in ("conv", "dw"):
        cores = ACCEL[accel][1]
        wreg = region_name(r(regs, "NPU_SET_WEIGHT_REGION"))
        sreg = region_name(r(regs, "NPU_SET_SCALE_REGION"))
        for c in range(cores):
            sfx = "" if c == 0 else "1"
            wl = regs.get("NPU_SET_WEIGHT%s_LENGTH" % sfx, 0)
            if wl:
                a = r(regs, "NPU_SET_WEIGHT%s_BASE" % sfx)
                rd.append(("w%d" % c, wreg, [(a, a + wl)]))
            sl = regs.get("NPU_SET_SCALE%s_LENGTH" % sfx, 0)
            if sl:
                a = r(regs, "NPU_SET_SCALE%s_BASE" % sfx)
                rd.append(("s%d" % c, sreg, [(a, a + sl)]))
    if g["lut"] is not None:
        a = lut_base(accel) + 256 * g["lut"]
        rd.append(("lut", SHRAM, [(a, a + lut_size(regs, g))]))
    wr.append(("ofm", region_name(r(regs, "NPU_SET_OFM_REGION")),
               merge(fm_runs(regs, "OFM", 0, g["oh"], 0, g["ow"], 0, g["od"]))))
    wr.append(("shram", SHRAM, [(0, shram_written_end(accel, g["lut"] is not None))]))
    return {"rd": rd, "wr": wr, "geom": g}


# ------------------------------------------------------------------ block jobs (A-HW3)
def _blocks(g):
    nb = [-(-g["oh"] // g["bh"]), -(-g["ow"] // g["bw"]), -(-g["od"] // g["bd"])]

    def coord(i):
        z = i % nb[2]
        x = (i // nb[2]) % nb[1]
        y = i // (nb[2] * nb[1])
        return y * g["bh"], x * g["bw"], z * g["bd"]
    return nb[0] * nb[1] * nb[2], coord


def ifm_block_depth(g, accel):
    ub = ACCEL[accel][2]
    return min(8 * 32 // g["ifm_bits"], -(-g["id"] // ub) * ub)


def last_jobs_written(op, accel, n=3):
    """byte intervals (region, [(s,e)]) written by the k-th job from the end (k = 0..n-1) of a kernel operation."""
    regs = op["regs"]
    g = geometry(op["kind"], regs)
    total, coord = _blocks(g)
    reg = region_name(r(regs, "NPU_SET_OFM_REGION"))
    conv_slices = -(-g["id"] // ifm_block_depth(g, accel)) if op["kind"] == "conv" else 1
    out = []
    # jobs: each OFM block is conv_slices jobs; only the last of them writes the OFM block
    j = 0
    blk = total - 1
    while len(out) < n and blk >= 0:
        y, x, z = coord(blk)
        iv = merge(fm_runs(regs, "OFM", y, min(y + g["bh"], g["oh"]), x, min(x + g["bw"], g["ow"]), z,
                           min(z + g["bd"], g["od"])))
        out.append((reg, iv))               # job 0 from the end of this block writes
        for _ in range(conv_slices - 1):    # earlier depth-slice jobs of the same block write nothing
            if len(out) < n:
                out.append((reg, []))
        blk -= 1
        j += 1
    return out[:n]


def first_jobs_read(op, accel, n=3):
    """byte intervals read from feature maps by job f = 0..n-1 of a kernel operation: [(region, [(s,e)])...] per job."""
    regs = op["regs"]
    kind = op["kind"]
    g = geometry(kind, regs)
    total, coord = _blocks(g)
    ibd = ifm_block_depth(g, accel) if kind == "conv" else None
    idb = -(-g["id"] // ibd) if kind == "conv" else 1
    reg = region_name(r(regs, "NPU_SET_IFM_REGION"))
    jobs = []
    for f in range(n):
        ob = f // idb
        if ob >= total:
            break
        y, x, z = coord(ob)
        y1, x1 = min(y + g["bh"], g["oh"]), min(x + g["bw"], g["ow"])
        iy0 = y * g["sy"] - g["pt"]
        iy1 = (y1 - 1) * g["sy"] - g["pt"] + g["kh"]
        ix0 = x * g["sx"] - g["pl"]
        ix1 = (x1 - 1) * g["sx"] - g["pl"] + g["kw"]
        if g["up"]:
            iy0, ix0, iy1, ix1 = iy0 // 2, ix0 // 2, (iy1 + 1) // 2, (ix1 + 1) // 2
        iy0, ix0, iy1, ix1 = max(iy0, 0), max(ix0, 0), min(iy1, g["ih"]), min(ix1, g["iw"])
        if kind == "conv":
            c0 = (f % idb) * ibd
            c1 = min(c0 + ibd, g["id"])
        elif kind == "pool" and op["param"] == 2:   # REDUCE_SUM reads the whole depth
            c0, c1 = 0, g["id"]
        else:
            c0, c1 = z, min(z + g["bd"], g["od"])
        rds = [(reg, merge(fm_runs(regs, "IFM", iy0, iy1, ix0, ix1, c0, c1)))]
        if kind == "ew" and op["param"] not in EW_UNARY:
            d2 = ifm2_dims(regs, g)
            if d2 is not None:
                by0, by1 = (0, 1) if d2[0] == 1 else (y, y1)
                bx0, bx1 = (0, 1) if d2[1] == 1 else (x, x1)
                bc0, bc1 = (0, 1) if d2[2] == 1 else (c0, c1)
                rds.append((region_name(r(regs, "NPU_SET_IFM2_REGION")),
                            merge(fm_runs(regs, "IFM2", by0, by1, bx0, bx1, bc0, bc1))))
        jobs.append(rds)
    return jobs


def intervals_intersect(a, b):
    i = j = 0
    while i < len(a) and j < len(b):
        if a[i][1] <= b[j][0]:
            i += 1
        elif b[j][1] <= a[i][0]:
            j += 1
        else:
            return True
    return False


def layout_injective(regs, pfx, h, w, d):
    """The strides programmed for feature map `pfx` map the elements of a box of h x w x d (rows within one tile) to pairwise
    different bytes.  Sufficient test for a linear layout: with the dimensions sorted by stride, every stride is at least the
    extent the faster dimensions span.  (Every layout Vela programs satisfies it: NHWC, NHCWB16 and the transposed strides.)"""
    prec = r(regs, "NPU_SET_%s_PRECISION" % pfx)
    es = ELEM[(prec >> 1) & 3] if pfx == "OFM" else ELEM[(prec >> 2) & 3]
    b16 = (prec >> 6) & 1
    h0 = r(regs, "NPU_SET_%s_HEIGHT0_M1" % pfx) + 1
    sy = r(regs, "NPU_SET_%s_STRIDE_Y" % pfx)
    sx = r(regs, "NPU_SET_%s_STRIDE_X" % pfx)
    sc = r(regs, "NPU_SET_%s_STRIDE_C" % pfx)
    rows = min(h, h0)                     # rows addressed with one base pointer
    if b16:
        dims = [(min(d, 16), es), (w, 16 * es), ((d + 15) // 16, sc), (rows, sy)]
    else:
        dims = [(d, es), (w, sx), (rows, sy)]
    span = es                              # bytes one element of the faster dimensions occupies
    for n, st in sorted((x for x in dims if x[0] > 1), key=lambda t: t[1]):
        if st < span:
            return False
        span = (n - 1) * st + span
    return True
