"""Spec-growth component "Pipeline": the control flow of one compilation (vela.process -> compiler_driver.compiler_driver ->
tflite_writer) observed in real compilations by run-time wrapping (nothing in the repository is edited) and bound to
spec/Pipeline.tla (a dependency specification of the phases) through spec/PipelineTrace.tla.

    install() / uninstall()     parent process, around vela_run.compile_many (forked children inherit the wrappers)
    extractor(nng, arch, res)   in the child: the recorded event list of that compilation (runs on failures too)
    validate(records)           -> (tlc_result, findings, counters)
    mc()                        -> [(name, tlc_result)]; MachineryError if the MC / negative-control expectation fails
    negative_controls(events)   corrupted copies of recorded sequences must be rejected

SOUNDNESS: the phase dependencies are not one of the listed properties.  Nothing here reports a violation; findings are
returned as data ("latent": a recorded compilation took a phase whose dependencies did not hold, repeated one, wrote an
output after a failure, or ended with status 0 without having written).
"""
from . import tlc
from .common import MachineryError

_EVENTS = []
_REAL = {}
_STATE = {"npu": [], "cpu": []}

GLOBAL = ("Reset", "Optimise", "Pack", "Schedule", "FlashAlloc", "CpuAlloc", "Perf", "Write")
PER_SG = ("FlashLr", "Hlcs", "Lut", "Regs", "Ser", "Call")


def _log(e, **kw):
    _EVENTS.append(dict(e=e, **kw))


def install():
    from . import codec
    from .common import ensure_repo_on_path
    ensure_repo_on_path()
    codec.inject()
    import ethosu.vela.vela  # noqa: F401  (import order)
    from ethosu.vela import (compiler_driver, extract_npu_subgraphs, graph_optimiser, high_level_command_stream_generator,
                             high_level_command_to_npu_op, live_range, lut, npu_performance, npu_serialisation, pass_packing,
                             scheduler, tensor_allocation, tflite_writer)
    from ethosu.vela.nn_graph import PassPlacement
    from ethosu.vela.tensor import MemType
    if _REAL:
        return

    def wrap(mod, name, after):
        real = getattr(mod, name)
        _REAL[(mod, name)] = real

        def w(*a, **k):
            r = real(*a, **k)
            try:
                after(a, k, r)
            except Exception as ex:       # the observation must never change what the compiler does
                _log("ObserverError", i=0, what=repr(ex)[:200])
            return r
        w.__name__ = getattr(real, "__name__", name)
        setattr(mod, name, w)

    def idx(lst, sg):
        for k, s in enumerate(lst, 1):
            if s is sg:
                return k
        return 0

    def after_extract(a, k, r):
        nng = a[0]
        _STATE["npu"] = [sg for sg in nng.subgraphs if sg.placement == PassPlacement.Npu]
        _STATE["cpu"] = [sg for sg in nng.subgraphs if sg.placement == PassPlacement.Cpu]
        _log("Extract", i=0, n=len(_STATE["npu"]), c=len(_STATE["cpu"]))

    def after_lr(a, k, r):
        mem_type = a[2] if len(a) > 2 else k.get("target_mem_type_set")
        if mem_type == MemType.Permanent_NPU or mem_type == set((MemType.Permanent_NPU,)):
            _log("FlashLr", i=idx(_STATE["npu"], a[0]))

    def after_alloc(a, k, r):
        mts = a[4] if len(a) > 4 else k.get("mem_type_set")
        if mts == set((MemType.Permanent_NPU,)):
            _log("FlashAlloc", i=0)
        elif mts == set((MemType.Permanent_CPU,)):
            _log("CpuAlloc", i=0)

    wrap(compiler_driver, "reset_process_wide_state", lambda a, k, r: _log("Reset", i=0))
    wrap(graph_optimiser, "optimise_graph", lambda a, k, r: _log("Optimise", i=0))
    wrap(pass_packing, "pack_into_passes", lambda a, k, r: _log("Pack", i=0))
    wrap(extract_npu_subgraphs, "extract_npu_subgraphs", after_extract)
    wrap(scheduler, "schedule_passes", lambda a, k, r: _log("Schedule", i=0))
    wrap(live_range, "create_linear_live_range_graph", after_lr)
    wrap(tensor_allocation, "allocate_tensors", after_alloc)
    wrap(high_level_command_stream_generator, "generate_high_level_command_stream_for_schedule",
         lambda a, k, r: _log("Hlcs", i=idx(_STATE["npu"], a[1])))
    wrap(lut, "optimize_high_level_cmd_stream", lambda a, k, r: _log("Lut", i=idx(_STATE["npu"], a[0])))
    wrap(high_level_command_to_npu_op, "generate_register_command_stream_for_sg",
         lambda a, k, r: _log("Regs", i=idx(_STATE["npu"], a[1])))
    wrap(npu_serialisation, "serialise_npu_subgraph_into_tensors", lambda a, k, r: _log("Ser", i=idx(_STATE["npu"], a[0])))
    wrap(npu_serialisation, "rewrite_npu_call_ops", lambda a, k, r: _log("Call", i=idx(_STATE["cpu"], a[0])))
    wrap(npu_performance, "calc_new_performance_for_network", lambda a, k, r: _log("Perf", i=0))
    wrap(tflite_writer, "write_tflite", lambda a, k, r: _log("Write", i=0))


def uninstall():
    for (mod, name), real in _REAL.items():
        setattr(mod, name, real)
    _REAL.clear()


def extractor(nng, arch, res):
    out = (res.get("stdout") or "")
    return {"events": list(_EVENTS), "ok": res.get("rc") == 0, "wrote": "out_bytes" in res,
            "diag": ("Error:" in out or "error:" in out) and res.get("exc") is None}


extractor.on_failure = True


def events_of(records):
    """records: list of extractor results (None allowed) -> (ndjson events, index trace id -> record number, counters)"""
    events, index = [], {}
    cnt = {"compilations": 0, "completed": 0, "failed": 0, "events": 0, "npu_subgraphs": 0, "multi_npu": 0, "observer_errors": 0}
    for k, r in enumerate(records):
        if not r or not r.get("events"):
            continue
        t = len(index) + 1
        index[t] = k
        cnt["compilations"] += 1
        cnt["completed" if r["ok"] else "failed"] += 1
        events.append({"t": t, "e": "Begin"})
        for e in r["events"]:
            if e["e"] == "ObserverError":
                cnt["observer_errors"] += 1
                continue
            if e["e"] == "Extract":
                cnt["npu_subgraphs"] += e["n"]
                cnt["multi_npu"] += e["n"] > 1
            events.append(dict(e, t=t))
        events.append({"t": t, "e": "End", "ok": bool(r["ok"]), "diag": bool(r["diag"])})
        cnt["events"] += len(r["events"])
    return events, index, cnt


def validate(records, timeout=900):
    events, index, cnt = events_of(records)
    if not events:
        raise MachineryError("pipeline: no compilation was recorded")
    if cnt["observer_errors"]:
        raise MachineryError("pipeline: %d observation wrappers failed (driver refactored?)" % cnt["observer_errors"])
    res, viol = tlc.validate_traces("PipelineTrace", "PipelineTrace.cfg", events, timeout=timeout)
    findings = [{"kind": "latent", "record": index[v[0]], "pred": v[1], "phase": v[2], "index": v[3]} for v in viol]
    return res, findings, cnt, events


def mc():
    out = []
    res = tlc.run("Pipeline", "Pipeline_MC.cfg", workers=4, timeout=600, coverage=True)
    tlc.must_ok(res, "Pipeline/Pipeline_MC.cfg")
    for a in ("Phase", "Extract", "Fail"):
        if res["actions"].get("Pipeline." + a, 0) == 0:
            raise MachineryError("Pipeline MC: action %s never fired" % a)
    out.append(("Pipeline/Pipeline_MC.cfg", res))
    # deeper bound: up to 6 NPU subgraphs and 4 CPU-side operators (507 k distinct states, every dependency-respecting order)
    deep = tlc.run("Pipeline", "Pipeline_Deep.cfg", workers=16, timeout=900)
    tlc.must_ok(deep, "Pipeline/Pipeline_Deep.cfg")
    out.append(("Pipeline/Pipeline_Deep.cfg", deep))
    bad = tlc.run("Pipeline", "Pipeline_NoDep.cfg", workers=2, timeout=600)
    if bad["status"] != "invariant" or bad.get("violated") != "RegsSeeFinalAddresses":
        raise MachineryError("Pipeline negative control (register stream without the flash allocation) expected a violation of "
                             "RegsSeeFinalAddresses, got %s %s" % (bad["status"], bad.get("violated")))
    out.append(("Pipeline/Pipeline_NoDep.cfg", bad))
    return out


def negative_controls(events):
    """corrupted copies of one recorded complete sequence; each must be rejected with the named clause"""
    import copy
    by_t = {}
    for e in events:
        by_t.setdefault(e["t"], []).append(e)
    good = next((es for es in by_t.values() if es[-1]["ok"] and any(e["e"] == "Ser" for e in es)), None)
    if good is None:
        raise MachineryError("pipeline: no completed compilation with an NPU subgraph to corrupt")
    made = []

    def variant(name, want, edit):
        es = copy.deepcopy(good)
        edit(es)
        for e in es:
            e["t"] = 900000 + len(made)
        made.append((name, want, es))

    def swap(es, a, b):
        ia = next(k for k, e in enumerate(es) if e["e"] == a)
        ib = next(k for k, e in enumerate(es) if e["e"] == b)
        es[ia], es[ib] = es[ib], es[ia]

    variant("register stream before the flash allocation", "Dependency", lambda es: swap(es, "Regs", "FlashAlloc"))
    variant("LUT pass skipped", "Dependency", lambda es: es.remove(next(e for e in es if e["e"] == "Lut")))
    variant("subgraph serialised twice", "Repeated", lambda es: es.insert(next(k for k, e in enumerate(es) if e["e"] == "Ser"),
                                                                          dict(next(e for e in es if e["e"] == "Ser"))))
    variant("output written before the CPU constants are allocated", "Dependency", lambda es: swap(es, "Write", "CpuAlloc"))
    variant("status 0 without an output file", "OkWithoutWrite", lambda es: es.remove(next(e for e in es if e["e"] == "Write")))

    def fail_after_write(es):
        es[-1]["ok"] = False
    variant("failure reported after the output was written", "FailureAfterWrite", fail_after_write)
    batch = [e for _, _, es in made for e in es]
    _, viol = tlc.validate_traces("PipelineTrace", "PipelineTrace.cfg", batch)
    got = {}
    for v in viol:
        got.setdefault(v[0], set()).add(v[1])
    out = []
    for k, (name, want, _) in enumerate(made):
        if want not in got.get(900000 + k, set()):
            raise MachineryError("pipeline negative control '%s' not rejected with %s (got %s)" % (name, want, sorted(got.get(900000 + k, []))))
        out.append("%s -> %s" % (name, want))
    _, viol = tlc.validate_traces("PipelineTrace", "PipelineTrace.cfg", [dict(e, t=1) for e in good])
    if viol:
        raise MachineryError("pipeline: the uncorrupted sequence is rejected: %s" % viol[:3])
    return out
