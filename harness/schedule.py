"""Spec-growth component "Schedule": the scheduler's search (scheduler.py Scheduler.create_initial_schedule ..
optimize_schedule .. apply_schedule, cascade_builder.py CascadeBuilder.build_cascades) observed in real compilations by
run-time wrapping (nothing in the repository is edited) and bound to spec/Schedule.tla through spec/ScheduleTrace.tla.

    install() / uninstall()          parent process, around vela_run.compile_many (forked children inherit the wrappers)
    extractor(nng, arch, res)        in the child: JSON-able record {"subgraphs": [...]}
    validate(records)                -> (tlc_result, findings); records = list of extractor results (None entries allowed)
    mc(tier)                         -> [(name, tlc_result)], MachineryError if an MC / negative-control expectation fails

SOUNDNESS: none of the predicates checked here is one of the framework's listed properties.  This module never reports a
violation; it returns findings as data:  kind "latent" = a recorded schedule / decision of the real code breaks a structural
predicate of the design model, kind "drift" = the code's choice differs from the design model's choice on the same inputs.
"""
import json
import re

from . import tlc
from .common import MachineryError

BIG = 2 ** 31 - 1
_CAPTURED = []        # per-subgraph records (child process)
_KEEP = []            # keeps Scheduler objects alive so that id() stays unique
_BY_ID = {}
_CTX = {"rec": None, "phase": None, "sub": None}
_REAL = {}


def _clamp(v):
    v = int(v)
    return BIG if v > BIG else v


def _rec(s):
    r = _BY_ID.get(id(s))
    if r is None:
        r = {"sg": str(getattr(s.sg, "name", "?")), "n": len(s.sched_ops), "builds": [], "subs": [], "applied": [],
             "errors": []}
        _BY_ID[id(s)] = r
        _KEEP.append(s)
        _CAPTURED.append(r)
    return r


def _shape(sh):
    return [int(sh.height), int(sh.width), int(sh.depth)] if sh is not None else None


def _dump(s, sched):
    """Schedule -> plain data: per operator (in sched_ops order) shapes / kernel / cascade id / time index; the cascades
    map; the memory snapshot"""
    from ethosu.vela.architecture_allocator import is_nearest, to_upscale
    ops = []
    for op in s.sched_ops:
        c = sched.cost_map.get(op)
        if c is None:
            ops.append(None)
            continue
        ops.append({"name": str(op.name), "type": str(op.op_type), "index": int(op.index),
                    "ofm": _shape(op.ofm.shape), "ifm": _shape(op.ifm.shape),
                    "stripe": _shape(c.stripe), "stripe_input": _shape(c.stripe_input),
                    "k": int(op.kernel.area_height()), "s": int(op.kernel.stride.y),
                    "kw": int(op.kernel.area_width()), "sx": int(op.kernel.stride.x),
                    "up": int(to_upscale(op.resampling_mode)), "nn": int(bool(is_nearest(op.resampling_mode))),
                    "cid": int(c.cascade), "tix": None if c.time_index is None else int(c.time_index),
                    "full_ifm": bool(op.requires_full_ifm), "full_ofm": bool(op.requires_full_ofm),
                    "wb": [int(t.storage_size()) for t in c.buffered_weight_tensors],
                    "ifm_bytes": int(op.ifm_size_in_bytes()), "ofm_bytes": int(op.ofm_size_in_bytes())})
    cascs = []
    for key, ci in sched.cascades.items():
        cascs.append({"key": int(key), "start": int(ci.start), "end": int(ci.end), "mem": int(ci.mem_usage),
                      "buffers": [[int(o.index), _shape(sh)] for o, sh in ci.buffers.items()]})
    snap = sched.memory_snapshot
    return {"label": str(sched.label), "ops": ops, "cascades": cascs,
            "snapshot": None if snap is None else [int(v) for v in snap],
            "peak": int(sched.fast_storage_peak_usage)}


def _view(cb, ref_schedule, fallback_schedule, limit):
    """the inputs of one CascadeBuilder.build_cascades call as the view V of spec/ScheduleAlg.tla (positions are local to
    cb.sched_ops, 1-based), computed with the builder's own helpers before the real call runs"""
    from ethosu.vela.cascade_builder import BufferMap
    ref, fb = ref_schedule.cost_map, fallback_schedule.cost_map
    ops = list(cb.sched_ops)
    bm = BufferMap()
    v = {"m": len(ops), "limit": _clamp(limit), "spill": bool(cb.spilling), "index": [int(o.index) for o in ops],
         "casc": [], "link": [], "unc": [], "ifm": [], "ofm": [], "wb": [], "buf": [], "rows": [], "nl": []}
    for j, op in enumerate(ops):
        v["casc"].append(bool(op in ref and cb._is_cascadable(op, ref[op])))
        v["unc"].append(int(cb._estimate_sram_usage(op, fb[op])))
        v["ifm"].append(int(op.ifm_size_in_bytes()))
        v["ofm"].append(int(op.ofm_size_in_bytes()))
        v["wb"].append(int(sum(t.storage_size() for t in ref[op].buffered_weight_tensors)) if op in ref else 0)
        v["nl"].append(int(cb.non_local_mem_usage.get(op, 0)))
        link, buf, rows = False, 0, 0
        if j > 0:
            prod = ops[j - 1]
            deps = prod.get_dependants()
            link = bool(len(deps) == 1 and deps[0] is op and op in ref and prod.ofm.shape == op.ifm.shape
                        and not op.requires_full_ifm and not prod.requires_full_ofm and prod.index + 1 == op.index)
            if link and prod in ref:
                shp, size = bm.get_buffer(prod, op, ref)
                buf, rows = int(size), int(shp.height)
        v["link"].append(link)
        v["buf"].append(buf)
        v["rows"].append(rows)
    return v


def install():
    """call in the parent before vela_run.compile_many forks: children inherit the wrapped methods"""
    from . import codec
    from .common import ensure_repo_on_path
    ensure_repo_on_path()
    codec.inject()
    import ethosu.vela.vela  # noqa: F401  (import order: vela first, scheduler has a circular import otherwise)
    from ethosu.vela import cascade_builder, scheduler
    S, CB = scheduler.Scheduler, cascade_builder.CascadeBuilder
    if _REAL:
        return
    for name in ("build_cascades_for_min_schedule", "optimize_schedule", "optimize_sub_schedule",
                 "estimate_schedule_memory_usage", "apply_schedule"):
        _REAL[name] = getattr(S, name)
    _REAL["build_cascades"] = CB.build_cascades

    def build_cascades_for_min_schedule(self, min_schedule, max_template, memory_limit):
        r = _rec(self)
        r["init_limit"] = _clamp(memory_limit)
        old = dict(_CTX)
        _CTX.update(rec=r, phase="min")
        try:
            return _REAL["build_cascades_for_min_schedule"](self, min_schedule, max_template, memory_limit)
        finally:
            _CTX.update(old)

    def build_cascades(self, ref_schedule, fallback_schedule, guiding_mem_limit):
        v = None
        try:
            v = _view(self, ref_schedule, fallback_schedule, guiding_mem_limit)
        except Exception as e:     # observation must never change the compilation
            if _CTX["rec"] is not None:
                _CTX["rec"]["errors"].append("view: %r" % (e,))
        out = _REAL["build_cascades"](self, ref_schedule, fallback_schedule, guiding_mem_limit)
        if v is not None and _CTX["rec"] is not None:
            try:
                v["phase"] = _CTX["phase"]
                v["res"] = [{"key": int(k), "start": int(ci.start), "end": int(ci.end), "mem": int(ci.mem_usage),
                             "buf": sorted([int(o.index), int(sh.height)] for o, sh in ci.buffers.items())}
                            for k, ci in out.cascades.items()]
                v["cids"] = [int(out.cost_map[o].cascade) for o in self.sched_ops]
                _CTX["rec"]["builds"].append(v)
                if _CTX["sub"] is not None:
                    _CTX["sub"]["builds"].append(len(_CTX["rec"]["builds"]) - 1)
            except Exception as e:
                _CTX["rec"]["errors"].append("build result: %r" % (e,))
        return out

    def optimize_schedule(self, schedule, max_sched, max_template):
        r = _rec(self)
        try:
            o = self.scheduler_options
            r["opts"] = {"strategy": str(o.optimization_strategy), "optimization_sram_limit": _clamp(o.optimization_sram_limit),
                         "sram_limit": _clamp(self.sram_limit), "spill": bool(self.arch.is_spilling_enabled()),
                         "min_memory_req": int(self.min_memory_req)}
            r["min"] = _dump(self, schedule)
            r["max"] = {"peak": int(max_sched.fast_storage_peak_usage),
                        "snapshot": [int(x) for x in (max_sched.memory_snapshot if max_sched.memory_snapshot is not None else [])]}
        except Exception as e:
            r["errors"].append("optimize_schedule entry: %r" % (e,))
        old = dict(_CTX)
        _CTX.update(rec=r, phase="opt")
        try:
            out = _REAL["optimize_schedule"](self, schedule, max_sched, max_template)
        finally:
            _CTX.update(old)
        r["chose_max"] = bool(out is max_sched)
        return out

    def optimize_sub_schedule(self, cascade_info, ref_schedule, max_template, memory_limit):
        r = _rec(self)
        sub = {"start": int(cascade_info.start), "end": int(cascade_info.end), "mem": int(cascade_info.mem_usage),
               "limit": _clamp(memory_limit), "props": [], "builds": []}
        try:
            last = self.sched_ops[cascade_info.end]
            sub["min_h"] = int(ref_schedule.cost_map[last].stripe.height)
            sub["ofm_h"] = int(last.ofm.shape.height)
        except Exception as e:
            r["errors"].append("sub entry: %r" % (e,))
        old = dict(_CTX)
        _CTX.update(rec=r, phase="sub", sub=sub)
        try:
            out = _REAL["optimize_sub_schedule"](self, cascade_info, ref_schedule, max_template, memory_limit)
        finally:
            _CTX.update(old)
        try:
            sub["best"] = 0
            if out is not None:
                m = re.match(r"OPTIMIZED_(\d+)$", str(out.label))
                sub["best"] = int(m.group(1)) + 1 if m else -1
                sub["best_cascades"] = sorted(int(k) for k in out.cascades)
        except Exception as e:
            r["errors"].append("sub exit: %r" % (e,))
        r["subs"].append(sub)
        return out

    def estimate_schedule_memory_usage(self, schedule, non_local_mem_usage):
        est = _REAL["estimate_schedule_memory_usage"](self, schedule, non_local_mem_usage)
        sub = _CTX["sub"]
        if sub is not None:
            try:
                last = self.sched_ops[sub["end"]]
                c = schedule.cost_map.get(last)
                # the proposed final stripe is the one handed to propose_schedule_striping; an operator that fell back to
                # the Max cost shows its full OFM here, so take the iteration from the label
                m = re.match(r"OPTIMIZED_(\d+)$", str(schedule.label))
                sub["props"].append([int(m.group(1)) if m else -1, len(schedule.cascades), int(est),
                                     int(c.stripe.height) if c is not None else -1])
                if sub["builds"] and len(sub["builds"]) == len(sub["props"]):
                    _rec(self)["builds"][sub["builds"][-1]]["est"] = int(est)      # the estimate of the schedule just built
            except Exception as e:
                _rec(self)["errors"].append("estimate: %r" % (e,))
        return est

    def apply_schedule(self, sched):
        r = _rec(self)
        try:
            d = _dump(self, sched)
            d["sram_limit"] = _clamp(self.sram_limit)
            r["applied"].append(d)
        except Exception as e:
            r["errors"].append("apply_schedule: %r" % (e,))
        return _REAL["apply_schedule"](self, sched)

    S.build_cascades_for_min_schedule = build_cascades_for_min_schedule
    S.optimize_schedule = optimize_schedule
    S.optimize_sub_schedule = optimize_sub_schedule
    S.estimate_schedule_memory_usage = estimate_schedule_memory_usage
    S.apply_schedule = apply_schedule
    CB.build_cascades = build_cascades


def uninstall():
    if not _REAL:
        return
    from ethosu.vela import cascade_builder, scheduler
    for name, f in _REAL.items():
        if name == "build_cascades":
            cascade_builder.CascadeBuilder.build_cascades = f
        else:
            setattr(scheduler.Scheduler, name, f)
    _REAL.clear()


def extractor(nng, arch, res):
    return {"subgraphs": list(_CAPTURED)}


extractor.on_failure = True


# ----------------------------------------------------------------------------------------------------- corpus
FAMILIES = ["chain", "bigchain", "nncascade", "s2cascade", "stride3", "branch", "diamonds", "mixed", "wide", "pruned",
            "lutcascade"]


def jobs(sd, n=60, extra=12):
    """n corpus networks over the scheduler-relevant families + `extra` networks whose arena cache sits between the usage
    of the Min schedule's cascade and the Max schedule's peak, so that optimize_sub_schedule accepts taller stripes
    (Dedicated SRAM: only the rolling buffers count; Shared SRAM: feature maps that shrink along the chain)"""
    import random
    from . import corpus
    from .vela_run import ARM_INI
    out = corpus.draw(n, sd, families=FAMILIES, dedicated_bias=0.5)
    rng = random.Random(sd * 7919 + 17)
    plan = [("bigchain", "ded"), ("s2cascade", "ded"), ("chain", "shared"), ("stride3", "ded"), ("bigchain", "ded"),
            ("s2cascade", "edge"), ("chain", "ded"), ("stride3", "ded"), ("bigchain", "shared"), ("s2cascade", "edge"),
            ("chain", "ded"), ("s2cascade", "shared")]
    for i in range(extra):
        fam, mode = plan[i % len(plan)]
        r = corpus.FAMILIES[fam](rng, rng.randrange(1 << 20))
        sh = r[1]["tensors"][0]["shape"]                      # the network input [1, H, W, C]
        ifm = sh[1] * sh[2] * sh[3]
        ofm = sh[1] * sh[2] * ((sh[3] + 15) // 16 * 16)      # NHCWB16 bricks
        if mode == "ded":
            opts = {"accel": rng.choice(["ethos-u65-256", "ethos-u65-512"]), "config": ARM_INI,
                    "system_config": "Ethos_U65_High_End", "memory_mode": "Dedicated_Sram",
                    "arena": max(1024, int(ofm * rng.choice([0.2, 0.3, 0.45, 0.7, 1.0])) // 16 * 16)}
        else:
            # "edge": the arena holds exactly the first operator's IFM + OFM: the Min schedule still cascades it (usage not
            # below the limit) while a proposal without any cascade is accepted (usage not above the limit)
            f = 1.0 if mode == "edge" else rng.choice([0.7, 0.8, 0.9, 1.2])
            opts = {"accel": rng.choice(["ethos-u55-128", "ethos-u55-256"]), "config": ARM_INI,
                    "system_config": "Ethos_U55_High_End_Embedded", "memory_mode": "Shared_Sram",
                    "arena": int((ifm + ofm) * f) // 16 * 16}
        opts.update(optimise="Performance", allocator=rng.choice(["HillClimb", "Greedy"]))
        out.append({"id": "x%d" % i, "family": r[0], "net": r[1], "opts": opts, "hint": None})
    return out


# ----------------------------------------------------------------------------------------------------- events for TLC
def _sched_event(d, role, ctx):
    """one recorded schedule -> "sched" event (1-based positions; cascade ids = 1-based end position, 0 = none)"""
    ops = d["ops"]
    if any(o is None for o in ops):
        return None
    ev = {"e": "sched", "role": role, "n": len(ops),
          "ofm": [o["ofm"][0] for o in ops], "ifmh": [o["ifm"][0] for o in ops], "stripe": [o["stripe"][0] for o in ops],
          "k": [o["k"] for o in ops], "s": [o["s"] for o in ops], "up": [o["up"] for o in ops], "nn": [o["nn"] for o in ops],
          "cid": [o["cid"] + 1 if o["cid"] else 0 for o in ops],
          "tix": [-1 if o["tix"] is None else o["tix"] for o in ops],
          "casc": [{"id": c["key"] + 1, "start": c["start"] + 1, "end": c["end"] + 1, "mem": c["mem"],
                    "buf": [[b[0] + 1, b[1][0]] for b in c["buffers"]]} for c in d["cascades"]],
          "snap": d["snapshot"] if d["snapshot"] is not None else [], "peak": d["peak"]}
    ev.update(ctx)
    return ev


def _build_event(v):
    pos = {ix: j + 1 for j, ix in enumerate(v["index"])}
    res = []
    for c in v["res"]:
        if c["start"] not in pos or c["end"] not in pos:
            return None
        res.append({"key": pos.get(c["key"], 0), "start": pos[c["start"]], "end": pos[c["end"]], "mem": c["mem"],
                    "buf": [[pos.get(b[0], 0), b[1]] for b in c["buf"]]})
    return {"e": "build", "phase": v["phase"] or "", "m": v["m"], "limit": v["limit"], "spill": v["spill"],
            "casc": v["casc"], "link": v["link"], "unc": v["unc"], "ifm": v["ifm"], "ofm": v["ofm"], "wb": v["wb"],
            "buf": v["buf"], "rows": v["rows"], "nl": v["nl"], "res": res, "est": v.get("est", -1),
            "cids": [pos.get(c, -1) if c else 0 for c in v["cids"]]}


def _too_big(o):
    if isinstance(o, bool):
        return False
    if isinstance(o, int):
        return abs(o) > BIG
    if isinstance(o, dict):
        return any(_too_big(x) for x in o.values())
    if isinstance(o, (list, tuple)):
        return any(_too_big(x) for x in o)
    return False


def events_of(records):
    """-> (events, index {t: (record number, subgraph name, what)}, counters)"""
    events, index = [], {}
    cnt = {"compilations": 0, "subgraphs": 0, "schedules": 0, "final_schedules": 0, "builds": 0, "sub_schedules": 0,
           "proposals": 0, "accepted_sub_schedules": 0, "cascades_min": 0, "cascades_final": 0, "ops_in_final_cascades": 0,
           "estimates_compared": 0, "chose_max": 0, "spilling": 0, "size_strategy": 0, "limit_binding": 0, "skipped_big": 0, "record_errors": 0,
           "no_record": 0}

    def add(ev, ri, sg, what):
        if ev is None:
            return
        if _too_big(ev):
            cnt["skipped_big"] += 1
            return
        ev["t"] = len(events) + 1
        events.append(ev)
        index[ev["t"]] = (ri, sg, what)

    for ri, rec in enumerate(records):
        if not rec or not rec.get("subgraphs"):
            cnt["no_record"] += 1
            continue
        cnt["compilations"] += 1
        for sg in rec["subgraphs"]:
            cnt["subgraphs"] += 1
            cnt["record_errors"] += len(sg.get("errors", []))
            o = sg.get("opts")
            if o is None or "min" not in sg:
                continue
            cnt["spilling"] += int(o["spill"])
            cnt["size_strategy"] += int(o["strategy"] == "Size")
            ctx = {"limit": o["sram_limit"], "initlimit": sg.get("init_limit", o["sram_limit"]), "spill": o["spill"],
                   "minpeak": sg["min"]["peak"], "maxpeak": sg["max"]["peak"], "chosemax": bool(sg.get("chose_max"))}
            if sg["max"]["peak"] >= o["sram_limit"] or o["spill"]:
                cnt["limit_binding"] += 1
            cnt["chose_max"] += int(ctx["chosemax"])
            add(_sched_event(sg["min"], "min", ctx), ri, sg["sg"], "min")
            cnt["schedules"] += 1
            cnt["cascades_min"] += len(sg["min"]["cascades"])
            for k, d in enumerate(sg["applied"]):
                add(_sched_event(d, "final", ctx), ri, sg["sg"], "applied%d" % k)
                cnt["schedules"] += 1
                cnt["final_schedules"] += 1
            if sg["applied"]:
                cnt["cascades_final"] += len(sg["applied"][-1]["cascades"])
                cnt["ops_in_final_cascades"] += sum(1 for x in sg["applied"][-1]["ops"] if x and x["cid"])
            for k, v in enumerate(sg["builds"]):
                add(_build_event(v), ri, sg["sg"], "build%d" % k)
                cnt["builds"] += 1
                cnt["estimates_compared"] += int(v.get("est", -1) >= 0)
            for k, s in enumerate(sg["subs"]):
                cnt["sub_schedules"] += 1
                cnt["proposals"] += len(s["props"])
                cnt["accepted_sub_schedules"] += int(s.get("best", 0) > 0)
                add({"e": "sub", "start": s["start"] + 1, "end": s["end"] + 1, "limit": s["limit"],
                     "props": [[p[0], p[1], p[2]] for p in s["props"]], "best": s.get("best", -1),
                     "minh": s.get("min_h", 0), "ofmh": s.get("ofm_h", 0)}, ri, sg["sg"], "sub%d" % k)
    return events, index, cnt


LATENT = {"CascadesPartition", "StripeWithinOfm", "BuffersForNonFirst", "BuffersHoldProducerStripe", "WithinLimitOrMin", "MaxOnlyIfFits",
          "TimeIndexAgrees", "PeakIsSnapshotMax", "SpillCascadeWithinLimit", "SubWithinLimit", "SubCascadesNotSplit"}


def _parse(tag, out):
    m = re.search(r'<<\s*"%s",\s*"((?:[^"\\]|\\.)*)"\s*>>' % tag, out, re.S)
    if not m or not m.group(1):
        return []
    return json.loads(json.loads('"' + m.group(1).replace("\n", " ") + '"'))


def validate(records, timeout=1800):
    """Batch-validate the recorded schedules with one TLC run of ScheduleTrace.tla.
    -> (tlc_result, findings); findings = [{"kind": "latent"|"drift", "pred", "record", "sg", "what", "event"}],
    tlc_result["counters"] = coverage counters."""
    events, index, cnt = events_of(records)
    if not events:
        raise MachineryError("schedule: no scheduler record was captured (wrappers not installed?)")
    res, viol = tlc.validate_traces("ScheduleTrace", "ScheduleTrace.cfg", events, timeout=timeout)
    findings = []
    for v in viol:
        ri, sg, what = index[v[0]]
        findings.append({"kind": "latent" if v[1] in LATENT else "drift", "pred": v[1], "record": ri, "sg": sg, "what": what,
                         "event": events[v[0] - 1]})
    for v in _parse("DRIFT", res["output"]):
        ri, sg, what = index[v[0]]
        findings.append({"kind": "drift", "pred": v[1], "record": ri, "sg": sg, "what": what, "event": events[v[0] - 1]})
    cnt["events"] = len(events)
    cnt["latent"] = sum(1 for f in findings if f["kind"] == "latent")
    cnt["drift"] = sum(1 for f in findings if f["kind"] == "drift")
    res["counters"] = cnt
    return res, findings


# ----------------------------------------------------------------------------------------------------- design level
ACTIONS = ["MinNotCascadable", "MinStartProposal", "MinExtend", "MinStopEnd", "MinStopBlocked", "MinStopFits",
           "MinStopNoGain", "MinStopSpill", "MinDone", "ChooseMax", "StartOptimise", "SubBegin", "ProposeAccept",
           "ProposeAcceptNoCascade", "ProposeReject", "SubKeep", "SubApply", "Finish"]


def mc(tier, timeout=3600):
    """exhaustive TLC runs of Schedule.tla (+ the two negative controls, run concurrently); every action has to fire"""
    from concurrent.futures import ThreadPoolExecutor
    cfgs = ["Schedule_MC_Quick.cfg"] + ([] if tier == "quick" else ["Schedule_MC.cfg"])
    negs = (("Schedule_CmpMax.cfg", "WithinLimitOrMin"), ("Schedule_NoDel.cfg", "CascadesPartition"))
    with ThreadPoolExecutor(3) as ex:
        fneg = [ex.submit(tlc.run, "Schedule", cfg, workers=4, timeout=timeout) for cfg, _ in negs]
        out = []
        for cfg in cfgs:
            res = tlc.run("Schedule", cfg, workers=16, timeout=timeout, coverage=True)
            tlc.must_ok(res, "Schedule/" + cfg)
            dead = [a for a in ACTIONS if res["actions"].get("Schedule." + a, 0) == 0]
            if dead:
                raise MachineryError("Schedule/%s: actions never fired: %s" % (cfg, dead))
            out.append(("Schedule/" + cfg, res))
        for (cfg, want), f in zip(negs, fneg):
            res = f.result()
            if res["status"] != "invariant" or res.get("violated") != want:
                raise MachineryError("Schedule/%s: negative control expected violation of %s, got %s %s\n%s" % (
                    cfg, want, res["status"], res.get("violated"), res["output"][-1500:]))
            out.append(("Schedule/" + cfg, res))
    return out


def negative_controls(events):
    """corrupt copies of recorded events; each must be rejected with the named predicate (MachineryError otherwise)"""
    import copy
    made = []
    fin = [e for e in events if e["e"] == "sched" and e["role"] == "final" and e["casc"]]
    if fin:
        e = copy.deepcopy(fin[0])
        e["casc"][0]["buf"][0][1] = 0
        made.append((e, "BuffersForNonFirst"))
        e = copy.deepcopy(fin[0])
        e["cid"][e["casc"][0]["start"] - 1] = 0
        made.append((e, "CascadesPartition"))
        e = copy.deepcopy(fin[0])
        e["peak"] = max(e["limit"], e["minpeak"]) + 1
        if e["peak"] <= BIG:
            made.append((e, "WithinLimitOrMin"))
        e = copy.deepcopy(fin[0])
        i = e["casc"][0]["end"] - 1
        e["stripe"][i] = e["ofm"][i] + 1
        made.append((e, "StripeWithinOfm"))
    bl = [e for e in events if e["e"] == "build" and e["res"]]
    if bl:
        e = copy.deepcopy(bl[0])
        e["res"][0]["mem"] += 1
        made.append((e, "BuildDiffers"))
    be = [e for e in events if e["e"] == "build" and e["est"] >= 0]
    if be:
        e = copy.deepcopy(be[0])
        e["est"] += 16
        made.append((e, "EstimateDiffers"))
    sb = [e for e in events if e["e"] == "sub" and e["best"] > 0]
    if sb:
        e = copy.deepcopy(sb[0])
        e["limit"] = e["props"][e["best"] - 1][2] - 1
        made.append((e, "SubWithinLimit"))
    if not made:
        return []
    for k, (e, _) in enumerate(made):
        e["t"] = k + 1
    res, viol = tlc.validate_traces("ScheduleTrace", "ScheduleTrace.cfg", [e for e, _ in made])
    got = {(v[0], v[1]) for v in viol} | {(v[0], v[1]) for v in _parse("DRIFT", res["output"])}
    for k, (e, want) in enumerate(made):
        if (k + 1, want) not in got:
            raise MachineryError("schedule negative control: corrupted %s event not rejected with %s (got %s)" % (
                e["e"], want, sorted(g for g in got if g[0] == k + 1)))
    return [w for _, w in made]
