"""Corner families of C13 whose parameter records are enumerated by TLC (spec/CliCorners.tla).

A record names one point of a corner lattice; `build(records)` turns one record (or, for the quantisation family, a
pack of records that share a data type) into a network description.  Nothing here decides anything: the records come
from the specification, the outcomes go back to CliTrace.tla.

family "qscale"  - extreme but valid quantisation parameters: one operator whose effective rescale factor
                   (ifm_scale * weight_scale / ofm_scale, ifm_scale / ofm_scale ... depending on the operator) is
                   m * 2^e, zero points at the ends of the type range, per-channel scales mixing the extreme value with
                   ordinary ones.  Several records are packed into one model as independent input -> operator -> output
                   branches (one CLI invocation compiles them all).
family "cpumulti" - a CPU-resident operator with several outputs inside a CPU/NPU interleaving: which output feeds the
                   NPU, which the CPU, what produces its input, what runs after its NPU consumer.
family "deep"    - a long chain of operators (recursion depth of the graph traversals).
"""
from . import netgen

DT = {"int8": ("INT8", -128, 127), "uint8": ("UINT8", 0, 255), "int16": ("INT16", 0, 0)}
MANT = {"one": 1.0, "mid": 1.5, "top": 2.0 - 2.0 ** -20}


def key(rec):
    """identity of a record in the trace (the coverage clause of CliTrace.tla compares these strings)"""
    if rec["fam"] == "qscale":
        return "qscale/%s/%d/%s" % (rec["op"], rec["e"], rec["m"])
    if rec["fam"] == "cpumulti":
        return "cpumulti/%s/%s/%s" % (rec["npu"], rec["src"], rec["tail"])
    return "deep/%s/%d" % (rec["op"], rec["depth"])


def _split_exp(e, parts):
    """e = sum of `parts` integers as equal as possible (the factors of the rescale stay ordinary float32 values)"""
    q, r = divmod(e, parts) if e >= 0 else (-((-e) // parts), -((-e) % parts))
    out = [q] * parts
    out[0] += r
    return out


def _zp(rec, dt, which):
    _, lo, hi = DT[dt]
    z = rec["zp"]
    if z == "mid" or dt == "int16":
        return 0 if dt != "uint8" else 128
    ends = (lo, hi) if z == "lo" else (hi, lo)
    return ends[0] if which == "ifm" else ends[1]


def _qscale_branch(net, rec, j):
    op, e, dt = rec["op"], rec["e"], rec["dt"]
    T = DT[dt][0]
    m = MANT[rec["m"]]
    zi, zo = _zp(rec, dt, "ifm"), _zp(rec, dt, "ofm")
    C = 8
    mixed = rec["chan"] == "mixed"
    nm = "b%d_%s" % (j, op)
    wdt = "UINT8" if dt == "uint8" else "INT8"
    wzp = 128 if dt == "uint8" else 0
    bdt = "INT64" if dt == "int16" else "INT32"
    if op in ("conv", "dwconv", "tconv", "fc"):
        a, b, c = _split_exp(e, 3)
        si, sw, so = 2.0 ** a, m * 2.0 ** b, 2.0 ** -c
        per = op != "fc" and dt != "uint8"
        ns = C if per else 1
        wsc = [sw] * ns
        if mixed and per:       # one channel at the extreme value, the others ordinary (ratio around 2^-8)
            wsc = [sw if i == 5 else so * 2.0 ** -8 / si * (1 + 0.125 * (i % 3)) for i in range(ns)]
        bsc = [si * w for w in wsc]
        if op == "fc":
            x = net.fm(nm + "_in", [1, 16], T, si, zi, is_input=True)
            wt = net.const(nm + "_w", [C, 16], wdt, -127 if wdt == "INT8" else 0, 127 if wdt == "INT8" else 255, scale=wsc, zp=[wzp])
            bt = net.const(nm + "_b", [C], bdt, -100, 100, scale=bsc, zp=[0])
            y = net.fm(nm, [1, C], T, so, zo)
            net.op("FULLY_CONNECTED", [x, wt, bt], [y], ["FullyConnectedOptions", {"FusedActivationFunction": 0, "KeepNumDims": False}])
            return y
        x = net.fm(nm + "_in", [1, 4, 4, C], T, si, zi, is_input=True)
        qd = (3 if op == "dwconv" else 0) if per else None
        wshape = [1, 3, 3, C] if op == "dwconv" else [C, 3, 3, C]
        wt = net.const(nm + "_w", wshape, wdt, -127 if wdt == "INT8" else 0, 127 if wdt == "INT8" else 255, scale=wsc,
                       zp=[wzp] * ns, qdim=qd)
        bt = net.const(nm + "_b", [C], bdt, -100, 100, scale=bsc, zp=[0] * ns, qdim=0 if per else None)
        if op == "tconv":
            y = net.fm(nm, [1, 8, 8, C], T, so, zo)
            osz = net.const(nm + "_oshape", [4], "INT32", data=[1, 8, 8, C])
            net.op("TRANSPOSE_CONV", [osz, wt, x, bt], [y], ["TransposeConvOptions", {"Padding": 0, "StrideW": 2, "StrideH": 2}])
            return y
        y = net.fm(nm, [1, 4, 4, C], T, so, zo)
        if op == "conv":
            net.op("CONV_2D", [x, wt, bt], [y], ["Conv2DOptions", {"Padding": 0, "StrideW": 1, "StrideH": 1, "DilationWFactor": 1,
                                                                 "DilationHFactor": 1, "FusedActivationFunction": 0}])
        else:
            net.op("DEPTHWISE_CONV_2D", [x, wt, bt], [y],
                   ["DepthwiseConv2DOptions", {"Padding": 0, "StrideW": 1, "StrideH": 1, "DepthMultiplier": 1, "DilationWFactor": 1,
                                               "DilationHFactor": 1, "FusedActivationFunction": 0}])
        return y
    if op in ("add", "sub", "mul"):
        if op == "mul":
            a, b, c = _split_exp(e, 3)
            s1, s2, so = 2.0 ** a, m * 2.0 ** b, 2.0 ** -c
        else:                   # one operand at the extreme ratio to the output, the other ordinary
            a, c = _split_exp(e, 2)
            s1, so = m * 2.0 ** a, 2.0 ** -c
            s2 = so * (0.5 if not mixed else 2.0 ** -3)
        x1 = net.fm(nm + "_in", [1, 4, 4, C], T, s1, zi, is_input=True)
        x2 = net.fm(nm + "_in2", [1, 4, 4, C], T, s2, zo, is_input=True)
        y = net.fm(nm, [1, 4, 4, C], T, so, zo)
        net.op(op.upper(), [x1, x2], [y], [{"add": "AddOptions", "sub": "SubOptions", "mul": "MulOptions"}[op],
                                          {"FusedActivationFunction": 0}])
        return y
    a, c = _split_exp(e, 2)
    si, so = m * 2.0 ** a, 2.0 ** -c
    x = net.fm(nm + "_in", [1, 4, 4, C], T, si, zi, is_input=True)
    if op in ("avgpool", "maxpool"):
        y = net.fm(nm, [1, 2, 2, C], T, so, zo)
        net.op("AVERAGE_POOL_2D" if op == "avgpool" else "MAX_POOL_2D", [x], [y],
               ["Pool2DOptions", {"Padding": 0, "StrideW": 2, "StrideH": 2, "FilterWidth": 2, "FilterHeight": 2,
                                  "FusedActivationFunction": 0}])
    elif op == "lrelu":
        y = net.fm(nm, [1, 4, 4, C], T, so, zo)
        net.op("LEAKY_RELU", [x], [y], ["LeakyReluOptions", {"Alpha": 0.1}])
    elif op == "mean":
        ax = net.const(nm + "_axis", [2], "INT32", data=[1, 2])
        y = net.fm(nm, [1, 1, 1, C], T, so, zo)
        net.op("MEAN", [x, ax], [y], ["ReducerOptions", {"KeepDims": True}])
    elif op == "quantize":
        y = net.fm(nm, [1, 4, 4, C], T, so, zo)
        net.op("QUANTIZE", [x], [y])
    else:
        raise ValueError("unknown qscale operator " + op)
    return y


def _cpu_multi(net, x, kind, j=0):
    """a CPU-resident operator with several outputs reading tensor x ([1, H, W, C] int8); returns its outputs, every one
    of them a tensor an NPU operator can read ([1, H, W, *])"""
    n, h, w, c = net.shape(x)
    src = net.t[x]
    if kind == "custom3":       # third-party operator with three outputs
        ys = [net.fm("cm%d_o%d" % (j, i), [n, h, w, c], src["type"], src["scale"][0], src["zp"][0]) for i in range(3)]
        net.op("CUSTOM", [x], ys, custom_code="ThirdPartyMulti", custom_options=[3, 1, 4, 1])
        return ys
    if kind == "custom2":
        ys = [net.fm("cm%d_o%d" % (j, i), [n, h, w, c], src["type"], src["scale"][0], src["zp"][0]) for i in range(2)]
        net.op("CUSTOM", [x], ys, custom_code="ThirdPartyPair", custom_options=[2, 7])
        return ys
    if kind == "topk":          # values and int32 indices (elementwise int32 is an NPU operation)
        kk = 4
        v = net.fm("tk%d_v" % j, [n, h, w, kk], src["type"], src["scale"][0], src["zp"][0])
        i = net.fm("tk%d_i" % j, [n, h, w, kk], "INT32", None)
        kt = net.const("tk%d_k" % j, [], "INT32", data=[kk])
        net.op("TOPK_V2", [x, kt], [v, i], ["TopKV2Options", {}])
        return [v, i]
    if kind == "splitdyn":      # SPLIT whose axis operand is a run-time tensor stays on the CPU
        ax = net.fm("sp%d_axis" % j, [], "INT32", None, is_input=True)
        ys = [net.fm("sp%d_o%d" % (j, i), [n, h, w, c // 2], src["type"], src["scale"][0], src["zp"][0]) for i in range(2)]
        net.op("SPLIT", [ax, x], ys, ["SplitOptions", {"NumSplits": 2}])
        return ys
    raise ValueError("unknown multi-output CPU operator " + kind)


def _npu_consumer(net, t, nm):
    tt = net.t[t]
    if tt["type"] == "INT32":
        one = net.const(nm + "_c", net.shape(t), "INT32", data=[1] * _numel(net.shape(t)))
        y = net.fm(nm, net.shape(t), "INT32", None)
        net.op("ADD", [t, one], [y], ["AddOptions", {"FusedActivationFunction": 0}])
        return y
    return net.pool(t, "MAX_POOL_2D", k=2, stride=1, name=nm)


def _numel(shape):
    n = 1
    for d in shape:
        n *= d
    return n


def _cpumulti(rec, seed):
    """src -> MULTI -> (outputs); NPU consumer of the outputs named by rec["npu"], CPU consumer of rec["cpu"], then the
    tail.  Outputs nobody reads are network outputs."""
    net = netgen.Net(seed)
    x = net.fm("in", [1, 8, 8, 8], is_input=True)
    if rec["src"] == "npu":
        x = net.pool(x, "MAX_POOL_2D", k=2, stride=1, name="src_npu")
    elif rec["src"] == "cpu":
        x = net.cpu_op(x, "ROUND", name="src_cpu")
    elif rec["src"] == "npu_cpu":
        x = net.cpu_op(net.pool(x, "MAX_POOL_2D", k=2, stride=1, name="src_npu"), "ROUND", name="src_cpu")
    ys = _cpu_multi(net, x, rec["cpuop"])
    first, other = ys[0], ys[-1] if rec["which"] == "last" else ys[1]
    read = {"first": [first], "other": [other], "both": [first, other], "none": []}[rec["npu"]]
    outs, used = [], set()
    z = None
    for i, t in enumerate(read):
        used.add(t)
        z = _npu_consumer(net, t, "npu%d" % i)
        outs.append(z)
    cr = {"first": first, "other": other, "none": None}[rec["cpu"]]
    if cr is not None and net.t[cr]["type"] != "INT32":
        used.add(cr)
        outs.append(net.cpu_op(cr, "ROUND", name="cpu_reader"))
    if z is not None and rec["tail"] != "none":
        outs.remove(z)
        if rec["tail"] == "cpu":            # a CPU pass further down, fed by the NPU consumer
            outs.append(net.cpu_op(z, "ROUND", name="tail_cpu") if net.t[z]["type"] != "INT32" else _cast_cpu(net, z))
        elif rec["tail"] == "npu":
            outs.append(_npu_consumer(net, z, "tail_npu"))
        elif rec["tail"] == "cpu_npu":
            zz = net.cpu_op(z, "ROUND", name="tail_cpu") if net.t[z]["type"] != "INT32" else _cast_cpu(net, z)
            outs.append(_npu_consumer(net, zz, "tail_npu"))
        elif rec["tail"] == "cpu_indep":    # another CPU pass that does not depend on the multi-output operator
            outs.append(z)
            outs.append(net.cpu_op(net.pool(net.fm("in_b", [1, 8, 8, 8], is_input=True), "MAX_POOL_2D", k=2, stride=1, name="ind_npu"),
                                   "ROUND", name="ind_cpu"))
    outs += [t for t in ys if t not in used]
    return net.desc(outs)


def _cast_cpu(net, z):
    """a CPU operator on an int32 tensor (FLOOR_DIV of int32 is not an NPU operation)"""
    y = net.fm("tail_cpu", net.shape(z), "INT32", None)
    net.op("FLOOR_DIV", [z, z], [y])
    return y


def _deep(rec, seed):
    net = netgen.Net(seed)
    x = net.fm("in", [1, 4, 4, 8], is_input=True)
    c = None
    for i in range(rec["depth"]):
        if rec["op"] == "add":
            if c is None:
                c = net.const("one", [1, 1, 1, 8], "INT8", data=[1] * 8, scale=[0.05], zp=[0])
            y = net.fm("a%d" % i, [1, 4, 4, 8], "INT8", 0.05, 0)
            net.op("ADD", [x, c], [y], ["AddOptions", {"FusedActivationFunction": 0}])
            x = y
        elif rec["op"] == "pool":
            x = net.pool(x, "MAX_POOL_2D", k=2, stride=1, name="p%d" % i)
        elif rec["op"] == "cpu":
            x = net.cpu_op(x, "ROUND", name="r%d" % i)
        else:
            raise ValueError("unknown deep operator " + rec["op"])
    return net.desc([x])


def deep_net(depth, op="add", seed=1):
    return _deep({"op": op, "depth": depth}, seed)


def build(recs, seed=0):
    """records of one model -> (label, description, fallback_only).  qscale: a pack of records; others: one record."""
    fam = recs[0]["fam"]
    if fam == "qscale":
        net = netgen.Net(seed)
        outs = [_qscale_branch(net, r, j) for j, r in enumerate(recs)]
        ops = sorted({r["op"] for r in recs})
        return "corner:qscale:%s:%s" % (recs[0]["dt"], "+".join(ops)), net.desc(outs), False
    if fam == "cpumulti":
        r = recs[0]
        return "corner:cpumulti:%s:npu=%s:src=%s:tail=%s" % (r["cpuop"], r["npu"], r["src"], r["tail"]), _cpumulti(r, seed), True
    if fam == "deep":
        r = recs[0]
        return "corner:deep:%s%d" % (r["op"], r["depth"]), _deep(r, seed), False
    raise ValueError("unknown corner family " + fam)
