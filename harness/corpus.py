"""Shared corpus: network families x configuration lattice, reproducible from VERIF_SEED.

Every entry is {"id", "family", "net": description, "opts": {...}} ready for vela_run."""
import os
import random

import zlib

from . import corpus_ops, corpus_shapes
from .netgen import Net
from .vela_run import ARM_INI

ACCELS = ["ethos-u55-32", "ethos-u55-64", "ethos-u55-128", "ethos-u55-256", "ethos-u65-256", "ethos-u65-512"]

# (system_config, memory_mode) pairs of Arm/vela.ini that are legal for an accelerator family
ARM_CFG = {
    "u55": [("Ethos_U55_High_End_Embedded", "Shared_Sram"), ("Ethos_U55_High_End_Embedded", "Sram_Only"),
            ("Ethos_U55_Deep_Embedded", "Shared_Sram")],
    "u65": [("Ethos_U65_High_End", "Dedicated_Sram"), ("Ethos_U65_Embedded", "Shared_Sram"),
            ("Ethos_U65_Embedded", "Sram_Only"), ("Ethos_U65_Client_Server", "Dedicated_Sram")],
}


def config_point(rng, accel=None, dedicated_bias=0.0):
    accel = accel or rng.choice(ACCELS)
    fam = "u65" if "u65" in accel else "u55"
    o = {"accel": accel, "optimise": rng.choice(["Performance", "Size"]),
         "allocator": rng.choice(["HillClimb", "Greedy", "LinearAlloc"])}
    r = rng.random()
    if r < 0.3 and not (fam == "u65" and rng.random() < dedicated_bias):
        pass  # internal default (i.MX93 default architecture)
    else:
        cands = ARM_CFG[fam]
        if fam == "u65" and rng.random() < dedicated_bias:
            cands = [c for c in cands if c[1] == "Dedicated_Sram"]
        sc, mm = rng.choice(cands)
        o.update(config=ARM_INI, system_config=sc, memory_mode=mm)
    if rng.random() < 0.6:
        o["arena"] = rng.choice([4096, 6144, 8192, 16384, 28000, 32768, 65536, 131072, 393216, 2097152])
    if rng.random() < 0.3:
        o["align"] = rng.choice([16, 32, 64, 128, 256])
    return o


# ----------------------------------------------------------------------------- families
SINGLE_KINDS = ["conv", "conv_s2", "conv_valid", "conv1x1", "dw", "dw_s2", "maxpool", "avgpool", "avgpool3",
                "fc", "add", "sub", "mul", "reshape", "softmax", "mean", "concat", "tanh", "logistic", "relu",
                "hardswish", "lrelu", "resize", "resizenn", "tconv", "pad", "abs", "quantize", "int16conv",
                "split", "minimum", "dilconv"]
N_LEGACY_KINDS = len(SINGLE_KINDS)
# operator-coverage kinds (harness/corpus_ops.py), appended: legacy kinds keep their position and their random stream
SINGLE_KINDS = SINGLE_KINDS + corpus_ops.ORDER
OPS_KINDS = list(corpus_ops.ORDER)

# Kinds / families that are built but left out of all_singles() / the default family list of draw() because a check
# reports a VIOLATION on them that has not been triaged by the lead yet (see the comment of each entry).  The builders
# stay available: f_single(rng, seed, kind) and draw(..., families=[...]) with an explicit name still produce them.
PENDING_TRIAGE = [
    # Every defect a kind / style was parked for has been repaired in /repo (DESIGN.md section 7: P1-P23, R1, R2); each kind left
    # this list after every corpus-using check was green with it.  Currently nothing is parked.
    # (statevar:npu_ew_early / npu_ew_mid / npu_ew_late were parked for K3 - an NPU elementwise operator writing its output over the
    #  variable tensor it reads, harness/repro/c12_inplace_over_variable_tensor.py - until live_range._get_ifm_to_fuse was repaired.)
]
corpus_ops.PENDING.update(k for k in PENDING_TRIAGE if ":" in k)
corpus_shapes.PENDING.update(k for k in PENDING_TRIAGE if ":" in k)


def f_single(rng, seed, kind=None):
    kind = kind or rng.choice(["conv", "conv_s2", "conv_valid", "conv1x1", "dw", "dw_s2", "maxpool", "avgpool", "avgpool3",
                       "fc", "add", "sub", "mul", "reshape", "softmax", "mean", "concat", "tanh", "logistic", "relu",
                       "hardswish", "lrelu", "resize", "resizenn", "tconv", "pad", "abs", "quantize", "int16conv",
                       "split", "minimum", "dilconv"])
    if kind in corpus_ops.KINDS:
        n, outs = corpus_ops.KINDS[kind](rng, seed)
        return "single:" + kind, n.desc(outs)
    n = Net(seed)
    H, W, C = rng.choice([4, 7, 8, 13, 16]), rng.choice([4, 8, 9, 16]), rng.choice([3, 8, 16, 24, 32])
    x = n.fm("in", [1, H, W, C], is_input=True)
    outs = None
    if kind == "conv":
        y = n.conv(x, rng.choice([8, 16, 20]), k=rng.choice([1, 3, 5]))
    elif kind == "conv_s2":
        y = n.conv(x, 16, k=3, stride=2)
    elif kind == "conv_valid":
        y = n.conv(x, 16, k=3, pad="VALID")
    elif kind == "conv1x1":
        y = n.conv(x, 32, k=1)
    elif kind == "dilconv":
        y = n.conv(x, 16, k=3, dil=2)
    elif kind == "dw":
        y = n.dwconv(x, k=3)
    elif kind == "dw_s2":
        y = n.dwconv(x, k=3, stride=2)
    elif kind == "maxpool":
        y = n.pool(x, "MAX_POOL_2D")
    elif kind == "avgpool":
        y = n.pool(x, "AVERAGE_POOL_2D")
    elif kind == "avgpool3":
        y = n.pool(x, "AVERAGE_POOL_2D", k=3, stride=1)
    elif kind == "fc":
        n = Net(seed)
        x = n.fm("in", [1, C * 4], is_input=True)
        y = n.fc(x, 10)
    elif kind in ("add", "sub", "mul", "minimum"):
        x2 = n.fm("in2", [1, H, W, C], scale=0.03, zp=2, is_input=True)
        y = n.eltwise(kind.upper(), x, x2)
    elif kind == "reshape":
        y = n.reshape(x, [1, H * W, 1, C])
    elif kind == "softmax":
        n = Net(seed)
        x = n.fm("in", [1, C * 2], is_input=True)
        y = n.unary("SOFTMAX", x)
    elif kind == "mean":
        y = n.mean(x)
    elif kind == "concat":
        x2 = n.fm("in2", [1, H, W, C], is_input=True)
        y = n.concat([x, x2])
    elif kind == "split":
        n = Net(seed)
        x = n.fm("in", [1, H, W, 32], is_input=True)
        ys = n.split(x, 2)
        outs = [n.conv(ys[0], 8, k=1), n.conv(ys[1], 8, k=1)]
        y = outs[0]
    elif kind in ("tanh", "logistic", "relu", "abs", "quantize"):
        y = n.unary({"hardswish": "HARD_SWISH"}.get(kind, kind.upper()), x)
    elif kind == "hardswish":
        y = n.unary("HARD_SWISH", x)
    elif kind == "lrelu":
        y = n.unary("LEAKY_RELU", x)
    elif kind == "resize":
        y = n.resize(x)
    elif kind == "resizenn":
        y = n.resize(x, "RESIZE_NEAREST_NEIGHBOR")
    elif kind == "tconv":
        y = n.tconv(x, 16)
    elif kind == "pad":
        y = n.conv(n.pad(x, [[0, 0], [1, 1], [1, 1], [0, 0]]), 16, pad="VALID")
    elif kind == "int16conv":
        n = Net(seed)
        x = n.fm("in", [1, H, W, C], "INT16", 0.001, 0, is_input=True)
        y = n.conv(x, 16, oscale=0.002)
    return "single:" + kind, n.desc(outs or [y])


def f_chain(rng, seed):
    """conv/depthwise/pool chains 2-6 deep: cascades and rolling buffers."""
    n = Net(seed)
    H = rng.choice([16, 24, 32, 48])
    W = rng.choice([8, 16, 32])
    C = rng.choice([8, 16, 32])
    x = n.fm("in", [1, H, W, C], is_input=True)
    depth = rng.randint(2, 6)
    kinds = []
    for i in range(depth):
        k = rng.choice(["conv3", "conv3", "conv1", "dw3", "conv5", "conv3s2", "maxpool", "convv"])
        if n.shape(x)[1] < 6 or n.shape(x)[2] < 6:
            k = "conv1"
        kinds.append(k)
        if k == "conv3":
            x = n.conv(x, C, 3)
        elif k == "conv1":
            x = n.conv(x, C, 1)
        elif k == "conv5":
            x = n.conv(x, C, 5)
        elif k == "conv3s2":
            x = n.conv(x, C, 3, stride=2)
        elif k == "convv":
            x = n.conv(x, C, 3, pad="VALID")
        elif k == "dw3":
            x = n.dwconv(x, 3)
        elif k == "maxpool":
            x = n.pool(x, "MAX_POOL_2D", k=2, stride=2)
    return "chain:" + "-".join(kinds), n.desc([x])


def f_branch(rng, seed):
    """residual / branching with add, concat, split."""
    n = Net(seed)
    H, W, C = rng.choice([8, 16, 24]), rng.choice([8, 16]), rng.choice([8, 16])
    x = n.fm("in", [1, H, W, C], is_input=True)
    a = n.conv(x, C, 3)
    style = rng.choice(["residual", "concat", "split", "diamond", "two_out"])
    if style == "residual":
        b = n.conv(a, C, 3)
        c = n.eltwise("ADD", a, b)
        y = [n.conv(c, C, 1)]
    elif style == "concat":
        b = n.conv(x, C, 1)
        c = n.concat([a, b])
        y = [n.conv(c, C, 3)]
    elif style == "split":
        s = n.split(a, 2)
        p = n.conv(s[0], C, 3)
        q = n.dwconv(s[1], 3)
        y = [p, q]
    elif style == "diamond":
        b = n.dwconv(a, 3)
        c = n.pool(a, "MAX_POOL_2D", k=3, stride=1)
        y = [n.eltwise("ADD", b, c)]
    else:
        b = n.conv(a, C, 3)
        y = [a, b]
    return "branch:" + style, n.desc(y)


def f_mixed(rng, seed):
    """CPU / NPU interleavings and several NPU subgraphs."""
    n = Net(seed)
    H, W, C = rng.choice([8, 16]), rng.choice([8, 16]), rng.choice([8, 16])
    x = n.fm("in", [1, H, W, C], is_input=True)
    pattern = rng.choice(["ncn", "cn", "nc", "ncnc", "n_c_par", "cnc"])
    cur = x
    for ch in pattern.replace("_", "").replace("par", ""):
        if ch == "n":
            cur = n.conv(cur, C, rng.choice([1, 3]))
        else:
            cur = n.cpu_op(cur, rng.choice(["ROUND", "CUSTOM", "FLOOR_DIV"]))
    outs = [cur]
    if pattern == "n_c_par":
        side = n.cpu_op(x, "ROUND")
        outs = [n.eltwise("ADD", cur, side)]
    return "mixed:" + pattern, n.desc(outs)


def f_lut(rng, seed):
    """activation chains (LUT slots)."""
    n = Net(seed)
    H, W, C = rng.choice([4, 8]), rng.choice([4, 8]), rng.choice([8, 16])
    x = n.fm("in", [1, H, W, C], is_input=True)
    ks = []
    for i in range(rng.randint(2, 5)):
        k = rng.choice(["TANH", "LOGISTIC", "LEAKY_RELU", "conv", "TANH"])
        ks.append(k)
        x = n.conv(x, C, 1) if k == "conv" else n.unary(k, x, alpha=rng.choice([0.1, 0.2]))
    return "lut:" + "-".join(ks), n.desc([x])


def f_wide(rng, seed):
    """wide convolutions: depth slicing, double-buffered weights, two-core interleave."""
    n = Net(seed)
    H, W = rng.choice([4, 8, 16]), rng.choice([4, 8])
    C = rng.choice([16, 32, 64])
    x = n.fm("in", [1, H, W, C], is_input=True)
    y = n.conv(x, rng.choice([64, 96, 128, 256]), rng.choice([1, 3]))
    if rng.random() < 0.5:
        y = n.conv(y, rng.choice([32, 64]), 1)
    return "wide", n.desc([y])


def f_u8i16(rng, seed):
    n = Net(seed)
    H, W, C = 8, 8, 16
    if rng.random() < 0.5:
        x = n.fm("in", [1, H, W, C], "UINT8", 0.05, 128, is_input=True)
        y = n.conv(x, 16, 3, ozp=120)
        y = n.pool(y, "MAX_POOL_2D")
        return "uint8", n.desc([y])
    x = n.fm("in", [1, H, W, C], "INT16", 0.001, 0, is_input=True)
    y = n.conv(x, 16, 3, oscale=0.002)
    x2 = n.fm("in2", n.shape(y), "INT16", 0.002, 0, is_input=True)
    y = n.eltwise("ADD", y, x2, oscale=0.004, ozp=0)
    return "int16", n.desc([y])


def f_widen(rng, seed):
    """elementwise chains that change the bit width (structurally valid, unusual)"""
    n = Net(seed)
    H, W, C = rng.choice([4, 8]), rng.choice([4, 8]), rng.choice([8, 16])
    kind = rng.choice(["ADD", "MUL"])
    wide = rng.choice(["INT16", "INT32"])
    a = n.fm("a", [1, H, W, C], is_input=True)
    b = n.fm("b", [1, H, W, C], scale=0.03, is_input=True)
    c = n.fm("c", [1, H, W, C], scale=0.04, is_input=True)
    d = n.fm("d", [1, H, W, C], wide, 0.001, 0, is_input=True)
    t1 = n.eltwise(kind, a, b)
    t2 = n.eltwise(kind, t1, c, oscale=0.001, ozp=0)
    n.t[t2]["type"] = wide
    out = n.eltwise(kind, t2, d, oscale=0.002, ozp=0)
    n.t[out]["type"] = wide
    return "widen:%s-%s" % (kind, wide), n.desc([out])


def f_inplace(rng, seed):
    """elementwise operators whose inputs stay live (in-place fusing must not happen)"""
    n = Net(seed)
    H, W, C = rng.choice([4, 8, 16]), rng.choice([4, 8]), rng.choice([8, 16])
    style = rng.choice(["abs_then_add", "protected_second_operand", "unary_chain_fanout", "mul_self_later",
                        "cpu_then_later_cpu", "cpu_then_later_npu", "memcpy_alias_then_inplace", "input_memcpy_then_inplace"])
    if style in ("cpu_then_later_cpu", "cpu_then_later_npu", "memcpy_alias_then_inplace", "input_memcpy_then_inplace"):
        # an operand that is produced on the CPU (or is a network input seen through a memory-only reshape) feeds an NPU
        # elementwise operator and is read again later
        x = n.fm("in", [1, H, W, C], is_input=True)
        a = x if style == "input_memcpy_then_inplace" else n.cpu_op(x, "ROUND")
        if style.endswith("memcpy_then_inplace") or style.startswith("memcpy"):
            b = n.unary("ABS", n.reshape(a, [1, H * W, 1, C]))
            outs = [b, n.cpu_op(a, "ROUND")]
        elif style == "cpu_then_later_npu":
            b = n.unary("ABS", a)
            outs = [n.eltwise("ADD", n.cpu_op(b, "ROUND"), a)]
        else:
            b = n.unary("ABS", a)
            cpu = n.fm("cpu_out", [1, H, W, C], n.t[a]["type"], 0.05, 0)
            n.op("FLOOR_DIV", [a, b], [cpu])
            outs = [cpu]
        return "inplace:" + style, n.desc(outs)
    if style == "abs_then_add":
        x = n.fm("in", [1, H, W, C], is_input=True)
        t = n.conv(x, C, 3)
        u = n.unary("ABS", t)
        outs = [n.eltwise("ADD", u, t)]
    elif style == "protected_second_operand":
        a = n.fm("a", [1, H, W, C], is_input=True)
        sb = n.fm("s", [1, 1, 1, C], scale=0.02, is_input=True)
        b = n.eltwise(rng.choice(["SUB", "ADD", "MUL"]), sb, a)
        cpu = n.fm("cpu_out", [1, H, W, C], n.t[a]["type"], 0.05, 0)
        n.op(rng.choice(["FLOOR_DIV", "FLOOR_MOD"]), [a, b], [cpu])
        outs = [cpu]
    elif style == "unary_chain_fanout":
        x = n.fm("in", [1, H, W, C], is_input=True)
        t = n.conv(x, C, 1)
        u = n.unary("LEAKY_RELU", t)
        v = n.unary("ABS", u)
        outs = [n.eltwise("ADD", v, t), u]
    else:
        x = n.fm("in", [1, H, W, C], is_input=True)
        t = n.conv(x, C, 3)
        u = n.eltwise("MUL", t, t)
        outs = [n.eltwise("SUB", u, t)]
    return "inplace:" + style, n.desc(outs)


def f_lutmany(rng, seed):
    """many distinct lookup tables, a 1 KiB table (int8 softmax) in between, then reuse of an earlier table"""
    n = Net(seed)
    C = rng.choice([16, 32])
    x = n.fm("in", [1, C], is_input=True)
    k = rng.randint(5, 8)
    alphas = [0.05 + 0.03 * i for i in range(k)]
    for al in alphas:
        x = n.unary("LEAKY_RELU", x, alpha=al)
    if rng.random() < 0.85:
        x = n.unary("SOFTMAX", x)
        x = n.unary("QUANTIZE", x)          # back to the quantisation of the earlier tables so that they can be reused
        n.t[x]["scale"], n.t[x]["zp"] = [0.05], [0]
    # reuse tables from both ends of the slot range: whichever 1 KiB half the big table evicted, a neighbour is reused
    for i in (k - 1, 1, k - 2, 2, 0):
        x = n.unary("LEAKY_RELU", x, alpha=alphas[i % k])
    return "lutmany:%d" % k, n.desc([x])


def f_resize(rng, seed):
    n = Net(seed)
    H, W, C = rng.choice([4, 8]), rng.choice([16, 48, 64]), rng.choice([8, 16, 24])
    x = n.fm("in", [1, H, W, C], is_input=True)
    kind = rng.choice(["RESIZE_BILINEAR", "RESIZE_BILINEAR", "RESIZE_NEAREST_NEIGHBOR"])
    half = rng.random() < 0.6
    y = n.resize(x, kind, 2, align=(not half and rng.random() < 0.3), half=half)
    if rng.random() < 0.5:
        y = n.conv(y, C, 1)
    return "resize:%s%s" % (kind[7:10], "-half" if half else ""), n.desc([y])


def f_pruned(rng, seed):
    """wide convolution with whole filters pruned to zero: depth slices of very different encoded sizes"""
    n = Net(seed)
    H = W = rng.choice([4, 8])
    C = rng.choice([32, 64])
    oc = rng.choice([136, 168, 200])
    x = n.fm("in", [1, H, W, C], is_input=True)
    y = n.conv(x, oc, 3)
    w = n.t[n.o[-1]["inputs"][1]]
    zs = []
    for _ in range(rng.randint(1, 3)):
        a = rng.randrange(0, oc - 16, 8)
        zs.append([a, min(oc, a + rng.choice([16, 24, 48]))])
    w["data"]["zero_filters"] = zs
    return "pruned:%d" % oc, n.desc([y])


def f_diamonds(rng, seed):
    """two independent groups of competing feature maps (fast-storage allocation) of different sizes, in either order,
    with an arena cache that holds one intermediate feature map of a group but not two"""
    n = Net(seed)
    C = 16
    shapes = [[1, 16, rng.choice([14, 12, 10]), C], [1, 16, 16, C]]
    if rng.random() < 0.5:
        shapes.reverse()
    outs = []
    for gi, sh in enumerate(shapes):
        a = n.fm("g%d_a" % gi, sh, scale=0.5, is_input=True)
        b = n.fm("g%d_b" % gi, sh, scale=0.25, is_input=True)
        c = n.fm("g%d_c" % gi, sh, scale=0.125, is_input=True)
        t1 = n.eltwise("ADD", a, b, oscale=0.75, ozp=0)
        t2 = n.eltwise("ADD", t1, c, oscale=0.8, ozp=0)
        outs.append(n.eltwise("ADD", t1, t2, oscale=1.0, ozp=0))
    fm = min(s[1] * s[2] * s[3] for s in shapes)
    hint = {"arena": rng.choice([fm + 2048, fm + 2560, 6144]), "optimise": "Performance"}
    if rng.random() < 0.7:      # the i.MX93 default architecture or U65 dedicated SRAM stage feature maps into fast storage
        hint.update(accel=rng.choice(["ethos-u65-256", "ethos-u65-512"]), config=None, system_config=None, memory_mode=None)
        if rng.random() < 0.5:
            hint.update(config=ARM_INI, system_config="Ethos_U65_High_End", memory_mode="Dedicated_Sram")
    return "diamonds", n.desc(outs), hint


def f_stride3(rng, seed):
    """producer -> stride-3 consumer chains (rolling buffers with a consumer stride of 3)"""
    n = Net(seed)
    H = rng.choice([10, 13, 19, 12, 16])
    W = rng.choice([8, 16, 64])
    C = rng.choice([8, 16, 32])
    x = n.fm("in", [1, H, W, C], is_input=True)
    y = n.conv(x, C, 3)
    if rng.random() < 0.5:
        y = n.pool(y, "MAX_POOL_2D", k=3, stride=3)
    else:
        y = n.dwconv(y, 3, stride=3)
    y = n.conv(y, C, 1)
    return "stride3:H%d" % H, n.desc([y])


def f_tied(rng, seed):
    """two convolutions sharing one weight tensor but with different biases (weight-cache hit + stand-alone scales)"""
    n = Net(seed)
    H, W, C = rng.choice([4, 8]), rng.choice([4, 8]), rng.choice([16, 32])
    oc = rng.choice([32, 48, 96])
    x = n.fm("in", [1, H, W, C], is_input=True)
    x2 = n.fm("in2", [1, H, W, C], scale=0.04, is_input=True)
    k = rng.choice([1, 3])
    y1 = n.conv(x, oc, k, name="ca")
    wt = n.o[-1]["inputs"][1]
    y2 = n.conv(x2, oc, k, name="cb")
    n.o[-1]["inputs"][1] = wt           # same weight tensor, own bias
    hint = {"accel": rng.choice(["ethos-u65-512", "ethos-u65-512", "ethos-u55-128", "ethos-u65-256"])}
    return "tied:%d" % oc, n.desc([y1, y2]), hint


def f_bigchain(rng, seed):
    """deep 3x3 chains on large feature maps with an arena cache between one feature map and the unstriped peak:
    several striping proposals per cascade (Performance)"""
    n = Net(seed)
    H = rng.choice([48, 64, 96])
    W = rng.choice([48, 64])
    C = rng.choice([8, 16])
    x = n.fm("in", [1, H, W, C], is_input=True)
    for i in range(rng.randint(3, 4)):
        x = n.conv(x, C, 3)
    fm = H * W * C
    hint = {"optimise": "Performance", "arena": int(fm * rng.choice([0.6, 0.9, 1.3, 1.8, 2.5]))}
    if rng.random() < 0.5:
        hint.update(accel=rng.choice(["ethos-u55-128", "ethos-u55-256"]), config=ARM_INI,
                    system_config="Ethos_U55_High_End_Embedded", memory_mode="Shared_Sram")
    else:
        hint.update(accel=rng.choice(["ethos-u65-256", "ethos-u65-512"]), config=ARM_INI,
                    system_config="Ethos_U65_High_End", memory_mode="Dedicated_Sram")
    return "bigchain:%dx%dx%d" % (H, W, C), n.desc([x]), hint


def f_nncascade(rng, seed):
    """nearest-neighbour x2 upscaling in the middle of a cascade, arena sweep (stripe heights handed down by the consumer)"""
    n = Net(seed)
    H, W, C = rng.choice([16, 24, 32]), rng.choice([16, 32]), rng.choice([8, 16])
    x = n.fm("in", [1, H, W, C], is_input=True)
    x = n.conv(x, C, 3)
    x = n.resize(x, "RESIZE_NEAREST_NEIGHBOR", 2)
    x = n.conv(x, C, 3)
    if rng.random() < 0.5:
        x = n.conv(x, C, 3)
    fm = H * W * C
    hint = {"optimise": "Performance", "arena": int(fm * rng.choice([1.0, 1.5, 2.0, 3.0, 4.0, 5.0, 6.0, 8.0]))}
    if rng.random() < 0.5:
        hint.update(accel=rng.choice(["ethos-u55-128", "ethos-u55-64"]), config=ARM_INI,
                    system_config="Ethos_U55_High_End_Embedded", memory_mode="Shared_Sram")
    return "nncascade", n.desc([x]), hint


def f_bcast(rng, seed):
    """binary elementwise with a run-time (non-constant) broadcast operand"""
    n = Net(seed)
    H, W, C = rng.choice([8, 32, 64]), rng.choice([8, 32, 64]), rng.choice([8, 16, 32])
    x = n.fm("in", [1, H, W, C], is_input=True)
    shp = rng.choice([[1, 1, 1, 1], [1, 1, 1, 1], [1, 1, 1, C], [1, 1, W, 1], [1, H, 1, 1], [1, 1, W, C]])
    y = n.fm("b", shp, scale=0.02, zp=1, is_input=True)
    kind = rng.choice(["ADD", "MUL", "SUB", "MAXIMUM"])
    a = n.conv(x, C, 1) if rng.random() < 0.5 else x
    out = n.eltwise(kind, a, y) if rng.random() < 0.7 else n.eltwise(kind, y, a)
    return "bcast:%s%s" % (kind, "x".join(map(str, shp[1:]))), n.desc([out])


def f_memcpy(rng, seed):
    """memory-only operator that cannot be bypassed (its input has a second consumer): stays as a feature-map DMA"""
    n = Net(seed)
    H = W = rng.choice([4, 8])
    C = rng.choice([17, 8, 24, 33, 16])
    x = n.fm("in", [1, H, W, rng.choice([8, 16])], is_input=True)
    t = n.conv(x, C, 3)
    r = n.reshape(t, rng.choice([[1, H * W, 1, C], [1, 1, H * W, C], [1, H, W * C, 1]]))
    u = n.conv(t, rng.choice([8, C]), 1)
    outs = [r, u] if rng.random() < 0.6 else [u, r]
    if rng.random() < 0.3:
        outs = [n.eltwise("ADD", n.reshape(r, [1, H, W, C]), t), u]
    return "memcpy:C%d" % C, n.desc(outs)


def f_lutcascade(rng, seed):
    """a LUT operator inside a cascade with non-LUT operators interleaved, biased to 16-bank accelerators and Size"""
    n = Net(seed)
    H, W, C = rng.choice([16, 24, 32]), rng.choice([8, 16]), rng.choice([8, 16])
    x = n.fm("in", [1, H, W, C], is_input=True)
    x = n.conv(x, C, 3)
    x = n.unary(rng.choice(["TANH", "LOGISTIC", "LEAKY_RELU"]), x)
    x = n.conv(x, C, 3)
    x = n.conv(x, C, rng.choice([1, 3]))
    hint = {"optimise": rng.choice(["Size", "Size", "Performance"])}
    if rng.random() < 0.7:
        hint["accel"] = rng.choice(["ethos-u55-64", "ethos-u55-32"])
        hint.update(config=None, system_config=None, memory_mode=None)
    return "lutcascade", n.desc([x]), hint


def f_s2cascade(rng, seed):
    """cascade with a stride-2 consumer that does not reach the last IFM column/row (1x1 stride 2 on an even extent)"""
    n = Net(seed)
    H, W, C = rng.choice([16, 32]), rng.choice([16, 32]), rng.choice([8, 16])
    x = n.fm("in", [1, H, W, C], is_input=True)
    x = n.conv(x, C, rng.choice([3, 5]))
    x = n.conv(x, C, rng.choice([1, 1, 2]), stride=2, pad=rng.choice(["SAME", "VALID"]))
    x = n.conv(x, C, 3)
    x = n.conv(x, C, 1)
    hint = {"optimise": rng.choice(["Size", "Size", "Performance"])}
    return "s2cascade", n.desc([x]), hint


def f_cpuouts(rng, seed):
    """network outputs produced by CPU operators that are not the last thing to run; multi-output CPU operators"""
    n = Net(seed)
    H, W, C = rng.choice([4, 8]), rng.choice([4, 8]), rng.choice([8, 16])
    style = rng.choice(["early_cpu_output", "topk", "early_cpu_output"])
    x = n.fm("in", [1, H, W, C], is_input=True)
    if style == "early_cpu_output":
        a = n.cpu_op(x, "ROUND")
        b = n.pool(a, "MAX_POOL_2D", k=2, stride=1)
        c = n.cpu_op(b, "ROUND")
        d = n.pool(c, "MAX_POOL_2D", k=2, stride=1)
        e = n.cpu_op(d, "ROUND")
        outs = [a, e] if rng.random() < 0.6 else [a, c, e]
    else:
        kk = 4
        v = n.fm("topk_v", [1, H, W, kk], n.t[x]["type"], n.t[x]["scale"][0], n.t[x]["zp"][0])
        i = n.fm("topk_i", [1, H, W, kk], "INT32", None)
        kt = n.const("k", [], "INT32", data=[kk])
        n.op("TOPK_V2", [x, kt], [v, i], ["TopKV2Options", {}])
        b = n.pool(v, "MAX_POOL_2D", k=2, stride=1)
        c = n.cpu_op(b, "ROUND")
        d = n.pool(c, "MAX_POOL_2D", k=2, stride=1)
        outs = [i, d]
    return "cpuouts:" + style, n.desc(outs)


FAMILIES = {"single": f_single, "chain": f_chain, "branch": f_branch, "mixed": f_mixed, "lut": f_lut,
            "wide": f_wide, "u8i16": f_u8i16, "widen": f_widen, "inplace": f_inplace, "lutmany": f_lutmany,
            "resize": f_resize, "pruned": f_pruned, "diamonds": f_diamonds, "stride3": f_stride3, "tied": f_tied,
            "bigchain": f_bigchain, "nncascade": f_nncascade, "bcast": f_bcast, "memcpy": f_memcpy,
            "lutcascade": f_lutcascade, "s2cascade": f_s2cascade, "cpuouts": f_cpuouts}


# families added for operator coverage (harness/corpus_ops.py), appended
FAMILIES.update(corpus_ops.FAMILIES)
N_LEGACY_FAMILIES = len(FAMILIES) - len(corpus_ops.FAMILIES)

# graph-shape families (harness/corpus_shapes.py), appended after the operator-coverage families.  They are NOT part of the
# default family list of draw() (existing draws keep their networks): checks compile them through shape_jobs(), which
# rotates the styles by the seed, or name them explicitly in draw(..., families=[...]).
FAMILIES.update(corpus_shapes.FAMILIES)
SHAPE_FAMILIES = list(corpus_shapes.FAMILIES)

# VERIF_CORPUS_LEGACY=1 restores the corpus as it was before the operator-coverage kinds / families were added
# (used to measure the cost of the wider corpus and to reproduce older results)
# The triaged operator-coverage kinds / families are part of the default corpus; everything in PENDING_TRIAGE stays opt-in
# (f_single(rng, seed, kind) / an explicit style).  OPS_DEFAULT_ON = False makes the whole wider corpus opt-in again
# (VERIF_CORPUS_OPS=1).
OPS_DEFAULT_ON = True
LEGACY_ONLY = (os.environ.get("VERIF_CORPUS_LEGACY") == "1" or
               (not OPS_DEFAULT_ON and os.environ.get("VERIF_CORPUS_OPS") != "1"))

# Quick tiers compile the 32 legacy kinds plus every OPS_ROTATION-th operator-coverage kind, the residue class being
# chosen by the seed: seeds s, s+1, ..., s+OPS_ROTATION-1 together cover every kind.  Thorough tiers compile all.
OPS_ROTATION = 6


def ops_families():
    """names of the operator-coverage families that are not pending triage (empty in legacy mode)"""
    return [] if LEGACY_ONLY else [f for f in corpus_ops.FAMILIES if f not in PENDING_TRIAGE]


def ops_kinds_for(seed, tier="quick", rotation=None):
    """operator-coverage kinds compiled by all_singles for this seed / tier, as (index in SINGLE_KINDS, kind).
    rotation: explicit sampling period for callers whose cost per network is high (overrides the tier rule)."""
    if LEGACY_ONLY:
        return []
    live = [(N_LEGACY_KINDS + i, k) for i, k in enumerate(OPS_KINDS) if k not in PENDING_TRIAGE]
    if rotation is None:
        if tier == "thorough":
            return live
        rotation = OPS_ROTATION
    return [(i, k) for pos, (i, k) in enumerate(live) if pos % rotation == seed % rotation]


def all_singles(seed, accel=None, tier="quick", rotation=None):
    """every legacy single-operator kind once, plus the operator-coverage kinds selected by ops_kinds_for(seed, tier,
    rotation) (used by quick tiers that must touch every rewrite path).  The network and configuration of a kind depend
    only on (seed, kind), not on which other kinds are selected."""
    rng = random.Random(seed ^ 0x5a5a)
    out = []
    for i, k in enumerate(SINGLE_KINDS[:N_LEGACY_KINDS]):
        label, net = f_single(rng, rng.randrange(1 << 20), k)
        out.append({"id": "s%d" % i, "family": label, "net": net, "opts": config_point(rng, accel)})
    for i, k in ops_kinds_for(seed, tier, rotation):
        rk = random.Random((seed * 1000003) ^ (i * 7919) ^ 0x0b5)
        label, net = f_single(rk, rk.randrange(1 << 20), k)
        out.append({"id": "s%d" % i, "family": label, "net": net, "opts": config_point(rk, accel)})
    return out


def shape_families():
    """names of the graph-shape families that have at least one style not pending triage (empty in legacy mode and with
    VERIF_CORPUS_SHAPES=0, which exists to measure what these families cost)"""
    if LEGACY_ONLY or os.environ.get("VERIF_CORPUS_SHAPES") == "0":
        return []
    return [f for f in SHAPE_FAMILIES if f not in PENDING_TRIAGE and corpus_shapes.live_styles(f) and f not in corpus_shapes.OPT_IN]


def opt_in_shape_families():
    """graph-shape families that only the checks naming them compile (corpus_shapes.OPT_IN): they take no part in the
    rotation of shape_jobs() / shape_sample() over "all" families, so adding one leaves every existing draw as it was"""
    if LEGACY_ONLY or os.environ.get("VERIF_CORPUS_SHAPES") == "0":
        return []
    return [f for f in SHAPE_FAMILIES if f in corpus_shapes.OPT_IN and f not in PENDING_TRIAGE and corpus_shapes.live_styles(f)]


def shape_jobs(seed, tier="quick", families=None, extra=(), per=1, thorough=40, accel=None):
    """`per` networks (thorough tier: `thorough`) of every graph-shape family - or of the named ones - plus the same number
    again for every name in `extra` (the families a check cares most about; a name may be repeated), each with the
    configuration point its hint asks for.  The styles of a family are taken in rotation, the starting point chosen by the
    seed: with c networks of a family per run, ceil(len(styles) / c) consecutive seeds cover every style.  Network and
    configuration of an entry depend only on (seed, family, number of entries of that family, position)."""
    live = shape_families()
    named = live + opt_in_shape_families()          # opt-in families: only when named in `families` / `extra`
    names = [f for f in (list(families) if families is not None else live) + list(extra) if f in named]
    k = per if tier == "quick" else thorough
    count = {f: names.count(f) * k for f in names}
    out = []
    for fam in sorted(count, key=SHAPE_FAMILIES.index):
        styles = corpus_shapes.live_styles(fam)
        for j in range(count[fam]):
            rk = random.Random((seed * 1000003) ^ zlib.crc32(fam.encode()) ^ (j * 7919) ^ 0x5a9e)
            style = styles[(seed * count[fam] + j) % len(styles)]
            label, net, hint = FAMILIES[fam](rk, rk.randrange(1 << 20), style)
            opts = config_point(rk, accel)
            opts.update(hint)
            opts = {a: v for a, v in opts.items() if v is not None}
            out.append({"id": "g%s%d" % (fam, j), "family": label, "net": net, "opts": opts, "hint": hint})
    return out


def shape_sample(seed, tier="quick", k=4, thorough=10):
    """for checks whose cost per network is high: one network of k graph-shape families, the families taken in rotation by
    the seed (ceil(#families / k) consecutive seeds cover all); thorough tier: `thorough` networks of every family"""
    live = shape_families()
    if tier != "quick" or not live:
        return shape_jobs(seed, tier, thorough=thorough)
    return shape_jobs(seed, tier, families=[live[(seed * k + i) % len(live)] for i in range(min(k, len(live)))])


def draw(n, seed, families=None, accel=None, dedicated_bias=0.0, weights=None):
    rng = random.Random(seed)
    fams = families or [f for i, f in enumerate(FAMILIES) if f not in PENDING_TRIAGE and f not in corpus_shapes.FAMILIES
                        and not (LEGACY_ONLY and i >= N_LEGACY_FAMILIES)]
    out = []
    for i in range(n):
        fam = rng.choices(fams, weights=weights)[0] if weights else fams[i % len(fams)]
        s = rng.randrange(1 << 20)
        r = FAMILIES[fam](rng, s)
        label, net = r[0], r[1]
        opts = config_point(rng, accel, dedicated_bias)
        if len(r) > 2:            # the family knows which configuration makes it interesting
            opts.update(r[2])
            opts = {k: v for k, v in opts.items() if v is not None}
        out.append({"id": i, "family": label, "net": net, "opts": opts, "hint": r[2] if len(r) > 2 else None})
    return out
