"""Coordinate compression of byte intervals into small integer cells for TLC.

Two flavours:
 * classes(): bytes that are covered by exactly the same set of accesses form one class (exact for any
   predicate that only asks whether two accesses intersect or whether an access lies inside an extent);
 * endpoint_cells(): consecutive interval end points delimit a cell (needed when per-cell state is kept,
   e.g. the writer-tag machine of C03), with end points translated across DMA copies until a fixed point.
"""
import collections


def classes(accesses):
    """accesses: list of (region, [(start, end), ...]).  Returns (cells_per_access, nclasses): for each access the
    sorted list of class ids of the bytes it covers."""
    per_region = collections.defaultdict(list)
    for i, (reg, ivs) in enumerate(accesses):
        for (s, e) in ivs:
            if e > s:
                per_region[reg].append((s, 1, i))
                per_region[reg].append((e, 0, i))
    sig_id = {}
    out = [set() for _ in accesses]
    for reg in sorted(per_region, key=str):
        evs = sorted(per_region[reg])
        active = collections.Counter()
        k = 0
        n = len(evs)
        prev = None
        while k < n:
            p = evs[k][0]
            if prev is not None and active and p > prev:
                sig = (str(reg), frozenset(active))
                cid = sig_id.setdefault(sig, len(sig_id))
                for i in active:
                    out[i].add(cid)
            while k < n and evs[k][0] == p:
                _, typ, i = evs[k]
                if typ == 1:
                    active[i] += 1
                else:
                    active[i] -= 1
                    if active[i] == 0:
                        del active[i]
                k += 1
            prev = p
    return [sorted(s) for s in out], len(sig_id)


def endpoint_cells(points_by_region, copies):
    """points_by_region: {region: set(endpoints)}; copies: list of (src_region, src_addr, dst_region, dst_addr, n).
    Closes the end point sets under translation across each copy, then numbers cells globally.
    Returns cellrange(region, a, n) -> range of cell ids, and the total number of cells."""
    pts = {k: set(v) for k, v in points_by_region.items()}
    for (sr, sa, dr, da, n) in copies:
        pts.setdefault(sr, set()).update((sa, sa + n))
        pts.setdefault(dr, set()).update((da, da + n))
    changed = True
    while changed:
        changed = False
        for (sr, sa, dr, da, n) in copies:
            for p in list(pts[sr]):
                if sa <= p <= sa + n and (p - sa + da) not in pts[dr]:
                    pts[dr].add(p - sa + da)
                    changed = True
            for p in list(pts[dr]):
                if da <= p <= da + n and (p - da + sa) not in pts[sr]:
                    pts[sr].add(p - da + sa)
                    changed = True
    idx = {}
    ncell = 0
    for reg in sorted(pts, key=str):
        ps = sorted(pts[reg])
        idx[reg] = {p: ncell + i for i, p in enumerate(ps)}
        ncell += len(ps)

    def cellrange(reg, a, n):
        return range(idx[reg][a], idx[reg][a + n])
    return cellrange, ncell
