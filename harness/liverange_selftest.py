"""Stand-alone driver of the LiveRange growth component:  cd /verif && /venv/bin/python -m harness.liverange_selftest
[--n 60] [--tier quick|thorough] [--no-mc] [--show K]

Compiles corpus networks across the configuration lattice with the run-time wrapper installed, validates the recorded
live ranges against the independent use account (spec/LiveRangeTrace.tla) and prints the counters and every finding.
Exit status: 0 no finding, 1 findings (latent or manifest), 2 machinery error.  Never reports a property violation."""
import argparse
import json
import sys
import time

from . import corpus, liverange, vela_run
from .common import MachineryError, seed

FAMILIES = ["chain", "bigchain", "nncascade", "s2cascade", "branch", "diamonds", "inplace", "mixed", "cpuouts", "memcpy",
            "pruned", "wide", "lutcascade"]


def jobs_for(n, sd):
    return corpus.draw(n, sd + 31, families=FAMILIES)


def probe_jobs():
    """hand-built networks aimed at the in-place fusing rule (not part of the corpus): a tensor produced by a CPU
    operator that feeds an NPU elementwise operator AND a later CPU operator / a later NPU subgraph"""
    from .netgen import Net
    out = []
    for style in ("cpu_then_later_cpu", "cpu_then_later_npu", "input_two_consumers", "npu_then_later_cpu", "memcpy_alias_then_inplace"):
        n = Net(7)
        x = n.fm("in", [1, 8, 8, 16], is_input=True)
        if style == "memcpy_alias_then_inplace":    # the reshape stays as a memcpy whose OFM aliases `a`; ABS then overwrites it
            a = n.cpu_op(x, "ROUND")
            b = n.unary("ABS", n.reshape(a, [1, 64, 1, 16]))
            c = n.cpu_op(a, "ROUND")
            out.append({"id": "probe-" + style, "family": "probe:" + style, "net": n.desc([b, c]), "opts": {"accel": "ethos-u55-128"}})
            continue
        if style == "input_two_consumers":          # protected by the code: network input with two consumers
            a = x
        elif style == "npu_then_later_cpu":         # protected by the code: output of an earlier NPU subgraph
            a = n.cpu_op(n.conv(x, 16, 1), "ROUND")
            a = n.conv(a, 16, 1)
            a2 = n.cpu_op(a, "ROUND")
            b = n.unary("ABS", a)
            cpu = n.fm("cpu_out", [1, 8, 8, 16], "INT8", 0.05, 0)
            n.op("FLOOR_DIV", [a2, b], [cpu])
            out.append({"id": "probe-" + style, "family": "probe:" + style, "net": n.desc([cpu, a]), "opts": {"accel": "ethos-u55-128"}})
            continue
        else:
            a = n.cpu_op(x, "ROUND")
        b = n.unary("ABS", a)
        if style == "cpu_then_later_npu":
            c = n.cpu_op(b, "ROUND")
            outs = [n.eltwise("ADD", c, a)]
        else:
            cpu = n.fm("cpu_out", [1, 8, 8, 16], "INT8", 0.05, 0)
            n.op("FLOOR_DIV", [a, b], [cpu])
            outs = [cpu]
        out.append({"id": "probe-" + style, "family": "probe:" + style, "net": n.desc(outs), "opts": {"accel": "ethos-u55-128"}})
    return out


def compile_and_validate(jobs):
    liverange.install()
    try:
        rs = vela_run.compile_many(jobs, extractor=liverange.extractor)
    finally:
        liverange.uninstall()
    recs = [x.get("extract") for x in rs]
    bad = [x.get("extract_error") for x in rs if x.get("extract_error")]
    if bad:
        raise MachineryError("liverange.extractor failed in %d compilations:\n%s" % (len(bad), bad[0][-2000:]))
    res, findings, cnt = liverange.validate(recs)
    cnt["compiled_ok"] = sum(1 for x in rs if x["rc"] == 0)
    cnt["compilations"] = len(rs)
    return rs, recs, res, findings, cnt


def main(argv=None):
    ap = argparse.ArgumentParser()
    ap.add_argument("--n", type=int, default=60)
    ap.add_argument("--tier", default="quick")
    ap.add_argument("--no-mc", action="store_true")
    ap.add_argument("--show", type=int, default=12)
    ap.add_argument("--probe", action="store_true", help="compile the hand-built in-place probes instead of the corpus")
    a = ap.parse_args(argv)
    t0 = time.time()
    try:
        if not a.no_mc:
            for name, res in liverange.mc(a.tier):
                print("MC %-34s %-9s %-10s distinct=%-8d generated=%-8d %.1fs" % (
                    name, res["status"], res.get("violated") or "", res["distinct"], res["generated"], res["wall"]))
            print("trace negative control rejected:", liverange.negative_trace_control())
        t1 = time.time()
        jobs = probe_jobs() if a.probe else jobs_for(a.n, seed())
        rs, recs, res, findings, cnt = compile_and_validate(jobs)
    except MachineryError as ex:
        print("MACHINERY ERROR:", ex)
        return 2
    fam = {}
    for j, r in zip(jobs, recs):
        f = j["family"].split(":")[0]
        d = fam.setdefault(f, {"jobs": 0, "passes": 0, "bufs": 0, "fused": 0})
        d["jobs"] += 1
        for p in (r or {}).get("passes") or []:
            d["passes"] += 1
            d["bufs"] += len(p["bufs"])
            d["fused"] += len(p["fused"])
    print("counters:", json.dumps(cnt, sort_keys=True))
    print("per family:", json.dumps(fam, sort_keys=True))
    if res is not None:
        print("LiveRangeTrace: %d records, TLC %s, %.1fs" % (cnt["passes"], res["status"], res["wall"]))
    for f in findings[:a.show]:
        j = jobs[f["job"]]
        print("FINDING %s %s  family=%s opts=%s pass=%s/%s" % (f["kind"], f["prop"], j["family"], json.dumps(j["opts"], sort_keys=True),
                                                              f["area"], f["alloc"]))
        print("   ", json.dumps(f["detail"], sort_keys=True)[:700])
    print("findings: %d (latent %d, manifest %d); mc+controls %.1fs, compile+validate %.1fs" % (
        len(findings), cnt["latent"], cnt["manifest"], t1 - t0, time.time() - t1))
    return 1 if findings else 0


if __name__ == "__main__":
    sys.exit(main())
