"""Observation of the scheduler's fast-storage component allocation in real compilations (run-time wrapping of
scheduler.FastStorageComponentAllocator.allocate_component; no source hook) and projection onto the records of
spec/FastStorageTrace.tla."""
_CAPTURED = []


def install():
    """call in the parent before vela_run.compile_many forks: children inherit the wrapped method"""
    from . import codec
    codec.inject()
    import ethosu.vela.vela  # noqa: F401  (import order: vela first, scheduler has a circular import otherwise)
    from ethosu.vela import scheduler
    cls = scheduler.FastStorageComponentAllocator
    if getattr(cls, "_verif_wrapped", False):
        return
    real = cls.allocate_component

    def allocate_component(self, lrs, max_mem, min_mem, scratched_fms, competing_tens_access, evicted_fms):
        rec = None
        try:
            s0 = min(lr.start_time for lr in lrs)
            e1 = max(lr.end_time for lr in lrs)
            rec = {"n": int(e1 - s0 + 1), "limit": int(self.staging_limit),
                   "base": [int(v) for v in min_mem[s0:e1 + 1]], "maxu": [int(v) for v in max_mem[s0:e1 + 1]],
                   "lrs": [{"s": int(lr.start_time - s0), "e": int(lr.end_time - s0), "z": int(lr.size),
                            "sc": int(competing_tens_access[lr.tensors[0]])} for lr in lrs]}
        except Exception:
            rec = None
        res = real(self, lrs, max_mem, min_mem, scratched_fms, competing_tens_access, evicted_fms)
        if rec is not None:
            rec["ev"] = [bool(v) for v in self.evicted]
            _CAPTURED.append(rec)
        return res

    cls.allocate_component = allocate_component
    cls._verif_wrapped = True
    cls._verif_real = real


def uninstall():
    from ethosu.vela import scheduler
    cls = scheduler.FastStorageComponentAllocator
    if getattr(cls, "_verif_wrapped", False):
        cls.allocate_component = cls._verif_real
        cls._verif_wrapped = False


def extractor(nng, arch, res):
    return list(_CAPTURED)


extractor.on_failure = True     # the records matter most when the compilation dies right after the allocation
