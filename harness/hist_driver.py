"""History driver for C14 (stand-alone script, run as a subprocess: one fresh interpreter per history).

    PYTHONHASHSEED=<n> VERIF_HIST_REPO=<repo> VERIF_HIST_CODEC=<mlw_codec .so> python -P hist_driver.py plan.json result.json

(the driver puts the repository first on sys.path and installs the private build of the C codec as
ethosu.mlw_codec itself; it does not rely on a sitecustomize shim, which concurrent VERIF_REPO runs share)

plan  = {"workdir": dir, "steps": [{"entry": "main"|"convert"|"convert_bytes", "model": path, "args": [...],
                                    "container": "file"|"ba"|"shared"|"mvrw"|"mvro"}]}
         container (convert_bytes only): ba = a bytearray made for this call; shared = the bytearray this "caller" keeps
         per model and hands in again in later steps; mvrw = a writable memoryview of that kept bytearray; mvro = a
         memoryview of a bytes object (read-only)
result = {"hashseed": ..., "init": <cache projection>, "steps": [<step record>...]}

Every step calls the real entry point of ethosu.vela.vela.  After each step the process-wide state is
projected: CompressedWeightCache.cache, TensorAddressMap.address_map, create_equivalence_id (lru_cache),
DebugDatabase tables, default_arch_cache, MemoryAccessSet.conflicts (lru_cache), random.getstate().
Three observation wrappers are installed at run time (no source hook): cache lookups, equivalence-id
requests and address assignments are counted, and those that are served from / collide with state created
by an *earlier* step of the same process are counted separately ("stale").  The wrappers only observe.
Per step the driver also records every file the call wrote ("art": [name relative to the output directory, digest];
the path of the output directory inside text files is replaced by $OUT) and digests of the object the entry point was
handed (the caller's buffer, or the model file) before and after the call ("inb", "ina"; "ino" = the model as it was when
this process first read it).
"""
import contextlib
import hashlib
import io
import json
import os
import random
import shutil
import sys
import traceback


def _h(b):
    return hashlib.sha256(bytes(b)).hexdigest()[:16]


def _files(root):
    out = {}
    for dp, _, fns in os.walk(root):
        for fn in fns:
            out[os.path.relpath(os.path.join(dp, fn), root)] = os.path.join(dp, fn)
    return out


def _artefacts(root, shown_as, skip=()):
    """[name, digest] of every file below root; text files with the directory name masked"""
    art = []
    for rel, path in sorted(_files(root).items()):
        if rel in skip:
            continue
        data = open(path, "rb").read()
        if not rel.endswith(".tflite"):
            for d in shown_as:
                data = data.replace(d.encode(), b"$OUT")
        art.append([rel, _h(data)])
    return art


def _inject():
    import importlib.machinery
    import importlib.util
    repo, so = os.environ["VERIF_HIST_REPO"], os.environ["VERIF_HIST_CODEC"]
    sys.path.insert(0, repo)
    import ethosu
    loader = importlib.machinery.ExtensionFileLoader("ethosu.mlw_codec", so)
    spec = importlib.util.spec_from_file_location("ethosu.mlw_codec", so, loader=loader)
    mod = importlib.util.module_from_spec(spec)
    spec.loader.exec_module(mod)
    sys.modules["ethosu.mlw_codec"] = mod
    ethosu.mlw_codec = mod


def main():
    plan = json.load(open(sys.argv[1]))
    os.chdir(plan["workdir"])
    _inject()
    from ethosu.vela import vela
    from ethosu.vela import tensor as T
    from ethosu.vela import weight_compressor as WC
    from ethosu.vela import architecture_features as AF
    from ethosu.vela.debug_database import DebugDatabase
    from ethosu.vela.range_set import MemoryAccessSet

    for st in plan["steps"]:
        if not callable(getattr(vela, st["entry"], None)):
            # cannot bind to the code (e.g. the file is being rewritten): the harness reports a machinery error
            sys.stderr.write("entry point ethosu.vela.vela.%s is missing\n" % st["entry"])
            return 3
    rname = os.path.relpath(os.path.abspath(sys.argv[2]), plan["workdir"])
    obs = {"step": 0}
    wc_born = {}        # id(cache key object) is not stable -> use the key itself (hashable namedtuple)
    eq_born = {}
    cnt = {}
    keys = {}
    wc_token = {}       # actual cache key -> stable token (digest of a seed-independent description of the key)
    uuid_key = {}       # UUID handed out by create_equivalence_id -> digest of the value key

    def token_of(wcc):
        return wc_token.get(wcc) or "?" + _h(repr(tuple(str(x) for x in wcc)).encode())[:8]

    def reset_counters():
        cnt.clear()
        cnt.update(wc_lookups=0, wc_hits=0, wc_stale_hits=0, eq_calls=0, eq_stale=0, am_sets=0, am_stale_sets=0,
                   am_stale_conflicts=0)
        keys.clear()
        keys.update(vk=set(), vks=set(), wk=set(), wks=set())

    reset_counters()
    CWC = WC.CompressedWeightCache
    real_get = CWC.get_tensor_with_same_compression
    real_add = CWC.add

    def get_tensor_with_same_compression(wcc):
        r = real_get(wcc)
        cnt["wc_lookups"] += 1
        keys["wk"].add(token_of(wcc))
        if r is not None:
            cnt["wc_hits"] += 1
            if wc_born.get(wcc, obs["step"]) != obs["step"]:
                cnt["wc_stale_hits"] += 1
                keys["wks"].add(token_of(wcc))
        return r

    def add(tens):
        wc_born[tens.weight_compression_config] = obs["step"]
        return real_add(tens)

    CWC.get_tensor_with_same_compression = staticmethod(get_tensor_with_same_compression)
    CWC.add = staticmethod(add)

    real_eq = T.create_equivalence_id

    def create_equivalence_id(key):
        cnt["eq_calls"] += 1
        kd = _h(repr(key).encode())[:10]
        keys["vk"].add(kd)
        hits = real_eq.cache_info().hits
        u = real_eq(key)
        if real_eq.cache_info().hits > hits:        # served from the memo
            if eq_born.get(key) != obs["step"]:
                cnt["eq_stale"] += 1
                keys["vks"].add(kd)
        else:
            eq_born[key] = obs["step"]
        uuid_key[u] = kd
        return u

    create_equivalence_id.cache_info = real_eq.cache_info
    create_equivalence_id.cache_clear = real_eq.cache_clear
    for name, mod in list(sys.modules.items()):
        if name.startswith("ethosu.vela") and mod is not None and getattr(mod, "create_equivalence_id", None) is real_eq:
            setattr(mod, "create_equivalence_id", create_equivalence_id)

    # scheduler.py reaches the encoder through the module attribute: describe every cache key it will look up
    real_encode = WC.encode_weight_and_scale_tensor

    def encode_weight_and_scale_tensor(arch, op, weight_tens, scale_tens, kernel, block_config, depth_offsets):
        try:
            wcc = WC.create_weight_compression_config(weight_tens, op.type.npu_block_type, block_config.ofm_block.depth,
                                                      hash(str(depth_offsets)), kernel.dilation)
            if wcc not in wc_token:
                vid = weight_tens.value_id
                vpart = "V" + uuid_key[vid] if vid in uuid_key else "F%d:%s" % (obs["step"], weight_tens.name)
                d = [vpart, str(wcc.npu_block_type), int(wcc.ofm_block_depth), [int(x) for x in depth_offsets],
                     [int(x) for x in kernel.dilation]]
                # the token is the cache key with the process-specific parts (UUID, hash of a string) replaced by
                # what they stand for; equal tokens <=> equal keys as long as the id memo is not cleared in between
                wc_token[wcc] = ("v" if vpart[0] == "V" else "f") + _h(json.dumps(d).encode())[:10]
        except Exception:       # observation must never change what the compiler does
            pass
        return real_encode(arch, op, weight_tens, scale_tens, kernel, block_config, depth_offsets)

    WC.encode_weight_and_scale_tensor = encode_weight_and_scale_tensor

    TAM = T.TensorAddressMap
    am_born = {}
    real_set = TAM.set_address_for_tens.__func__

    def set_address_for_tens(cls, tens_id, mem_type, address):
        cnt["am_sets"] += 1
        k = (tens_id, mem_type)
        if k in am_born and am_born[k] != obs["step"]:
            # only entries that still exist in the live map count (the map may have been cleared since)
            prev = cls.address_map.get(tens_id, {}).get(mem_type) if tens_id in cls.address_map else None
            if prev is not None:
                cnt["am_stale_sets"] += 1
                if address is not None and prev != address:
                    cnt["am_stale_conflicts"] += 1
        if address is not None:
            am_born.setdefault(k, obs["step"])
        return real_set(cls, tens_id, mem_type, address)

    TAM.set_address_for_tens = classmethod(set_address_for_tens)

    def _settings():
        # interpreter-wide settings other than the recursion limit: numpy error state and print options, warnings filters, locale
        import locale
        import warnings
        import numpy as np
        po = {k: v for k, v in np.get_printoptions().items() if k != "formatter"}
        return _h(repr((sorted(np.geterr().items()), sorted(po.items(), key=str), [str(f[:4]) for f in warnings.filters],
                        locale.setlocale(locale.LC_ALL), sys.getswitchinterval(), sys.flags.hash_randomization)).encode())

    def project():
        wc = WC.CompressedWeightCache.cache
        enc = sorted(_h(getattr(t, "buffer", b"") or b"") for t in wc.values())
        am = T.TensorAddressMap.address_map
        ci = real_eq.cache_info()
        cf = MemoryAccessSet.conflicts.cache_info()
        return {"wc_size": len(wc), "wc_enc": _h(json.dumps(enc).encode()),
                "am_size": sum(1 for v in am.values() if any(a is not None for a in v.values())),
                "eq_size": ci.currsize, "eq_hits": ci.hits, "eq_misses": ci.misses,
                "ddb": [len(DebugDatabase._sourceTable), len(DebugDatabase._optimisedTable),
                        len(DebugDatabase._queueTable), len(DebugDatabase._streamUID)],
                "arch_cache": len(AF.default_arch_cache), "conflict_memo": cf.currsize,
                "rng": _h(repr(random.getstate()).encode()),
                "rl": sys.getrecursionlimit(), "envd": _settings()}

    kept = {}           # model path -> the bytearray the caller keeps (containers shared / mvrw)
    pristine = {}       # model path -> digest of the model when this process first read it

    def model_bytes(path):
        data = open(path, "rb").read()
        pristine.setdefault(path, _h(data))
        return data

    out = {"hashseed": os.environ.get("PYTHONHASHSEED"), "vela_file": vela.__file__, "init": project(), "steps": []}
    codec = sys.modules.get("ethosu.mlw_codec")
    out["codec_file"] = getattr(codec, "__file__", None)
    for i, st in enumerate(plan["steps"]):
        obs["step"] = i + 1
        reset_counters()
        rec = {"entry": st["entry"], "rc": None, "digest": None, "csv": None, "exc": None, "msg": None, "tb": None,
               "ddb_digest": None, "art": [], "inb": "", "ina": "", "ino": ""}
        buf = io.StringIO()
        cont = st.get("container") or ("ba" if st["entry"] == "convert_bytes" else "file")
        rec["container"] = cont
        handed = owner = None       # the object given to the entry point / the object whose bytes the caller owns
        art_of = lambda: []
        try:
            if st["entry"] == "convert_bytes":
                if cont in ("shared", "mvrw"):
                    if st["model"] not in kept:
                        kept[st["model"]] = bytearray(model_bytes(st["model"]))
                    owner = kept[st["model"]]
                    handed = owner if cont == "shared" else memoryview(owner)
                elif cont == "mvro":
                    owner = bytes(model_bytes(st["model"]))
                    handed = memoryview(owner)
                else:
                    owner = handed = bytearray(model_bytes(st["model"]))
                rec["inb"] = _h(owner)
            else:
                rec["inb"] = _h(model_bytes(st["model"]))
            rec["ino"] = pristine[st["model"]]
        except OSError as e:
            sys.stderr.write("cannot read %s: %s\n" % (st["model"], e))
            return 3
        try:
            with contextlib.redirect_stdout(buf):
                if st["entry"] == "main":
                    od = os.path.join(plan["workdir"], "o%d" % i)
                    art_of = lambda: _artefacts(od, [od]) if os.path.isdir(od) else []
                    rc = vela.main([st["model"], "--output-dir", od] + list(st.get("args", [])))
                    rec["rc"] = rc
                    base = os.path.splitext(os.path.basename(st["model"]))[0]
                    fn = os.path.join(od, base + "_vela.tflite")
                    if os.path.exists(fn):
                        rec["digest"] = _h(open(fn, "rb").read())
                    if os.path.isdir(od):
                        for f in sorted(os.listdir(od)):
                            if f.startswith(base + "_summary_") and f.endswith(".csv"):
                                rec["csv"] = _h(open(os.path.join(od, f), "rb").read())
                                rec["csv_text"] = open(os.path.join(od, f)).read()
                            if f.endswith("_debug.xml"):
                                rec["ddb_digest"] = _h(open(os.path.join(od, f), "rb").read())
                elif st["entry"] == "convert":
                    base = os.path.splitext(os.path.basename(st["model"]))[0]
                    exp = os.path.join("output", base + "_vela.tflite")
                    shutil.rmtree("output", ignore_errors=True)     # what is there afterwards was written by this step
                    art_of = lambda: _artefacts("output", ["output"]) if os.path.isdir("output") else []
                    fn = vela.convert(st["model"])
                    rec["rc"] = 0
                    rec["digest"] = _h(open(fn, "rb").read())
                elif st["entry"] == "convert_bytes":
                    before = set(_files(plan["workdir"]))
                    art_of = lambda: _artefacts(plan["workdir"], [plan["workdir"]], skip=before | {rname, rname + ".tmp"})
                    mv = vela.convert_bytes(handed)
                    rec["rc"] = 0
                    rec["digest"] = _h(bytes(mv))
                else:
                    raise ValueError("unknown entry " + st["entry"])
        except SystemExit as e:
            rec["rc"] = e.code if isinstance(e.code, int) else 2
            rec["exc"] = "SystemExit"
            rec["msg"] = str(e.code)
        except BaseException as e:
            rec["exc"] = type(e).__name__
            rec["msg"] = str(e)[:200]
            rec["tb"] = traceback.format_exc()[-1500:]
        text = buf.getvalue()
        rec["stdout_tail"] = text[-300:]
        try:
            rec["art"] = art_of()
            rec["ina"] = _h(owner) if owner is not None else _h(open(st["model"], "rb").read())
        except OSError as e:
            rec["art"], rec["ina"] = [["<unreadable>", str(e)[:60]]], "unreadable"
        rec["after"] = project()
        rec["obs"] = dict(cnt)
        rec["keys"] = {k: sorted(v) for k, v in keys.items()}
        out["steps"].append(rec)
        # written after every step: a hard crash of the interpreter in a later step keeps the earlier records
        with open(sys.argv[2] + ".tmp", "w") as f:
            json.dump(out, f)
        os.replace(sys.argv[2] + ".tmp", sys.argv[2])
    if not plan["steps"]:
        with open(sys.argv[2], "w") as f:
            json.dump(out, f)
    return 0


if __name__ == "__main__":
    sys.exit(main())
