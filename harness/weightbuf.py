"""Runs in the compiling child: the weight-buffering decisions of the final schedule of every NPU subgraph, as records
for spec/WeightBufferTrace.tla (sizes only; nothing here decides anything)."""


def extract(nng, arch, res):
    if nng is None:
        return []
    from ethosu.vela.nn_graph import PassPlacement
    from ethosu.vela.numeric_util import round_up
    from ethosu.vela.tensor import TensorSubPurpose
    from ethosu.vela.weight_compressor import WeightKey
    out = []
    for sg in nng.subgraphs:
        if sg.placement != PassPlacement.Npu or getattr(sg, "schedule", None) is None:
            continue
        for so in sg.sched_ops:
            cost = sg.schedule.cost_map.get(so)
            if cost is None or not cost.buffered_weight_tensors or cost.npu_weights_tensor is None:
                continue
            src = cost.npu_weights_tensor
            slices = []
            for d in cost.ofm_depth_slices[:-1]:
                sz = 0
                for core in range(arch.ncores):
                    k = WeightKey(core, d)
                    if k in src.encoded_ranges:
                        sz += round_up(src.encoded_ranges[k].total_bytes, 16)
                slices.append(int(sz))
            bufs = [int(t.storage_size()) for t in cost.buffered_weight_tensors]
            kind = "double" if cost.buffered_weight_tensors[0].sub_purpose == TensorSubPurpose.DoubleBuffer else "single"
            out.append({"op": so.name, "slices": slices, "bufs": bufs, "kind": kind})
    return out
