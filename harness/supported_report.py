"""The supported-operators report of the working tree: generate it (vela --supported-ops-report in a
scratch directory), parse the markdown, and turn the constraint bullets of the operators covered by
C16 into (a) identifiers of constraint *kinds* and (b) the numeric / set constants they mention.

Nothing here imports the compiler: the report is what a user reads, and C16 is about that text."""
import os
import re
import subprocess

from . import codec
from .common import PY, REPO, MachineryError

COVERED = ["CONV_2D", "DEPTHWISE_CONV_2D", "MAX_POOL_2D", "AVERAGE_POOL_2D", "ADD", "SUB", "MUL", "FULLY_CONNECTED",
           "RESHAPE", "SQUEEZE", "EXPAND_DIMS", "MEAN",
           # round 4
           "TRANSPOSE_CONV", "RESIZE_BILINEAR", "RESIZE_NEAREST_NEIGHBOR", "SOFTMAX", "LEAKY_RELU", "HARD_SWISH", "ABS", "EXP",
           "RSQRT", "LOGISTIC", "TANH", "RELU", "RELU6", "RELU_N1_TO_1", "MINIMUM", "MAXIMUM", "SQUARED_DIFFERENCE",
           "CONCATENATION", "SPLIT", "SPLIT_V", "SLICE", "STRIDED_SLICE", "TRANSPOSE", "PAD", "ARG_MAX"]


def generate(tmpdir):
    env = dict(os.environ)
    env["PYTHONPATH"] = codec.shim_dir() + os.pathsep + REPO
    p = subprocess.run([PY, "-m", "ethosu.vela", "--supported-ops-report"], cwd=tmpdir, env=env, capture_output=True,
                       text=True, timeout=300)
    path = os.path.join(tmpdir, "SUPPORTED_OPS.md")
    if p.returncode != 0 or not os.path.exists(path):
        raise MachineryError("vela --supported-ops-report failed: rc=%s\n%s" % (p.returncode, (p.stdout + p.stderr)[-2000:]))
    with open(path) as f:
        return f.read()


def _norm(s):
    return re.sub(r"\s+", " ", s).strip()


def parse(md):
    """-> {"table": [operator names], "generic": [(text, [excluded ops])], "specific": {op: [texts]}}"""
    lines = md.splitlines()
    out = {"table": [], "generic": [], "specific": {}}
    sec = None
    cur = None

    def flush():
        nonlocal cur
        if cur is None:
            return
        text = _norm(cur)
        if sec == "generic":
            m = re.match(r"^(.*?) - \[([A-Z0-9_, ]+)\]$", text)
            if m:
                out["generic"].append((m.group(1).strip(), [x.strip() for x in m.group(2).split(",")]))
            else:
                out["generic"].append((text, []))
        elif sec is not None:
            out["specific"].setdefault(sec, []).append(text)
        cur = None

    in_tflite = False
    for ln in lines:
        if ln.startswith("## "):
            flush()
            in_tflite = ln.strip() == "## TFLite Summary Table"
            sec = None
            continue
        if not in_tflite:
            continue
        m = re.match(r"^\| ([A-Z0-9_]+) \| ", ln)
        if m:
            out["table"].append(m.group(1))
            continue
        if ln.startswith("### "):
            flush()
            t = ln[4:].strip()
            if t == "TFLite Generic Constraints":
                sec = "generic"
            else:
                m = re.match(r"^TFLite ([A-Z0-9_]+) Constraints$", t)
                sec = m.group(1) if m else None
            continue
        if sec is None:
            continue
        if ln.startswith("- "):
            flush()
            cur = ln[2:]
        elif cur is not None and ln.strip() and ln[0] in " \t":
            cur += " " + ln
        elif not ln.strip():
            flush()
    flush()
    return out


def _lst(s):
    return [x.strip() for x in s.split(",") if x.strip()]


# (identifier, regular expression on the normalised bullet, names of the constants captured)
GENERIC_PATTERNS = [
    ("attrs", r"^All required operator attributes must be specified$", ()),
    ("nodynamic", r"^Input\(s\) and Output tensors must not be dynamic$", ()),
    ("defshape", r"^Input\(s\) and Output tensors must have a defined shape$", ()),
    ("outscalar", r"^Output tensors cannot be scalar$", ()),
    ("inscalar", r"^Scalar Input tensors are only valid for op type: (.+)$", ("ScalarOps",)),
    ("rank", r"^Input\(s\) and Output tensors must not be greater than (\d+)D$", ("MaxRank",)),
    ("quant", r"^Input\(s\), Output and Weight tensors must have quantization parameters$", ()),
    ("scalefinite", r"^Input\(s\), Output and Weight tensors with quantization scales must be finite$", ()),
    ("scalef32", r"^Input and Output tensors must have quantization scales that fit within float32 precision$", ()),
    ("noneconst", r"^Constant tensors should not have NoneType-values$", ()),
    ("types", r"^Tensors must be of type: (.+)$", ("TypeSet",)),
    ("int32ops", r"^Tensors which are int32 are only valid when op type is: (.+)$", ("Int32Ops",)),
    ("dims", r"^Tensor dimensions must be in the range \[(\d+), (\d+)\]$", ("DimLo", "DimHi")),
    ("peraxis", r"^Per-axis quantization is only supported for the following op types: (.+)$", ("PerAxisOps",)),
    ("batch", r"^IFM Tensor batch size must be (\d+)$", ("BatchVal",)),
    ("faf", r"^The fused activation function \(if present\) must be one of type: (.+)$", ("FafSet",)),
    ("faftype", r"^If a fused activation function is present, the Output tensor must be one of type: (.+)$", ("FafOutTypes",)),
]
STRIDE_CRIT = (r"^Strides must fulfil the following criteria: - Stride h must be between (\d+) and (\d+) when ofm height is "
               r"greater than 1 - Stride w must be between (\d+) and (\d+) when ofm height is greater than 1 or stride w must "
               r"be divisible by 2 or 3 and ifm width must be divisible by stride_w/2 or stride_w/3$")
SPECIFIC_PATTERNS = [
    ("stride_int", r"^Stride values for both width and height must be integer types$", ()),
    ("groups_depth", r"^IFM depth must be a whole multiple of the filter kernel depth$", ()),
    ("groups_filters", r"^Number of filter kernels must be equally divisible by the number of convolution groups$", ()),
    ("dil_int", r"^Dilation factor values for both width and height must be integer types$", ()),
    ("stride_crit", STRIDE_CRIT, ("ScHLo", "ScHHi", "ScWLo", "ScWHi")),
    ("dilh", r"^Dilated kernel height must be in the range \[(\d+), (\d+)\]$", ("DilHLo", "DilHHi")),
    ("dilprod", r"^Product of dilated kernel width and height must be in the range \[(\d+), (\d+)\]$", ("DilPLo", "DilPHi")),
    ("w8", r"^Weight tensor must be 8-bit$", ()),
    ("wconst", r"^Weight tensor must be constant$", ()),
    ("wsum", r"^The sum of the weights cannot exceed (\d+)$", ("WSumMax",)),
    ("bshape", r"^Optional Bias tensor must be of shape: 1D$", ()),
    ("bconst", r"^Optional Bias tensor must be constant$", ()),          # the generated biases are constant (generator assumption)
    ("bshape_nonconst", r"^Optional Bias tensor must be of shape: 1D \(a constant Bias tensor of any other shape is reshaped "
                        r"to 1D\)$", ()),
    ("wsym", r"^Weight tensor zero points must be 0 when IFM is int8 or int16 \(unless --force-symmetric-int-weights is "
             r"used\)$", ()),
    ("btype", r"^Optional Bias tensor must be of type: (.+)$", ("BiasTypes",)),
    ("b40", r"^Optional Bias tensor values must fit within (\d+)-bits$", ("BiasBits",)),
    ("dw_stride", r"^Stride values for both width and height must be between (\d+) and (\d+)$", ("DwSLo", "DwSHi")),
    ("dw_mult", r"^For depth multipliers > 1, IFM channels must be 1 and OFM channels must be equal to the depth multiplier$", ()),
    ("inout_type", r"^IFM and OFM data types must match$", ()),
    ("filter_int", r"^Kernel filter values for both width and height must be integer types$", ()),
    ("pool_stride", r"^Stride values for both width and height must be in the range \[(\d+), (\d+)\]$", ("PsLo", "PsHi")),
    ("mp_h", r"^Kernel filter height must be in the range \[(\d+), (\d+)\]$", ("MpHLo", "MpHHi")),
    ("mp_prod", r"^Product of kernel filter width and height must be in the range \[(\d+), (\d+)\]$", ("MpPLo", "MpPHi")),
    ("ap_stride_pad", r"^Stride width must be greater than or equal to (\d+)\. For stride width greater than (\d+), valid padding "
                      r"needs to be used\.$", ("ApSwMin", "ApSwValidAbove")),
    ("ap_filter", r"^Kernel filter values for both width and height must be in the range \[(\d+), (\d+)\]$", ("ApFLo", "ApFHi")),
    ("ap_filter_same", r"^SAME padding: Kernel filter values for both width and height must be in the range \[(\d+), (\d+)\]$",
     ("ApFLo", "ApFHi")),
    ("ap_vh", r"^VALID padding: Kernel filter height must be in the range \[(\d+), (\d+)\]$", ("ApVHLo", "ApVHHi")),
    ("ap_vprod", r"^VALID padding: Product of kernel filter width and height must be in the range \[(\d+), (\d+)\]$",
     ("ApVPLo", "ApVPHi")),
    ("either_shape", r"^At least one Input's shape must match the OFM's shape$", ()),
    ("in_types", r"^Both Input data types must match$", ()),
    ("signed", r"^For IFM that are signed, OFM must also be signed$", ()),
    ("unsigned", r"^For IFM that are unsigned, OFM must either be the same type or int32$", ()),
    ("broadcast", r"^Broadcasting is only allowed for rank indices with dimension 1, from either IFM1 or IFM2$", ()),
    ("fc_2d", r"^The output tensor\(s\) must have 2D shape$", ()),
    ("fc_knd", r"^The IFM and OFM must have the same number of dimensions if keep_num_dims is set to true$", ()),
    ("rs_quant", r"^Input and output quantisation must match\.$", ()),
    ("rs_elems", r"^Input and output number of elements must match\.$", ()),
    ("rs_const", r"^Shape must be constant$", ()),
    ("mean_rank", r"^Input tensor must be at least (\d+)D$", ("MeanMinRank",)),
    ("mean_axis", r"^Requirements for axis parameter: When IFM tensor is 2D: - Reduction in both axes is supported\. When IFM "
                  r"tensor is 3D or 4D: - Reduction in Batch axis is only supported if batch size is 1\. - Reduction in both "
                  r"Height and Width axes is supported\. - Reduction in Depth axis is supported if at least one of H,W,C are "
                  r"of size 1\.$", ()),
    ("mean_prod", r"^Product of reduced axes must be no greater than: - (\d+) for signed 8-bit inputs\. - (\d+) for unsigned "
                  r"8-bit inputs\. - (\d+) for signed 16-bit inputs\.$", ("MeanProdI8", "MeanProdU8", "MeanProdI16")),
    ("mean_width", r"^If Width axis is reduced its shape must be no greater than (\d+)\.$", ("MeanWMax",)),
    ("mean_depth", r"^If Depth axis is reduced its shape must be no greater than (\d+)\.$", ("MeanDMax",)),
    # ---- round 4
    ("in_s816", r"^IFM must be int8 or int16$", ()),
    ("in_8bit", r"^IFM must be int8 or uint8$", ()),
    ("in_int8", r"^IFM must be int8$", ()),
    ("am_out", r"^OFM must be int32 or int64$", ()),
    ("am_axis", r"^Operation must be performed along the depth axis$", ()),
    ("am_depth", r"^IFM depth must be no greater than (\d+)$", ("ArgMaxDepth",)),
    ("qmatch2", r"^Both Input quantization parameters must match OFM quantization parameters$", ()),
    ("sm_shapes", r"^IFM and OFM shapes must match$", ()),
    ("sm_beta", r"^Beta value needs to be positive$", ()),
    ("cc_axis_exists", r"^Axis attribute must exist$", ()),
    ("cc_axis", r"^Axis attribute must be in the range \[0, <ofm_dimensions>\)$", ()),
    ("cc_rank", r"^All Input dimensionalities must match OFM dimensionality$", ()),
    ("cc_dims", r"^All Input dimensions must match OFM dimension in all axes except the one defined by the axis attribute$", ()),
    ("cc_sum", r"^The size of the OFM axis must match the sum of all IFM axis defined by the axis attribute$", ()),
    ("pad_nin", r"^Number of input tensors must be exactly 2$", ()),
    ("pad_const", r"^The padding tensor must be constant$", ()),
    ("pad_oshape", r"^Shape of output tensor must equal to size of input tensor plus padding$", ()),
    ("pad_shape", r"^The padding tensor must have the shape \[(\d+),2\] or \[(\d+),2\]$", ("PadRowsA", "PadRowsB")),
    ("pad_type", r"^Pad tensor must be of type: (.+)$", ("PadTypes",)),
    ("rz_dims", r"^The width and height of the IFM and OFM must match one of the following criteria: IFM W and H must both be 1 "
                r"IFM must match OFM W and H scaling must be equal and OFM W-1 and H-1 must be (\d+)x/(\d+)x/(\d+)x IFM W-1 and "
                r"H-1, if align_corners is True W and H scaling must be equal and OFM W and H must be (\d+)x/(\d+)x/(\d+)x IFM W "
                r"and H, if align_corners is False$", ("RzA1", "RzA2", "RzA3", "RzF1", "RzF2", "RzF3")),
    ("rz_size", r"^The size tensor must match the output tensor shape$", ()),
    ("rz_attrs", r"^Both align_corners and half_pixel_centers can't be True$", ()),
    ("rz_half", r"^For half_pixel_centers the width and height of the IFM and OFM must match one of the following criteria: "
                r"IFM W and H are both 1 OFM W and H is (\d+)x IFM W and H$", ("RzHalfFactor",)),
    ("sl_const", r"^Begin and Size Input tensors must be constant$", ()),
    ("sp_axis", r"^Axis value must be in the range \[-RANK\(IFM\) to \+RANK\(IFM\)\)$", ()),
    ("sp_div", r"^Axis must be divisible by number of splits$", ()),
    ("sv_inferred", r"^Only one size is allowed to be inferred$", ()),
    ("ss_nin", r"^Exactly 4 Input tensors are required$", ()),
    ("ss_const", r"^Begin, End and Stride Input tensors must be constant$", ()),
    ("ss_ellipsis", r"^ellipsis_mask must be 0$", ()),
    ("ss_masks", r"^new_axis_mask and shrink_axis_mask cannot both be set$", ()),
    ("ss_ranges", r"^Slice 'end' values must be greater than 'begin' values$", ()),
    ("ss_strides", r"^All Strides values must be 1$", ()),
    ("ss_offset", r"^Offset attribute must be False$", ()),
    ("tr_size", r"^Permutation array must be a 1D tensor with RANK\(IFM\) elements$", ()),
    ("tr_values", r"^Permutation array must have constant values in the range \[0, RANK\(IFM\)\)$", ()),
    ("tr_perm", r"^The following shape/permutations are supported for transpose: When ifm rank is 2: WxC -> CxW When ifm rank "
                r"is 3: HxWxC -> WxHxC, 1xWxC -> 1xCxW, Hx1xC -> Cx1xH When ifm rank is 4: 1xHxWxC -> 1xWxHxC, 1x1xWxC -> "
                r"1x1xCxW, 1xHx1xC -> 1xCx1xW$", ()),
    ("tc_stride", r"^Stride values for width and height must match one of the following criteria: Stride values WxH must be "
                  r"1x1 or 2x2 Stride WxH 2x1 supported if ifm height and kernel height = 1$", ()),
    ("tc_same", r"^SAME padding: OFM dimensions must equal IFM dimensions multiplied by stride$", ()),
    ("tc_valid", r"^VALID padding: OFM dimensions must equal IFM dimensions multiplied by stride, minus difference between "
                 r"kernel size and stride$", ()),
]
SET_CONSTS = {"ScalarOps", "TypeSet", "Int32Ops", "PerAxisOps", "FafSet", "FafOutTypes", "BiasTypes", "PadTypes"}
# per-operator constants: the same bullet text may carry different numbers for different operators
PER_OP = {"ScHLo", "ScHHi", "ScWLo", "ScWHi", "DilHLo", "DilHHi", "DilPLo", "DilPHi", "WSumMax", "BiasTypes", "BiasBits"}
DEFAULTS = {"MaxRank": 0, "DimLo": 0, "DimHi": 0, "BatchVal": 1, "TypeSet": [], "Int32Ops": [], "PerAxisOps": [],
            "FafSet": [], "FafOutTypes": [], "ScalarOps": [], "BatchExempt": [],
            "DwSLo": 0, "DwSHi": 0, "PsLo": 0, "PsHi": 0, "MpHLo": 0, "MpHHi": 0, "MpPLo": 0, "MpPHi": 0,
            "MeanMinRank": 0, "MeanProdI8": 0, "MeanProdU8": 0, "MeanProdI16": 0, "MeanWMax": 0, "MeanDMax": 0,
            "ApSwMin": 0, "ApSwValidAbove": 0, "ApFLo": 0, "ApFHi": 0, "ApVHLo": 0, "ApVHHi": 0, "ApVPLo": 0, "ApVPHi": 0,
            "ArgMaxDepth": 0, "PadTypes": [], "RzHalfFactor": 0}
# constants assembled from several captures of one bullet: name -> the captures that make up the set
DERIVED_SETS = {"PadRows": ("PadRowsA", "PadRowsB"), "RzAlignFactors": ("RzA1", "RzA2", "RzA3"), "RzFactors": ("RzF1", "RzF2", "RzF3")}
_DERIVED_PARTS = {p for parts in DERIVED_SETS.values() for p in parts}
PER_OP_DEFAULTS = {"ScHLo": 0, "ScHHi": 0, "ScWLo": 0, "ScWHi": 0, "DilHLo": 0, "DilHHi": 0, "DilPLo": 0, "DilPHi": 0,
                   "WSumMax": 0, "BiasTypes": [], "BiasBits": 0}


def constants(parsed):
    """-> (K, listed, unmodelled)
    K: constants; per-operator ones are dicts {op: value}.  listed: {op: [constraint ids that apply to op]}.
    unmodelled: {op: [bullet texts no pattern recognises]} (expectations of such an operator are suspended)."""
    K = dict(DEFAULTS)
    K.update({k: {} for k in PER_OP})
    listed = {op: [] for op in COVERED}
    unmodelled = {}
    excl = {}
    for text, ex in parsed["generic"]:
        hit = None
        for cid, rx, names in GENERIC_PATTERNS:
            m = re.match(rx, text)
            if m:
                hit = cid
                for nm, g in zip(names, m.groups()):
                    K[nm] = _lst(g) if nm in SET_CONSTS else int(g)
                break
        if hit is None:
            for op in COVERED:
                unmodelled.setdefault(op, []).append("generic: " + text)
            continue
        excl[hit] = ex
        if hit == "batch":
            K["BatchExempt"] = ex
        for op in COVERED:
            if op in parsed["table"] and op not in ex:
                listed[op].append(hit)
    for op in COVERED:
        if op not in parsed["table"]:
            continue
        for text in parsed["specific"].get(op, []):
            hit = None
            for cid, rx, names in SPECIFIC_PATTERNS:
                m = re.match(rx, text)
                if m:
                    if cid == "dw_stride" and op != "DEPTHWISE_CONV_2D":
                        continue
                    if cid in ("mp_h", "mp_prod") and op != "MAX_POOL_2D":
                        continue
                    if cid in ("ap_filter", "ap_filter_same") and op != "AVERAGE_POOL_2D":
                        continue
                    if cid == "pool_stride" and op not in ("MAX_POOL_2D",):
                        continue
                    hit = cid
                    for nm, g in zip(names, m.groups()):
                        v = _lst(g) if nm in SET_CONSTS else int(g)
                        if nm in PER_OP:
                            K[nm][op] = v
                        else:
                            K[nm] = v
                    break
            if hit is None:
                unmodelled.setdefault(op, []).append(text)
            else:
                listed[op].append(hit)
    for name, parts in DERIVED_SETS.items():
        K[name] = sorted({K[p] for p in parts if p in K})
    for p in _DERIVED_PARTS:
        K.pop(p, None)
    return K, listed, unmodelled


def _tla(v):
    if isinstance(v, bool):
        return "TRUE" if v else "FALSE"
    if isinstance(v, int):
        return str(v)
    if isinstance(v, str):
        return '"%s"' % v
    if isinstance(v, (list, tuple, set)):
        return "{" + ", ".join(_tla(x) for x in sorted(v)) + "}"
    raise TypeError(v)


def to_tla_module(K, listed, unmodelled, table):
    """Definitions module SupportedOpsReport (instantiated constants of SupportedOps.tla)."""
    L = ["---------------------- MODULE SupportedOpsReport ----------------------",
         "(* GENERATED at check time from the SUPPORTED_OPS.md the working tree produces",
         "   (harness/supported_report.py).  The copy under /verif/spec is only a snapshot for syntax checks. *)",
         "Covered == " + _tla(COVERED),
         "InTable == " + _tla([op for op in COVERED if op in table]),
         "Unmodelled == " + _tla(sorted(unmodelled))]
    for k in sorted(K):
        v = K[k]
        if isinstance(v, dict):
            dflt = PER_OP_DEFAULTS[k]
            body = ", ".join("%s |-> %s" % (op, _tla(v.get(op, dflt))) for op in COVERED)
            L.append("%s == [%s]" % (k, body))
        else:
            L.append("%s == %s" % (k, _tla(v)))
    L.append("Listed == [" + ", ".join("%s |-> %s" % (op, _tla(listed[op])) for op in COVERED) + "]")
    L.append("=======================================================================")
    return "\n".join(L) + "\n"
