"""Shared plumbing for every check: paths, seeds, verdict/violation reporting,
known findings, evidence files.  Nothing here knows about a particular property."""
import hashlib
import json
import os
import shutil
import sys
import tempfile
import time

VERIF = os.path.dirname(os.path.dirname(os.path.abspath(__file__)))
REPO = os.environ.get("VERIF_REPO", "/repo")
SPEC = os.path.join(VERIF, "spec")
EVIDENCE = os.environ.get("VERIF_EVIDENCE_DIR") or os.path.join(VERIF, "evidence")
REPLAY = os.environ.get("VERIF_REPLAY_DIR") or os.path.join(VERIF, "replay")
KNOWN = os.path.join(VERIF, "known_findings.json")
PY = "/venv/bin/python"
GUARD = "ETHOS_U_VELA_VERIF"


class MachineryError(Exception):
    """The check itself is broken (TLC crashed, harness import failed): exit 2, never a verdict."""


def seed():
    try:
        return int(os.environ.get("VERIF_SEED", "0"))
    except ValueError:
        return 0


def scratch(prefix="vv"):
    """A scratch directory outside /repo and /verif; the caller removes it (see Run.cleanup)."""
    base = os.environ.get("VERIF_TMP", "/var/tmp")
    os.makedirs(base, exist_ok=True)
    return tempfile.mkdtemp(prefix=prefix + "-", dir=base)


def digest(obj):
    return hashlib.sha256(json.dumps(obj, sort_keys=True, default=str).encode()).hexdigest()[:12]


def load_known():
    if not os.path.exists(KNOWN):
        return []
    with open(KNOWN) as f:
        return json.load(f).get("findings", [])


class Run:
    """One execution of one check.  Collects violations, matches them against the
    known-findings file (by the *key* of the failing case), writes the evidence
    file and produces the exit status the interface requires."""

    def __init__(self, pid, tier, level="model_checking"):
        self.pid = pid
        self.tier = tier
        self.level = level
        self.t0 = time.time()
        self.seed = seed()
        self.cov = {"states": 0, "transitions": 0, "traces_validated_against_impl": 0, "samples": [],
                    "evaluations": 0, "distinct_nontrivial": 0, "rule": "", "mc_runs": [], "trace_runs": []}
        self.assumptions = []
        self.violations = []   # (key, description, replay_path)
        self.known_hits = []
        self._tmp = []
        self._nontrivial = set()
        self._known = [k for k in load_known() if k.get("property") == pid and k.get("status") == "open"]

    # ---- scratch management -------------------------------------------------
    def tmpdir(self, prefix=None):
        d = scratch(prefix or self.pid.lower())
        self._tmp.append(d)
        return d

    def cleanup(self):
        for d in self._tmp:
            shutil.rmtree(d, ignore_errors=True)
        self._tmp = []

    # ---- coverage accounting -----------------------------------------------
    def add_mc(self, name, res):
        self.cov["states"] += res.get("distinct", 0)
        self.cov["transitions"] += res.get("generated", 0)
        self.cov["mc_runs"].append({"spec": name, "distinct_states": res.get("distinct", 0),
                                    "states_generated": res.get("generated", 0),
                                    "wall_s": round(res.get("wall", 0), 2),
                                    "actions": res.get("actions", {})})

    def add_trace_run(self, name, res, ntraces):
        self.cov["states"] += res.get("distinct", 0)
        self.cov["transitions"] += res.get("generated", 0)
        self.cov["traces_validated_against_impl"] += ntraces
        self.cov["trace_runs"].append({"spec": name, "traces": ntraces, "distinct_states": res.get("distinct", 0),
                                       "wall_s": round(res.get("wall", 0), 2)})

    def evaluated(self, n=1):
        self.cov["evaluations"] += n

    def nontrivial(self, key):
        self._nontrivial.add(key if isinstance(key, (str, int, tuple)) else digest(key))

    def sample(self, obj, limit=6):
        if len(self.cov["samples"]) < limit:
            self.cov["samples"].append(obj)

    # ---- verdicts --------------------------------------------------------------
    def violation(self, key, what, replay_obj):
        """key: stable identity of the failing case (matched against known findings by prefix/equality)."""
        for k in self._known:
            if _match(k, key):
                if k["id"] not in [h["id"] for h in self.known_hits]:
                    self.known_hits.append(k)
                return
        ks = key if isinstance(key, str) else json.dumps(key, sort_keys=True, default=str)
        self._dups = getattr(self, "_dups", {})
        if ks in self._dups:        # same failing case again: count it, keep the first replay file
            self._dups[ks] += 1
            return
        self._dups[ks] = 1
        os.makedirs(REPLAY, exist_ok=True)
        path = os.path.join(REPLAY, "%s-%s.json" % (self.pid, digest([key, what])))
        with open(path, "w") as f:
            json.dump({"property": self.pid, "key": key, "what": what, "replay": replay_obj}, f, indent=1, default=str)
        self.violations.append((key, what, path))

    def finish(self):
        self.cleanup()
        self.cov["distinct_nontrivial"] = len(self._nontrivial)
        if not self.cov["samples"]:      # a check that forgot to record samples still has to produce readable evidence
            self.cov["samples"] = [{"mc_runs": self.cov["mc_runs"][:2], "trace_runs": self.cov["trace_runs"][:2]}]
        for k in self.known_hits:
            print("KNOWN-FINDING: property=%s %s" % (self.pid, k["what"]))
        for key, what, path in self.violations[:20]:
            print("VIOLATION property=%s replay=%s" % (self.pid, path))
            print("  " + what[:400])
        ev = {"property_id": self.pid, "tier": self.tier, "seed": self.seed, "level": self.level,
              "coverage": self.cov, "assumptions": self.assumptions,
              "wall_s": round(time.time() - self.t0, 2), "violations": len(self.violations)}
        ev["coverage"]["known_findings_hit"] = [k["id"] for k in self.known_hits]
        os.makedirs(EVIDENCE, exist_ok=True)
        tmp = os.path.join(EVIDENCE, ".%s.tmp" % self.pid)
        with open(tmp, "w") as f:
            json.dump(ev, f, indent=1, default=str)
        os.replace(tmp, os.path.join(EVIDENCE, "%s.json" % self.pid))
        print("%s %s: states=%d traces=%d evaluations=%d nontrivial=%d violations=%d known=%d wall=%.1fs" % (
            self.pid, self.tier, self.cov["states"], self.cov["traces_validated_against_impl"],
            self.cov["evaluations"], self.cov["distinct_nontrivial"], len(self.violations),
            len(self.known_hits), time.time() - self.t0))
        return 1 if self.violations else 0


def _match(k, key):
    m = k.get("match")
    if m is None:
        return False
    ks = key if isinstance(key, str) else json.dumps(key, sort_keys=True)
    if isinstance(m, dict):
        if "equals" in m:
            return ks == m["equals"]
        if "prefix" in m:
            return ks.startswith(m["prefix"])
        if "contains_all" in m:
            return all(s in ks for s in m["contains_all"])
        if "regex" in m:          # the whole key has to match
            import re
            return re.fullmatch(m["regex"], ks) is not None
    return ks == m


def repo_tree_hash():
    """Hash of the tracked + modified content of the working tree (cache key)."""
    import subprocess
    h = hashlib.sha256()
    out = subprocess.run(["git", "-C", REPO, "ls-files", "-z"], capture_output=True).stdout
    for p in sorted(out.split(b"\0")):
        if not p:
            continue
        fp = os.path.join(REPO.encode(), p)
        try:
            with open(fp, "rb") as f:
                h.update(p + b"\0" + hashlib.sha256(f.read()).digest())
        except OSError:
            h.update(p + b"\0missing")
    return h.hexdigest()[:16]


def ensure_repo_on_path():
    if REPO not in sys.path:
        sys.path.insert(0, REPO)
