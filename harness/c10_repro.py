"""End-to-end reproductions of the C10 findings against the working tree (real compilations, no TLC):

    cd /verif && /venv/bin/python -m harness.c10_repro

Each network is compiled by vela.main() in a forked interpreter; the extractor looks at the high-level command
stream and at the NpuPadding / tile addresses the real lowering produces.

  F1  SPLIT along H, second half -> CONV 3x3 SAME: the IFM box starts pad_top rows *before* the slice while the pad
      register still says pad_top (window grid shifted by one row).
  F2  SPLIT (H or W) -> stride-2 operator: the split offset is added before the multiplication by the stride
      ((a + off) * s instead of a * s + off): wrong / empty IFM box, compilation dies with an AssertionError.
  F3  PAD(1,1) -> CONV 2x2 stride 3 VALID on a 3x3 input: calc_explicit_padding returns bottom/right pad 0 although
      the last window needs 1 (the hardware would read one row/column beyond the IFM).
  F5  CONV -> 3x3 stride-3 SAME pool/depthwise in a cascade with IFM height = 1 (mod 3): the rolling buffer
      (round_up(producer stripe + consumer stripe input, consumer stripe input) = 6 rows) is overwritten before the
      consumer stripe has read its first row.
  (F4, pad_bottom of the last stripe when explicit padding makes the OFM taller than the IFM, needs a cascade of a
   PAD-fused even kernel; it is reproduced at function level by `./check C10 --replay` of the corresponding file.)
"""
import json

from . import netgen, vela_run


def extractor(nng, arch, res):
    from ethosu.vela.high_level_command_to_npu_op import create_padding
    from ethosu.vela.tensor import TensorSubPurpose
    out = []
    for sg in nng.subgraphs:
        bufs = {}
        for cmd in getattr(sg, "high_level_command_stream", []) or []:
            if not cmd.is_npu_pass_command():
                continue
            op = cmd.ps.primary_op
            k = op.kernel
            rec = {"op": op.name, "type": op.type.name,
                   "ofm_rows": [int(cmd.ofm_box.start_coord[1]), int(cmd.ofm_box.end_coord[1])],
                   "ifm_box": [[int(x) for x in cmd.ifm_box.start_coord], [int(x) for x in cmd.ifm_box.end_coord]],
                   "read_offset": str(op.read_offsets[0]), "kernel": str(k)}
            rows = (rec["ifm_box"][0][1], rec["ifm_box"][1][1])
            if not op.type.is_elementwise_op():
                p = create_padding(cmd, op, None)
                rec["pad_tlbr"] = [int(p.top), int(p.left), int(p.bottom), int(p.right)]
                kd = k.dilation.y * (k.height - 1) + 1
                der = (rec["ofm_rows"][1] - rec["ofm_rows"][0] - 1) * k.stride.y + kd - p.top - p.bottom
                rows = (rows[0], rows[0] + int(der))
            rec["rows_read_by_hw"] = list(rows)
            stale = []
            if cmd.ifm_tensor.sub_purpose == TensorSubPurpose.RollingBufferY:
                h = cmd.ifm_tensor.storage_shape[1]
                b = bufs.setdefault(cmd.ifm_tensor.name, {})
                stale = [(r, b.get(r % h)) for r in range(*rows) if b.get(r % h) != r]
                rec["rolling_buffer_rows"] = int(h)
            if cmd.ofm_tensor.sub_purpose == TensorSubPurpose.RollingBufferY:
                h = cmd.ofm_tensor.storage_shape[1]
                b = bufs.setdefault(cmd.ofm_tensor.name, {})
                for r in range(*rec["ofm_rows"]):
                    b[r % h] = r
            rec["stale_rows(row, row_in_slot)"] = stale
            out.append(rec)
    return out


def jobs():
    js = []
    n = netgen.Net(1)
    x = n.fm("in", [1, 12, 8, 8], is_input=True)
    a, b = n.split(x, 2, axis=1)
    js.append({"id": "F1 split(H) -> conv3x3 SAME", "net": n.desc([n.conv(a, 8, k=3, pad="SAME"), n.conv(b, 8, k=3, pad="SAME")]),
               "opts": {"accel": "ethos-u55-128"}})
    n = netgen.Net(2)
    x = n.fm("in", [1, 8, 12, 8], is_input=True)
    a, b = n.split(x, 2, axis=2)
    js.append({"id": "F2 split(W) -> maxpool2x2 stride 2", "opts": {"accel": "ethos-u55-128"},
               "net": n.desc([n.pool(a, "MAX_POOL_2D", k=2, stride=2, pad="VALID"), n.pool(b, "MAX_POOL_2D", k=2, stride=2, pad="VALID")])})
    n = netgen.Net(4)
    x = n.fm("in", [1, 3, 3, 8], is_input=True)
    p = n.pad(x, [(0, 0), (1, 1), (1, 1), (0, 0)])
    js.append({"id": "F3 pad(1,1) -> conv2x2 stride 3 VALID", "net": n.desc([n.conv(p, 8, k=2, stride=3, pad="VALID")]),
               "opts": {"accel": "ethos-u55-128"}})
    n = netgen.Net(5)
    x = n.fm("in", [1, 10, 64, 32], is_input=True)
    y = n.conv(x, 32, k=3, pad="SAME")
    z = n.pool(y, "MAX_POOL_2D", k=3, stride=3, pad="SAME")
    js.append({"id": "F5 conv -> maxpool3x3 stride 3 SAME, H=10, --optimise Size", "net": n.desc([n.conv(z, 32, k=1, pad="SAME")]),
               "opts": {"accel": "ethos-u55-128", "optimise": "Size"}})
    return js


def main():
    for r in vela_run.compile_many(jobs(), extractor):
        print("=====", r["id"], "rc", r["rc"])
        if r.get("exc"):
            print("   compilation raised:", r["exc"].strip().splitlines()[-1], "<-",
                  [ln.strip() for ln in r["exc"].splitlines() if "File" in ln][-1])
        for e in r.get("extract", []) or []:
            flag = "  <-- STALE" if e["stale_rows(row, row_in_slot)"] else ""
            print("   " + json.dumps(e, default=str) + flag)


if __name__ == "__main__":
    main()
