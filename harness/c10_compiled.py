"""C10, compiled part: stripes of real compilations as events for StripesTrace.tla / CascadeTrace.tla.

For every NPU subgraph of a compiled network the k-th decoded operation of the output file's command stream is paired
with the k-th high-level command observed in the compiling process (harness/logical.py; the pairing is checked word for
word like in C03).  Per stripe:

  positions : OFM start (y, x, c) and IFM start (y, x, c) from the logical command (boxes),
  extents   : OFM height/width/depth registers; the IFM extent the hardware derives from OFM extent, kernel, stride
              and the PAD registers (npuhw.geometry, A-HW4); IFM depth register,
  padding   : the IFM_PAD_TOP/BOTTOM/LEFT/RIGHT registers,
  slots     : for rolling buffers, (BASE0 - tensor address) / STRIDE_Y, HEIGHT0, (BASE2 - tensor address) / STRIDE_Y,

so a wrong pad register, OFM height or tile split is seen even when the high-level command is right.  The operator
geometry (kernel, stride, dilation, upscaling, padding type, original pad-before, split read window, concat write
window) comes from the logical command; the tensor extents are those of the source model's tensors."""
from . import npuhw
from .common import MachineryError

UP = {"NONE": 0, "NEAREST": 1, "TRANSPOSE": 2}
BLOCK_CLS = {"ConvolutionMxN": "conv", "VectorProduct": "fc", "ReduceSum": "rsum", "ConvolutionDepthWise": "dw",
             "Pooling": "avgpool", "ElementWise": "ew1"}


def rolling(f):
    return f is not None and len(f.get("storage_shape", [])) == 4 and f["storage_shape"][1] < f["shape"][1]


def op_geometry(c):
    """Hdr entry of one operator (pass) from its first stripe command."""
    ifm, ofm, k = c["ifm"], c["ofm"], c["kernel"]
    cls = BLOCK_CLS.get(c["block_type"])
    chk = cls is not None and ifm is not None and ofm is not None
    if not chk:
        return None
    up = UP.get(c["upscale"], 0)
    if cls == "conv" and up == 2:
        cls = "tconv"
    if cls == "avgpool" and c["op"] == "MaxPool":
        cls = "maxpool"
    ifm2 = c.get("ifm2")
    if cls == "ew1" and ifm2 is not None:
        cls = "ew2"
    ros, rss = c.get("read_offsets") or [None, None], c.get("read_shapes") or [None, None]
    ro4, rs4 = ros[0], rss[0]
    pt = c.get("pad_type") or "VALID"
    if c.get("tile_padding") or pt == "TILE":
        chk = False           # half-pixel resize reads through edge-replicating tiles
        pt = "VALID"
    if pt not in ("SAME", "VALID", "EXPLICIT"):
        chk, pt = False, "VALID"
    if c.get("orig") == "Transpose" or (c.get("stride_mult") or [1, 1, 1]) != [1, 1, 1]:
        return None           # OFM written through permuted / multiplied strides: boxes are not in tensor coordinates
    if cls in ("ew1", "ew2"):
        pt = "VALID"
        if cls == "ew2" and (ros[0] is not None or ros[1] is not None):
            chk = False       # which operand a read offset belongs to after operand swapping is not recorded
    ishape = list(ifm["shape"])
    if cls == "ew2" and ifm2 is not None:
        ishape = [max(a, b) for a, b in zip(ishape, ifm2["shape"])]     # the shapes may be listed in pre-swap order
    oshape = list(ofm["shape"])
    wo4 = c.get("write_offset") or [0, 0, 0, 0]
    ws4 = c.get("write_shape") or oshape
    pa = c.get("pad_attr") or [0, 0, 0, 0]
    nokernel = cls in ("ew1", "ew2", "fc", "rsum")

    def axis(i, kk, dd, ss, ep):
        ro = ro4[i] if ro4 is not None else 0
        rl = (rs4[i] if rs4 is not None else ishape[i] - ro) if ro4 is not None else ishape[i]
        if rl < 0:            # SLICE with size -1 ("up to the end of the dimension"): the window is [ro, I)
            rl = ishape[i] - ro
        return {"I": ishape[i], "ro": ro, "rl": rl, "wo": wo4[i], "O": ws4[i], "OT": oshape[i],
                "k": 1 if nokernel else kk, "d": 1 if nokernel else dd, "s": 1 if nokernel else ss, "ep": [0, 0] if nokernel else ep}
    return {"cls": cls, "sp": ro4 is not None, "up": up, "pt": pt, "chk": chk, "full": not rolling(ofm), "i2": [],
            "h": 0, "hin": 0, "buf": 0, "store": ifm["storage_shape"][1] if rolling(ifm) else 0,
            "ax": {"H": axis(1, k["h"], k["dy"], k["sy"], [pa[0], pa[2]]),
                   "W": axis(2, k["w"], k["dx"], k["sx"], [pa[1], pa[3]]),
                   "C": axis(3, 1, 1, 1, [0, 0])}}


def tiles(regs, pfx, addr):
    sy = regs["NPU_SET_%s_STRIDE_Y" % pfx]
    if not sy:
        return []
    return [(regs["NPU_SET_%s_BASE0" % pfx] - addr) // sy, regs["NPU_SET_%s_HEIGHT0_M1" % pfx] + 1,
            (regs["NPU_SET_%s_BASE2" % pfx] - addr) // sy]


def stream_events(tid, ops, lg):
    """-> (StripesTrace events of the stream, list of CascadeTrace event lists (one per chain of rolling buffers), stats)"""
    cmds = lg["cmds"]
    if len(ops) != len(cmds):
        raise MachineryError("pairing: %d operations in the stream, %d high-level commands" % (len(ops), len(cmds)))
    hdr = {"t": tid, "e": "Hdr", "n": 0, "model": False, "ops": []}
    index = {}            # pass identity -> operator index, or None when the operator is outside the scope
    svs = []
    stats = {"stripes": 0, "skipped_ops": 0, "unchecked_ops": 0, "rolling_reads": 0}
    for q, (o, c) in enumerate(zip(ops, cmds)):
        if (o["kind"] == "dma") != (c["type"] == "dma"):
            raise MachineryError("pairing: operation %d is %s but the command is %s" % (q, o["kind"], c["type"]))
        if c["type"] != "stripe":
            continue
        key = c.get("pid", c["name"])     # pass identity (pass names repeat: the copies a SPLIT is lowered to share one name)
        if key not in index:
            geo = op_geometry(c)
            if geo is None:
                index[key] = None
                stats["skipped_ops"] += 1
            else:
                index[key] = len(hdr["ops"])
                geo["name"], geo["optype"] = c["name"], c["op"]
                hdr["ops"].append(geo)
                stats["unchecked_ops"] += 0 if geo["chk"] else 1
        i = index[key]
        if i is None:
            continue
        geo = hdr["ops"][i]
        regs = o["regs"]
        g = npuhw.geometry(o["kind"], regs)
        ifm, ofm = c["ifm"], c["ofm"]
        a, cs = ofm["start"], ifm["start"]
        ev = {"t": tid, "e": "S", "q": q, "op": i, "first": bool(c["first_h"]), "last": bool(c["last_h"]),
              "H": [a[1], a[1] + g["oh"], cs[1], cs[1] + g["ih"], g["pt"], g["pb"]],
              "W": [a[2], a[2] + g["ow"], cs[2], cs[2] + g["iw"], g["pl"], g["pr"]],
              "C": [a[3], a[3] + g["od"], cs[3], cs[3] + g["id"], 0, 0],
              "b2": [], "rd": [], "wr": []}
        geo["h"] = max(geo["h"], g["oh"])
        if geo["cls"] == "ew2" and c.get("ifm2") is not None and geo["chk"]:
            d2 = npuhw.ifm2_dims(regs, g)
            if d2 is not None:
                s2 = c["ifm2"]["start"]
                ev["b2"] = [[s2[1], s2[1] + d2[0]], [s2[2], s2[2] + d2[1]], [s2[3], s2[3] + d2[2]]]
                if not geo["i2"]:
                    # broadcast as the hardware is told (IFM2_BROADCAST); otherwise at least the written extent
                    geo["i2"] = [1 if (d2[j] == 1 and geo["ax"]["HWC"[j]]["O"] > 1) else max(geo["ax"]["HWC"[j]]["O"], c["ifm2"]["shape"][j + 1])
                                 for j in range(3)]
        if rolling(ifm):
            ev["rd"] = tiles(regs, "IFM", ifm["addr"])
            stats["rolling_reads"] += 1
        if rolling(ofm):
            ev["wr"] = tiles(regs, "OFM", ofm["addr"])
        ev["_isid"], ev["_osid"] = ifm["sid"], ofm["sid"]
        svs.append(ev)
        stats["stripes"] += 1
    hdr["n"] = len(hdr["ops"])
    # ew2 operators whose second operand never produced a box (scalar) need no i2; an ew2 with b2 == [] is checked on IFM only
    # ---- chains of rolling buffers -> CascadeTrace
    prod = {}             # sid of a rolling OFM -> operator index
    cons = {}             # operator index -> producer operator index
    for ev in svs:
        if ev["wr"]:
            prod[ev["_osid"]] = ev["op"]
    for ev in svs:
        if ev["rd"] and ev["_isid"] in prod and prod[ev["_isid"]] != ev["op"]:
            cons[ev["op"]] = prod[ev["_isid"]]
    chains = []
    heads = sorted(set(cons.values()) - set(cons.keys()))
    nxt = {p: c_ for c_, p in cons.items()}
    for h in heads:
        ch = [h]
        while ch[-1] in nxt:
            ch.append(nxt[ch[-1]])
        if all(hdr["ops"][i]["chk"] for i in ch):
            chains.append(ch)
    cascades = []
    for ci, ch in enumerate(chains):
        pos = {i: j for j, i in enumerate(ch)}
        evs = [ev for ev in svs if ev["op"] in pos]
        pts = set()
        for ev in evs:
            pts.update(ev["C"][:4])
        for i in ch:
            x = hdr["ops"][i]["ax"]["C"]
            pts.update((0, x["I"], x["wo"], x["wo"] + x["O"]))
        cell = {v: n for n, v in enumerate(sorted(pts))}
        ctid = tid * 100 + ci
        ops_h = []
        for i in ch:
            o = dict(hdr["ops"][i])
            x = o["ax"]["C"]
            o["ax"] = dict(o["ax"], C=dict(x, I=cell[x["I"]], wo=cell[x["wo"]], O=cell[x["wo"] + x["O"]] - cell[x["wo"]]))
            o["hin"] = 0
            ops_h.append({k: v for k, v in o.items() if k not in ("name", "optype")})
        out = [{"t": ctid, "e": "Hdr", "n": len(ch), "model": False, "ops": ops_h}]
        for ev in evs:
            e2 = {k: v for k, v in ev.items() if not k.startswith("_")}
            j = pos[ev["op"]]
            e2.update(t=ctid, op=j, C=[cell[v] for v in ev["C"][:4]] + [0, 0],
                      rd=ev["rd"] if j > 0 else [], wr=ev["wr"] if j < len(ch) - 1 else [])
            out.append(e2)
        out.append({"t": ctid, "e": "End"})
        cascades.append((ctid, ch, out))
    events = [dict(hdr, ops=[{k: v for k, v in o.items() if k not in ("name", "optype")} for o in hdr["ops"]])]
    events += [{k: v for k, v in ev.items() if not k.startswith("_")} for ev in svs]
    events.append({"t": tid, "e": "End"})
    stats["cascades"] = len(cascades)
    stats["ops"] = hdr["n"]
    return events, cascades, hdr, stats
