"""Replay worker for C07: runs encode requests against the C codec built from the working tree.

    python -m harness.c07_worker <so path> <jobs.json> <out.ndjson>

Every job is announced with a {"start": id} line before the C code is entered and answered with a result line, so
that the parent can attribute a process death (signal, assert abort, sanitizer report) to the request that caused
it.  The parent starts this module with LD_PRELOAD=libclang_rt.asan when <so path> is the sanitizer build."""
import ctypes
import itertools
import json
import os
import re
import sys
import tempfile

import numpy as np

from . import codec, weight_order
from .common import ensure_repo_on_path

ACC_ENUM = {"U55_32": "Ethos_U55_32", "U55_64": "Ethos_U55_64", "U55_128": "Ethos_U55_128",
            "U55_256": "Ethos_U55_256", "U65_256": "Ethos_U65_256", "U65_512": "Ethos_U65_512"}

_SLICE = re.compile(r"slice: bitoffset\s*(\d+) slicelen\s*(\d+) zdiv (\d+) wdiv (\d+) wtrunc (\d+) newpal (\d+) "
                    r"palbits (\d+) palsize\s*(\d+)")


# ------------------------------------------------------------------ weight generators (shared with replay)
def gen_weights(gen, n):
    """n weights (numpy int16) of distribution gen = {"dist": name, "seed": s, ...}; deterministic."""
    dist = gen["dist"]
    rs = np.random.RandomState(gen.get("seed", 0) % (2 ** 32))
    pos = np.arange(n, dtype=np.int64)
    if dist == "index":
        w = 1 + pos % 250
    elif dist == "sindex":
        w = (pos * 7 + gen.get("seed", 0)) % 511 - 255
    elif dist in ("pal2", "pal4", "pal16", "pal32", "pal33"):
        k = int(dist[3:])
        vals = rs.choice(np.arange(-255, 256), size=k, replace=False)
        p = rs.dirichlet(np.ones(k) * 0.7)
        w = rs.choice(vals, size=n, p=p)
    elif dist == "pal40":     # most weights inside a 32-entry palette, the rest coded directly
        vals = rs.choice(np.arange(-255, 256), size=40, replace=False)
        p = np.concatenate([np.full(30, 0.9 / 30), np.full(10, 0.1 / 10)])
        w = rs.choice(vals, size=n, p=p)
    elif dist in ("paltail", "paltail60", "paltail52"):
        # worst case for the size of the coded stream: just over half of the weights come from <= 32 small values (so a palette
        # is chosen and uncompressed mode is off), the rest are rare large magnitudes that fall outside the palette and are
        # coded directly with long GRC codes (well over 9 bits each)
        frac = {"paltail": 0.55, "paltail60": 0.60, "paltail52": 0.52}[dist]
        small = rs.choice(np.arange(-16, 17), size=30, replace=False)
        big = np.concatenate([np.arange(150, 240), -np.arange(150, 240)])
        w = np.where(rs.random_sample(n) < frac, rs.choice(small, size=n), rs.choice(big, size=n))
    elif dist == "uniform9":
        w = rs.randint(-255, 256, size=n)
    elif dist == "uniform8":
        w = rs.randint(-128, 128, size=n)
    elif dist in ("sparse", "verysparse"):
        pz = 0.9 if dist == "sparse" else 0.995
        w = np.rint(rs.laplace(0, 6, size=n)).clip(-255, 255)
        w[rs.random_sample(n) < pz] = 0
    elif dist == "laplace":
        w = np.rint(rs.laplace(0, gen.get("scale", 4), size=n)).clip(-255, 255)
    elif dist == "switch":    # alternating segments of very different magnitude: GRC parameter switches
        seg = gen.get("seg", 700)
        scale = np.where((pos // seg) % 2 == 0, 1.0, 60.0)
        w = np.rint(rs.laplace(0, 1, size=n) * scale).clip(-255, 255)
    elif dist == "restart":   # every segment has its own small palette: palette restarts
        seg = gen.get("seg", 2500)
        nseg = n // seg + 1
        pals = np.stack([rs.choice(np.arange(-255, 256), size=8, replace=False) for _ in range(nseg)])
        w = pals[pos // seg, rs.randint(0, 8, size=n)]
    elif dist == "allzero":
        w = np.zeros(n)
    elif dist == "const":
        w = np.full(n, rs.choice([-255, -1, 1, 7, 255]))
    elif dist == "extremes":
        w = rs.choice([-255, 255, -254, 254], size=n)
    elif dist == "zeroone":
        w = (rs.random_sample(n) < 0.5) * 1
    elif dist == "sparse_big":  # zero runs plus values that need direct coding
        w = rs.randint(-255, 256, size=n)
        w[rs.random_sample(n) < 0.85] = 0
    elif dist.startswith("hole"):
        # two lobes with a hole around zero: every non-zero weight has |w| >= width (pruned layers whose surviving
        # weights are all large).  hole<W>[p][z]: p = 24 frequent values carry 80% of the mass (palette plus directly
        # coded tail), z = zeros dominate (zero runs); always more than 32 distinct values when n allows
        m = re.match(r"hole(\d+)(p?)(z?)$", dist)
        width, skew, zeros = int(m.group(1)), bool(m.group(2)), bool(m.group(3))
        mags = np.arange(width, 256)
        vals = np.concatenate([mags, -mags])
        if skew:
            fav = rs.choice(vals, size=24, replace=False)
            w = np.where(rs.random_sample(n) < 0.8, rs.choice(fav, size=n), rs.choice(vals, size=n))
        else:
            w = rs.choice(vals, size=n)
        if zeros:
            w = np.where(rs.random_sample(n) < 0.87, 0, w)
    else:
        raise ValueError("unknown distribution %r" % dist)
    return np.asarray(w).astype(np.int16)


def request_weights(job):
    """The numerical weights of a request (int64): literal or generated, made non-negative for unsigned element
    types, with the poked (out-of-range) values put in."""
    cfg = job.get("cfg")
    if "w" in job:
        w = np.asarray(job["w"], dtype=np.int64)
    else:
        n = cfg["od"] * cfg["kh"] * cfg["kw"] * cfg["id"] if cfg else job["n"]
        w = gen_weights(job["gen"], n).astype(np.int64)
    if np.dtype(job.get("dtype", "int16")).kind == "u":
        w = np.abs(w)
    for pos, val in job.get("poke", ()):
        w[pos % w.size] = val
    return w


class Verbose:
    """Captures the encoder's `verbose=1` slice log (C stdout) to classify the coding modes a request exercised."""

    def __init__(self):
        self.libc = ctypes.CDLL(None)
        self.tmp = tempfile.TemporaryFile(mode="w+b")
        self.saved = os.dup(1)
        os.dup2(self.tmp.fileno(), 1)
        self.off = 0

    def take(self):
        self.libc.fflush(None)
        self.tmp.seek(self.off)
        data = self.tmp.read().decode(errors="replace")
        self.off += len(data.encode(errors="replace"))
        if self.off > (64 << 20):
            self.tmp.seek(0)
            self.tmp.truncate()
            self.off = 0
        return data

    def close(self):
        self.libc.fflush(None)
        os.dup2(self.saved, 1)


def modes_of(log):
    m = set()
    prev = None
    npal = 0
    for s in _SLICE.finditer(log):
        _, slen, zdiv, wdiv, wtrunc, newpal, palbits, palsize = (int(x) for x in s.groups())
        m.add("palette" if palsize > 0 else "direct")
        if zdiv != 6:
            m.add("zero_runs")
        if wdiv == 7:
            m.add("uncompressed")
        if wtrunc:
            m.add("wtrunc")
        if newpal:
            npal += 1
        elif prev is not None and prev != (zdiv, wdiv, wtrunc):
            m.add("grc_switch")
        if slen == 32767:
            m.add("slice_32767")
        prev = (zdiv, wdiv, wtrunc)
    if npal >= 2:
        m.add("palette_restart")
    return sorted(m)


def main(so, jobs_path, out_path):
    ensure_repo_on_path()
    mlw = codec.inject(so)
    from ethosu.vela import api
    jobs = json.load(open(jobs_path))
    out = open(out_path, "a")
    vb = Verbose()

    def emit(o):
        out.write(json.dumps(o, separators=(",", ":")) + "\n")
        out.flush()

    def enc_raw(w, verbose=0):
        try:
            return "stream", mlw.encode(w, verbose)
        except Exception:
            return "rejected", None

    def enc_vol(cfg, vol, verbose=0):
        trav = api.NpuBlockTraversal.PART_KERNEL_FIRST if cfg["trav"] == "part" else api.NpuBlockTraversal.DEPTH_FIRST
        if verbose:
            # same entry point as weight_compressor.encode_weights (api.npu_encode_weights has no verbose argument)
            iub, oub = weight_order.UBLOCKS[cfg["acc"]]
            try:
                e, _ = mlw.reorder_encode(iub, oub, vol, cfg["oblk"], cfg["trav"] == "dw", cfg["trav"] == "part",
                                          cfg["bits"], 8 // cfg["dily"], 8 // cfg["dilx"], 1)
                return "stream", e
            except Exception:
                return "rejected", None
        try:
            e = api.npu_encode_weights(getattr(api.NpuAccelerator, ACC_ENUM[cfg["acc"]]), vol,
                                       (cfg["dilx"], cfg["dily"]), cfg["bits"], cfg["oblk"], cfg["trav"] == "dw", trav)
            return "stream", e
        except Exception:
            return "rejected", None

    for job in jobs:
        emit({"start": job["id"]})
        kind = job["kind"]
        if kind == "rawgroup":
            cases = []
            for m in range(job["maxsuf"] + 1):
                for s in itertools.product(job["alpha"], repeat=m):
                    w = list(job["prefix"]) + list(s)
                    if not w and job.get("skip_empty"):
                        continue
                    oc, e = enc_raw(w)
                    if e is not None and job.get("announce_decode"):
                        emit({"decoding": job["id"]})
                    cases.append([w, oc, mlw.decode(e) if e is not None else [], len(e) if e is not None else 0])
            emit({"id": job["id"], "cases": cases})
            continue
        # single request: literal or generated weights
        cfg = job.get("cfg")
        w = request_weights(job)
        verbose = 1 if job.get("modes") else 0
        if cfg:
            # element type of the array handed to the API: int16 unless the request says otherwise; values are never
            # narrowed here (an out-of-range request must reach the API as it is)
            dt = np.dtype(job.get("dtype", "int16"))
            info = np.iinfo(dt)
            if w.min() < info.min or w.max() > info.max:
                raise ValueError("request %s: value not representable in %s" % (job["id"], dt))
            vol = w.astype(dt).reshape(cfg["od"], cfg["kh"], cfg["kw"], cfg["id"])
            oc, e = enc_vol(cfg, vol, verbose)
        else:
            oc, e = enc_raw(w.tolist(), verbose)
        res = {"id": job["id"], "outcome": oc, "len": len(e) if e is not None else 0, "n": int(w.size)}
        if verbose:
            res["modes"] = modes_of(vb.take())
        if e is not None:
            emit({"decoding": job["id"]})       # a death from here on is the reference decoder's, not the encoder's
        dec = mlw.decode(e) if e is not None else []
        if job.get("mode") == "py":
            # large request: compared here against the Python rendering of WeightOrder!Order
            inr = bool(((w >= -255) & (w <= 255)).all())
            res["in_range"] = inr
            if oc == "stream" and inr:
                exp = weight_order.reordered(cfg, w) if cfg else w
                d = np.asarray(dec, dtype=np.int64)
                ok = d.size >= exp.size and bool((d[:exp.size] == exp).all()) and not d[exp.size:].any()
                res["lossless"] = ok
                if not ok:
                    k = min(d.size, exp.size)
                    bad = np.nonzero(d[:k] != exp[:k])[0]
                    res["first_mismatch"] = int(bad[0]) if bad.size else int(k)
                res["padded"] = int(exp.size)
                res["decoded"] = int(d.size)
        else:
            res["w"] = w.tolist()
            res["dec"] = dec
        emit(res)
    vb.close()
    out.close()


if __name__ == "__main__":
    main(*sys.argv[1:4])
