"""Plain-flatbuffer reader of .tflite files -> JSON-able abstract graph.

Uses only the flatbuffers runtime and the generated accessor classes under ethosu/vela/tflite
(pure data accessors); it does not touch tflite_reader.py / tflite_mapping.py.  Everything that is
compared between a source and an output model is keyed by *names*, never by tensor / buffer indices
(the writer is free to reorder tensors and buffers).

abstract(bytes) ->
  {"version", "description", "n_subgraphs",
   "subgraphs": [ {"name", "inputs": [tensor idx], "outputs": [tensor idx],
                   "tensors": [ {"name","shape","type","buffer","const","data","nbytes","quant","variable"} ],
                   "ops": [ {"code","builtin","custom_code","version","opts_type","opts","opts_digest",
                             "custom_opts","inputs":[names | ""],"outputs":[names],"in_idx","out_idx",
                             "n_intermediates"} ]} ],
   "metadata": [ {"name","nbytes","digest"} ]}
"quant" is a digest string of (scale, zero point, quantised dimension) or "" when there is none;
"data" is a digest of the constant bytes or "" for non-constant tensors.
"""
import hashlib
import importlib
import inspect

import numpy as np

from .common import ensure_repo_on_path

ensure_repo_on_path()
from ethosu.vela.tflite import Model, BuiltinOperator, BuiltinOptions, TensorType  # noqa: E402

_BO_NAME = {v: k for k, v in vars(BuiltinOperator.BuiltinOperator).items() if not k.startswith("_")}
_BOPT_NAME = {v: k for k, v in vars(BuiltinOptions.BuiltinOptions).items() if not k.startswith("_")}
_TT_NAME = {v: k for k, v in vars(TensorType.TensorType).items() if not k.startswith("_")}


class ParseError(Exception):
    pass


def _h(b):
    return hashlib.sha256(bytes(b)).hexdigest()[:16]


def _s(x):
    if x is None:
        return ""
    return x.decode("utf-8", errors="replace") if isinstance(x, (bytes, bytearray)) else str(x)


def _np_list(a):
    if isinstance(a, int) or a is None:       # flatbuffers returns 0 for an absent vector
        return []
    return [x.item() if hasattr(x, "item") else x for x in a]


_SKIP = ("Init", "GetRootAs")


def table_fields(tab_obj):
    """Field-by-field decoding of a generated table accessor: {FieldName: value}.
    Scalars -> python scalars, vectors -> lists, strings -> str, nested tables -> dict (one level)."""
    out = {}
    cls = type(tab_obj)
    names = [n for n, _ in inspect.getmembers(cls, predicate=inspect.isfunction)]
    nameset = set(names)
    for n in names:
        if n.startswith("_") or n.startswith(_SKIP) or n.endswith(("Length", "IsNone", "AsNumpy")):
            continue
        if n.endswith("BufferHasIdentifier"):
            continue
        f = getattr(tab_obj, n)
        nparams = len(inspect.signature(f).parameters)
        if nparams == 0:
            v = f()
        elif nparams == 1 and (n + "Length") in nameset:
            ln = getattr(tab_obj, n + "Length")()
            v = [f(j) for j in range(ln)]
        else:
            continue
        out[n] = _norm(v)
    return out


def _norm(v):
    if isinstance(v, (bytes, bytearray)):
        return _s(v)
    if isinstance(v, (bool, int, str)) or v is None:
        return v
    if isinstance(v, float):
        return float(np.float32(v)).hex()
    if isinstance(v, (np.integer,)):
        return int(v)
    if isinstance(v, (np.floating,)):
        return float(np.float32(v)).hex()
    if isinstance(v, np.bool_):
        return bool(v)
    if isinstance(v, (list, tuple)):
        return [_norm(x) for x in v]
    if hasattr(v, "_tab"):          # nested table
        return table_fields(v)
    if hasattr(v, "Bytes") and hasattr(v, "Pos"):     # raw flatbuffers Table (union): not decodable here
        return "<table>"
    return str(v)


_DEFAULTS = {}


def option_defaults(name):
    """Field values a reader sees for an *empty* options table of this type (the schema defaults)."""
    if name not in _DEFAULTS:
        import flatbuffers
        b = flatbuffers.Builder(16)
        b.StartObject(0)
        off = b.EndObject()
        b.Finish(off)
        buf = b.Output()
        mod = importlib.import_module("ethosu.vela.tflite." + name)
        obj = getattr(mod, name)()
        obj.Init(buf, flatbuffers.encode.Get(flatbuffers.packer.uoffset, buf, 0))
        _DEFAULTS[name] = table_fields(obj)
    return _DEFAULTS[name]


def _options(op):
    """(options type name, all fields, fields that differ from the schema default)."""
    ot = op.BuiltinOptionsType()
    name = _BOPT_NAME.get(ot, "UNKNOWN_%d" % ot)
    tab = op.BuiltinOptions()
    if tab is None or ot == 0:
        return (name if ot else "NONE"), {}, {}
    try:
        mod = importlib.import_module("ethosu.vela.tflite." + name)
        cls = getattr(mod, name)
    except Exception:
        return name, {"<undecodable>": True}, {"<undecodable>": True}
    obj = cls()
    obj.Init(tab.Bytes, tab.Pos)
    fields = table_fields(obj)
    dflt = option_defaults(name)
    return name, fields, {k: v for k, v in fields.items() if dflt.get(k) != v}


def options_digest(name, nondefault):
    """Semantic identity of the builtin options: an absent table, an empty table and a table that spells out
    the schema defaults all read the same, so only the fields that differ from the defaults count."""
    if not nondefault:
        return "default"
    return name + ":" + hashlib.sha256(repr(sorted(nondefault.items())).encode()).hexdigest()[:12]


def quant_digest(q):
    """'' when the tensor carries no scale and no zero point; otherwise 's:<scales>|z:<zps>|d:<dim>'
    (scales as float32 hex so the comparison is exact)."""
    if q is None:
        return "", None
    sc = _np_list(q.ScaleAsNumpy())
    zp = _np_list(q.ZeroPointAsNumpy())
    if not sc and not zp:
        return "", None
    qd = q.QuantizedDimension()
    desc = {"scale": [float(np.float32(x)) for x in sc], "zp": [int(z) for z in zp], "qdim": int(qd)}
    s = "s:%s|z:%s|d:%d" % (",".join(float(np.float32(x)).hex() for x in sc), ",".join(str(int(z)) for z in zp), qd)
    if len(s) > 80:
        s = "q#" + _h(s.encode())
    return s, desc


TENSOR_FIELDS = ("shape", "type", "scale", "zp", "qdim", "min", "max", "qdetails", "variable", "shape_signature",
                 "has_rank", "sparsity")


def _short(s):
    return s if len(s) <= 60 else "#" + _h(s.encode())


def tensor_fields(t):
    """Every field of a Tensor table that describes the tensor itself (not its buffer / name), as short strings
    keyed by TENSOR_FIELDS: an absent table / vector reads like an empty one, floats are float32 hex (exact)."""
    q = t.Quantization()
    f = {"shape": ",".join(str(int(x)) for x in _np_list(t.ShapeAsNumpy())),
         "type": _TT_NAME.get(t.Type(), "T%d" % t.Type()),
         "scale": "", "zp": "", "qdim": "0", "min": "", "max": "", "qdetails": "0",
         "variable": "1" if t.IsVariable() else "0",
         "shape_signature": ",".join(str(int(x)) for x in _np_list(t.ShapeSignatureAsNumpy())),
         "has_rank": "1" if t.HasRank() else "0",
         "sparsity": "1" if t.Sparsity() is not None else "0"}
    if q is not None:
        f["scale"] = ",".join(float(np.float32(x)).hex() for x in _np_list(q.ScaleAsNumpy()))
        f["zp"] = ",".join(str(int(z)) for z in _np_list(q.ZeroPointAsNumpy()))
        f["qdim"] = str(int(q.QuantizedDimension()))
        f["min"] = ",".join(float(np.float32(x)).hex() for x in _np_list(q.MinAsNumpy()))
        f["max"] = ",".join(float(np.float32(x)).hex() for x in _np_list(q.MaxAsNumpy()))
        f["qdetails"] = str(int(q.DetailsType()))
    return {k: _short(v) for k, v in f.items()}


def abstract(data, with_values=False):
    """Parse bytes -> abstract graph.  Raises ParseError when the plain parser cannot read the file."""
    try:
        return _abstract(data, with_values)
    except ParseError:
        raise
    except Exception as e:         # struct.error, IndexError, TypeError ... : the file is not a readable model
        raise ParseError("%s: %s" % (type(e).__name__, e))


def _abstract(data, with_values):
    buf = bytearray(data)
    if len(buf) < 8 or bytes(buf[4:8]) != b"TFL3":
        raise ParseError("missing TFL3 file identifier")
    m = Model.Model.GetRootAsModel(buf, 0)
    nbuf = m.BuffersLength()
    bufs = []
    for i in range(nbuf):
        b = m.Buffers(i)
        n = b.DataLength()
        bufs.append(bytes(b.DataAsNumpy()) if n else b"")
    codes = []
    for i in range(m.OperatorCodesLength()):
        c = m.OperatorCodes(i)
        bc = c.BuiltinCode()
        if bc == 0:
            bc = c.DeprecatedBuiltinCode()
        codes.append({"builtin": int(bc), "name": _BO_NAME.get(bc, "OP_%d" % bc), "custom_code": _s(c.CustomCode()),
                      "version": int(c.Version())})
    out = {"version": int(m.Version()), "description": _s(m.Description()), "n_subgraphs": m.SubgraphsLength(),
           "n_buffers": nbuf, "opcodes": codes, "subgraphs": [], "metadata": []}
    for si in range(m.SubgraphsLength()):
        sg = m.Subgraphs(si)
        tensors = []
        for ti in range(sg.TensorsLength()):
            t = sg.Tensors(ti)
            bi = t.Buffer()
            if bi < 0 or bi >= nbuf:
                raise ParseError("tensor %d refers to buffer %d of %d" % (ti, bi, nbuf))
            raw = bufs[bi]
            qs, qd = quant_digest(t.Quantization())
            ent = {"name": _s(t.Name()), "shape": [int(x) for x in _np_list(t.ShapeAsNumpy())],
                   "type": _TT_NAME.get(t.Type(), "T%d" % t.Type()), "buffer": int(bi), "const": len(raw) > 0,
                   "data": _h(raw) if raw else "", "nbytes": len(raw), "quant": qs, "variable": bool(t.IsVariable())}
            ent["fields"] = tensor_fields(t)
            if qd is not None:
                ent["quant_desc"] = qd if len(qd["scale"]) <= 4 else {"n": len(qd["scale"]), "qdim": qd["qdim"]}
            if with_values and raw:
                ent["raw"] = raw
            tensors.append(ent)
        nt = len(tensors)

        def tname(i):
            if i == -1:
                return ""
            if i < 0 or i >= nt:
                raise ParseError("tensor index %d out of range" % i)
            return tensors[i]["name"]

        ops = []
        for oi in range(sg.OperatorsLength()):
            op = sg.Operators(oi)
            ci = op.OpcodeIndex()
            if ci < 0 or ci >= len(codes):
                raise ParseError("operator %d refers to opcode %d" % (oi, ci))
            c = codes[ci]
            oname, ofields, ononde = _options(op)
            cust = bytes(op.CustomOptionsAsNumpy()) if op.CustomOptionsLength() else b""
            ins = [int(x) for x in _np_list(op.InputsAsNumpy())]
            outs = [int(x) for x in _np_list(op.OutputsAsNumpy())]
            inter = [int(x) for x in _np_list(op.IntermediatesAsNumpy())] if op.IntermediatesLength() else []
            ops.append({"code": c["name"], "builtin": c["builtin"], "custom_code": c["custom_code"],
                        "version": c["version"], "opts_type": oname, "opts": ofields,
                        "opts_nondefault": ononde, "opts_digest": options_digest(oname, ononde),
                        "custom_opts": _h(cust) if cust else "", "custom_opts_len": len(cust),
                        "inputs": [tname(i) for i in ins], "outputs": [tname(i) for i in outs],
                        "in_idx": ins, "out_idx": outs, "n_intermediates": int(op.IntermediatesLength()),
                        "intermediates": [tname(i) for i in inter], "inter_idx": inter,
                        "mutating_variable_inputs": [bool(x) for x in _np_list(op.MutatingVariableInputsAsNumpy())]
                        if op.MutatingVariableInputsLength() else [],
                        "custom_opts_format": int(op.CustomOptionsFormat())})
            if with_values and cust:
                ops[-1]["custom_raw"] = cust
        sgi = [int(x) for x in _np_list(sg.InputsAsNumpy())]
        sgo = [int(x) for x in _np_list(sg.OutputsAsNumpy())]
        for i in sgi + sgo:
            if i < 0 or i >= nt:
                raise ParseError("subgraph interface index %d out of range" % i)
        out["subgraphs"].append({"name": _s(sg.Name()), "inputs": sgi, "outputs": sgo, "tensors": tensors, "ops": ops})
    for i in range(m.MetadataLength()):
        md = m.Metadata(i)
        bi = md.Buffer()
        raw = bufs[bi] if 0 <= bi < nbuf else b""
        out["metadata"].append({"name": _s(md.Name()), "nbytes": len(raw), "digest": _h(raw) if raw else ""})
    return out


def interface(g, sgi=0):
    """[(role, position, name, shape, type, quant)] of a subgraph, in file order."""
    sg = g["subgraphs"][sgi]
    res = []
    for role, idxs in (("in", sg["inputs"]), ("out", sg["outputs"])):
        for k, i in enumerate(idxs):
            t = sg["tensors"][i]
            res.append({"role": role, "pos": k, "name": t["name"], "shape": t["shape"], "type": t["type"],
                        "quant": t["quant"]})
    return res


def is_npu_op(op):
    return op["code"] == "CUSTOM" and op["custom_code"] == "ethos-u"


def strip(g):
    """Drop bulky / raw entries so the graph can be stored in evidence or replay files."""
    import copy
    g = copy.deepcopy(g)
    for sg in g["subgraphs"]:
        for t in sg["tensors"]:
            t.pop("raw", None)
        for o in sg["ops"]:
            o.pop("custom_raw", None)
    return g
