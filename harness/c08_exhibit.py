"""Reproduction of the C08 cache findings through the public entry point vela.main (no direct calls of the weight
compressor): a cache hit whose reused bytes differ from a fresh encoding of the same request.

    cd /verif && PYTHONHASHSEED=0 /venv/bin/python -m harness.c08_exhibit bits
    ... flip | mean2 | mean1 ethos-u55-128,ethos-u65-512

  bits   one model, two CONV_2D sharing a weight tensor, IFM int8 and int16           (key omits the IFM bit depth)
  flip   one model, CONV_2D and TRANSPOSE_CONV sharing a weight tensor                (key omits the kernel flip)
  mean2  one model, two MEAN operators with windows 3x3 and 9x1 over 16 channels      (value id from flattened ones)
  mean1  one model with MEAN compiled twice in one process for two accelerators       (cache never cleared, memoised id)
encode_weight_and_scale_tensor is wrapped at run time only to *observe* hits and to compute the fresh encoding (with the
cache emptied and restored); lines marked STALE HIT are the violations."""
import sys, os, json, hashlib, tempfile, shutil
sys.path.insert(0, '/verif')
from harness import common, codec, netgen
common.ensure_repo_on_path()
codec.inject()
import numpy as np
from ethosu.vela import vela, weight_compressor as wc

which = sys.argv[1]
acc = sys.argv[2] if len(sys.argv) > 2 else "ethos-u55-128"
T = []
def t(name, shape, typ, scale=None, zp=None, data=None):
    d = {"name": name, "shape": shape, "type": typ}
    if scale is not None: d["scale"] = scale; d["zp"] = zp or [0]*len(scale)
    if data is not None: d["data"] = data
    T.append(d); return len(T)-1
conv_opts = ["Conv2DOptions", {"Padding": 0, "StrideW": 1, "StrideH": 1, "DilationWFactor": 1, "DilationHFactor": 1, "FusedActivationFunction": 0}]
if which == "bits":
    i8 = t("in8", [1,8,8,16], "INT8", [0.5])
    i16 = t("in16", [1,8,8,16], "INT16", [0.001])
    w = t("w", [32,3,3,16], "INT8", [0.01], data={"rng": 1, "lo": -127, "hi": 127})
    b32 = t("b32", [32], "INT32", [0.005], data={"rng": 2, "lo": -1000, "hi": 1000})
    b64 = t("b64", [32], "INT64", [0.00001], data={"rng": 3, "lo": -1000, "hi": 1000})
    o8 = t("out8", [1,8,8,32], "INT8", [0.25])
    o16 = t("out16", [1,8,8,32], "INT16", [0.002])
    ops = [{"op": "CONV_2D", "inputs": [i8, w, b32], "outputs": [o8], "opts": conv_opts},
           {"op": "CONV_2D", "inputs": [i16, w, b64], "outputs": [o16], "opts": conv_opts}]
    net = {"tensors": T, "ops": ops, "inputs": [i8, i16], "outputs": [o8, o16]}
elif which == "flip":
    i8 = t("in8", [1,8,8,16], "INT8", [0.5])
    i8b = t("in8b", [1,8,8,16], "INT8", [0.5])
    w = t("w", [16,3,3,16], "INT8", [0.01], data={"rng": 1, "lo": -127, "hi": 127})
    b32 = t("b32", [16], "INT32", [0.005], data={"rng": 2, "lo": -1000, "hi": 1000})
    b32b = t("b32b", [16], "INT32", [0.005], data={"rng": 5, "lo": -1000, "hi": 1000})
    oshape = t("oshape", [4], "INT32", data=[1,8,8,16])
    o8 = t("out8", [1,8,8,16], "INT8", [0.25])
    o8b = t("out8b", [1,8,8,16], "INT8", [0.25])
    ops = [{"op": "CONV_2D", "inputs": [i8, w, b32], "outputs": [o8], "opts": conv_opts},
           {"op": "TRANSPOSE_CONV", "inputs": [oshape, w, i8b, b32b], "outputs": [o8b], "version": 3,
            "opts": ["TransposeConvOptions", {"Padding": 0, "StrideW": 1, "StrideH": 1}]}]
    net = {"tensors": T, "ops": ops, "inputs": [i8, i8b], "outputs": [o8, o8b]}
elif which in ("mean2", "mean1"):
    n = netgen.Net(7)
    x = n.fm("in", [1, 3, 3, 16], is_input=True)
    y = n.mean(x)
    outs = [y]
    if which == "mean2":
        x2 = n.fm("in2", [1, 9, 1, 16], is_input=True)
        y2 = n.mean(x2)
        outs.append(y2)
    net = n.desc(outs)
log = []
orig = wc.encode_weight_and_scale_tensor
def dig(wt):
    h = hashlib.sha256()
    for k, r in wt.encoded_ranges.items():
        h.update(bytes(wt.buffer[r.offset + r.weight_offset: r.offset + r.weight_offset + r.weight_bytes]))
    return h.hexdigest()[:12]
def wrapped(arch, op, weight_tens, scale_tens, kernel, block_config, depth_offsets):
    cache = wc.CompressedWeightCache.cache
    before = dict(cache)
    wt, st = orig(arch, op, weight_tens, scale_tens, kernel, block_config, depth_offsets)
    hit = any(wt is v for v in before.values())
    rec = {"op": op.name, "type": str(op.type), "ifm": str(op.inputs[0].dtype), "wshape": list(weight_tens.shape), "vid": str(weight_tens.value_id)[:8], "acc": str(arch.accelerator_config), "hit": hit,
           "scales_only": st is not None, "blk": block_config.ofm_block.depth, "slices": list(depth_offsets), "trav": str(wt.hw_traversal), "cached": dig(wt)}
    if hit:
        saved = dict(cache); cache.clear()
        fwt, fst = orig(arch, op, weight_tens, scale_tens, kernel, block_config, depth_offsets)
        rec["fresh"] = dig(fwt); rec["fresh_trav"] = str(fwt.hw_traversal)
        cache.clear(); cache.update(saved)
    log.append(rec)
    return wt, st
wc.encode_weight_and_scale_tensor = wrapped
d = tempfile.mkdtemp(dir="/var/tmp")
try:
    mp = os.path.join(d, "m.tflite")
    open(mp, "wb").write(netgen.build(net))
    accs = acc.split(",")
    for a in accs:
        try:
            rc = vela.main([mp, "--output-dir", d, "--accelerator-config", a])
        except SystemExit as e:
            rc = e.code
        print("compile", a, "rc", rc)
finally:
    shutil.rmtree(d, ignore_errors=True)
for r in log:
    flag = ""
    if r["hit"] and r["cached"] != r["fresh"]: flag = "   <<<<< STALE HIT: cached bytes != fresh encoding"
    print(json.dumps(r, default=str), flag)
