"""Drive the REAL tensor allocators of the working tree (C05) and turn each call into one trace record.

Nothing here decides the property: a record says what was asked (live ranges, limits) and what came
back (addresses, total, iteration counters, exception); AllocTrace.tla judges it.

A range is a 5-tuple (start, end, size, alignment, eq).  eq > 0 (linear allocator only) marks ranges the
caller declares equivalent: classes 1..2 = equal weight_compression_config (the two configurations are
chosen so that their *hashes* collide although they are unequal), class 3 = clones of one look-up table.

Observation without source hooks: HillClimbAllocator.attempt_bottleneck_fix / allocate_indices are
wrapped as class attributes at run time (iteration and improvement counters); the address list returned by
hillclimb_allocation.allocate_live_ranges is captured by wrapping the module attribute through which
tensor_allocation reaches it.
"""
import json
import random

from . import common

class IterationBoundExceeded(Exception):
    """raised by the observation wrapper when the hill-climb search runs past its termination bound"""


_state = {"ready": False, "iters": 0, "impr": 0, "raw": None, "min_improve": 500, "steps": None}


def setup():
    if _state["ready"]:
        return _state
    common.ensure_repo_on_path()
    from ethosu.vela import hillclimb_allocation as H
    cls = H.HillClimbAllocator
    orig_fix = cls.attempt_bottleneck_fix
    orig_ai = cls.allocate_indices
    orig_alloc = H.allocate_live_ranges

    def fix(self, indices, *a, **k):
        _state["iters"] += 1
        # watchdog: the search loop runs while (best > limit and i < max_iterations) or (i - last improvement < MIN_ITERATIONS_
        # IMPROVE); every improvement strictly lowers best_size, so i can never exceed max_iterations + MIN_ITERATIONS_IMPROVE *
        # (improvements + 1).  Far beyond that bound the run is cut off and recorded as an exception of the allocator: the
        # Terminates clause of Alloc.tla decides (a search that never ends must become a verdict, not a hanging check)
        bound = int(self.max_iterations) + _state["min_improve"] * (_state["impr"] + 2) + 1000
        if _state["iters"] > bound:
            raise IterationBoundExceeded("hill climb still searching after %d iterations (bound %d = max_iterations %d + "
                                         "MIN_ITERATIONS_IMPROVE x (improvements %d + 2) + 1000)" % (
                                             _state["iters"], bound, int(self.max_iterations), _state["impr"]))
        steps = _state["steps"]
        if steps is None:
            return orig_fix(self, indices, *a, **k)
        try:
            r = orig_fix(self, indices, *a, **k)
        except Exception:
            steps.append(("raise",))
            raise
        steps.append(("fix", [i + 1 for i in indices]))
        return r

    def ai(self, indices, *a, **k):
        before = self.best_size
        r = orig_ai(self, indices, *a, **k)
        if before < (1 << 62) and r < before:
            _state["impr"] += 1
        if _state["steps"] is not None:
            _state["steps"].append(("alloc", [i + 1 for i in indices], int(r)))
        return r

    def alloc(lrs, max_iterations, memory_limit):
        r = orig_alloc(lrs, max_iterations, memory_limit)
        _state["raw"] = list(r)
        return r

    cls.attempt_bottleneck_fix = fix
    cls.allocate_indices = ai
    H.allocate_live_ranges = alloc
    _state["min_improve"] = int(cls.MIN_ITERATIONS_IMPROVE)
    _state["max_stuck"] = int(cls.MAX_ITERATIONS_STUCK)
    _state["default_maxit"] = int(cls.MAX_ITERATIONS)
    _state["ready"] = True
    return _state


def _reset():
    from ethosu.vela.tensor import TensorAddressMap
    TensorAddressMap.address_map.clear()
    _state["iters"] = 0
    _state["impr"] = 0
    _state["raw"] = None


def _cpu_op():
    class _Op:
        run_on_npu = False
    return _Op()


def build_graph(ranges):
    """LiveRangeGraph with one LiveRange per range, each holding one real Tensor.  As in the compiler, the
    granularity handed to verify_alignment is the largest alignment and only ranges created with it belong to
    CPU tensors (a consumer that does not run on the NPU), the others to NPU tensors."""
    from ethosu.vela.data_type import DataType
    from ethosu.vela.live_range import LiveRange, LiveRangeGraph
    from ethosu.vela.tensor import MemArea, MemType, Tensor, TensorPurpose
    from ethosu.vela.weight_compressor import NpuWeightTensor, ScaleCompressionConfig, WeightCompressionConfig
    g = LiveRangeGraph()
    lut_src = None
    tensors = []
    gran = max(r[3] for r in ranges)
    for i, (s, e, size, al, eq) in enumerate(ranges):
        name = "r%04d" % i
        if eq in (1, 2):
            t = NpuWeightTensor(name)
            # hash((.., -1)) == hash((.., -2)) in CPython: unequal configurations with equal hashes
            # built by field name so that further key fields of the working tree's namedtuple get a neutral default
            vals = {"npu_block_type": 0, "ofm_block_depth": 16, "ofm_depth_step": 16, "dilation": (1, 1), "weight_value_id": -eq}
            t.weight_compression_config = WeightCompressionConfig(*[vals.get(f, 0) for f in WeightCompressionConfig._fields])
            t.scale_compression_config = ScaleCompressionConfig(7, 1.0, 1.0)
            t.name = name
        elif eq == 3:
            if lut_src is None:
                t = Tensor([size], DataType.int8, name)
                t.purpose = TensorPurpose.LUT
                lut_src = t
            else:
                t = lut_src.clone("")
                t.name = name
        else:
            t = Tensor([size], DataType.int8, name)
            t.purpose = TensorPurpose.FeatureMap
        t.mem_area = MemArea.Sram
        t.mem_type = MemType.Scratch
        if al == gran:
            t.consumer_list = [_cpu_op()]
        lr = LiveRange(None, al)
        lr.tensors.append(t)
        lr.name = name
        lr.start_time, lr.end_time, lr.size = s, e, size
        lr.mem_area = t.mem_area
        g.lrs.append(lr)
        g.ranges[t] = lr
        tensors.append(t)
    return g, tensors


def _exc(ex):
    import traceback
    tb = traceback.extract_tb(ex.__traceback__)
    site = ""
    for fr in reversed(tb):
        if "/ethosu/" in fr.filename:
            site = fr.name
            break
    msg = str(ex).splitlines()[0][:100] if str(ex) else ""
    return "%s: %s @ %s" % (type(ex).__name__, msg, site)


def _addresses(tensors):
    out = []
    for t in tensors:
        a = t.address
        if a is None:
            return []
        out.append(int(a))
    return out


def call(alg, ranges, maxit=None, limit=0, rec_id=0, drift=False):
    """One call of a real allocator -> one trace record (all numbers < 2^31)."""
    st = setup()
    from ethosu.vela import greedy_allocation, tensor_allocation
    _reset()
    ranges = [tuple(r) for r in ranges]
    g, tensors = build_graph(ranges)
    gran = max(r[3] for r in ranges)
    rec = {"t": rec_id, "alg": alg, "r": [list(r) for r in ranges], "addr": [], "total": -1, "iters": 0, "impr": 0,
           "maxit": 0, "minimp": st["min_improve"], "raised": "", "drift": bool(drift)}
    try:
        if alg == "greedy":
            total = greedy_allocation.allocate_live_ranges(g, gran)
        elif alg == "linear":
            total = tensor_allocation.linear_allocate_live_ranges(g, gran)
        elif alg == "hillclimb":
            rec["maxit"] = st["default_maxit"] if maxit is None else maxit
            total = tensor_allocation.hillclimb_allocate_live_ranges(g, gran, maxit, limit)
        else:
            raise ValueError(alg)
        rec["total"] = int(total)
        rec["addr"] = _addresses(tensors)
    except Exception as ex:          # an exception of the allocator is an observation (Terminates), not machinery
        rec["raised"] = _exc(ex)
        raw = st["raw"]
        rec["addr"] = [int(a) for a in raw] if raw is not None and len(raw) == len(ranges) else _addresses_safe(tensors)
    rec["iters"] = st["iters"]
    rec["impr"] = st["impr"]
    if alg == "hillclimb":
        rec["limit"] = limit
    return rec


def _addresses_safe(tensors):
    try:
        return _addresses(tensors)
    except Exception:
        return []


def step_trace(ranges, maxit, limit, tid):
    """Events of one real hill-climb run for AllocHillClimbTrace.tla (conformance of the transcription)."""
    st = setup()
    from ethosu.vela import hillclimb_allocation
    _reset()
    ranges = [tuple(r) for r in ranges]
    g, _ = build_graph(ranges)
    st["steps"] = []
    addr, raised = [], False
    try:
        addr = [int(a) for a in hillclimb_allocation.allocate_live_ranges(g.lrs, maxit, limit)]
    except Exception:
        raised = True
    steps, st["steps"] = st["steps"], None
    ev = []
    mx = st["default_maxit"] if maxit is None else maxit
    for i, s in enumerate(steps):
        if i == 0:
            ev.append({"t": tid, "ev": "start", "r": [list(r) for r in ranges], "maxit": mx, "limit": limit,
                       "ind": s[1], "size": s[2]})
        elif s[0] == "alloc":
            ev.append({"t": tid, "ev": "iter", "ind": s[1], "size": s[2]})
        elif s[0] == "raise":
            ev.append({"t": tid, "ev": "raise"})
    if not raised:
        ev.append({"t": tid, "ev": "end", "addr": addr, "iters": st["iters"]})
    return ev


# ------------------------------------------------------------------ tensor_allocation.allocate end to end
class _Sg:
    def __init__(self):
        self.cascaded_passes = []
        self.output_tensors = []


class _Ps:
    ops = []


class _Cps:
    def __init__(self):
        self.inputs, self.intermediates, self.outputs = [], [], []
        self.passes = [_Ps()]
        self.time = 0


class _Arch:
    def __init__(self, limit):
        self.limit = limit

    def mem_type_size(self, mem_type):
        return self.limit


class _NpuOpInfo:
    def __init__(self):
        self.cascade = 0
        self.buffered_weight_tensors = []
        self.ofm_depth_slices = [0, 1]
        self.time_index = 0


class _Schedule:
    def __init__(self):
        self.cost_map = {}
        self.cascades = {}


class _CallOp:
    """The operator of a CPU cascaded pass that calls an NPU subgraph (Op.CustomNpuOp with attrs['subgraph'])."""
    run_on_npu = True

    def __init__(self, sg):
        from ethosu.vela.operation import Op
        self.type = Op.CustomNpuOp
        self.attrs = {"subgraph": sg}


class _NpuOp:
    run_on_npu = True
    memory_function = None


def uses_to_graph(uses):
    """The single-subgraph form (first pass, last pass, size per tensor) as a graph description."""
    n = 1 + max(u[1] for u in uses)
    passes = [{"in": [], "mid": [], "out": [], "npu": None} for _ in range(n)]
    for i, (first, last, size) in enumerate(uses):
        passes[first]["out" if i % 3 else "mid"].append(i)
        if last != first:
            passes[last]["in"].append(i)
    return {"sizes": [u[2] for u in uses], "passes": passes, "outputs": [], "cpu": [i for i in range(len(uses)) if i % 2 == 0]}


def requested_alignment(graph, alignment):
    """Per tensor, the MAXIMUM alignment any part of the compiler requests for its live range: cpu_tensor_alignment
    wherever the tensor is visible in the CPU subgraph (inputs / intermediates / outputs of a cascaded pass, graph
    outputs), Tensor.AllocationQuantum (16) for the look-ups of the NPU subgraphs.  Computed from the description
    of the synthetic graph, never read back from the code under test."""
    req = {}
    for ps in graph["passes"]:
        for t in ps["in"] + ps["mid"] + ps["out"]:
            req[t] = max(req.get(t, 0), alignment)
        for op in ps["npu"] or []:
            for t in op["in"] + op["out"]:
                req[t] = max(req.get(t, 0), 16)
    for t in graph["outputs"]:
        req[t] = max(req.get(t, 0), alignment)
    return req


def call_e2e(allocator, uses, alignment, maxit=None, limit=0, rec_id=0):
    rec = call_e2e_graph(allocator, uses_to_graph(uses), alignment, maxit, limit, rec_id)
    rec["uses"] = [list(u) for u in uses]
    del rec["graph"]
    return rec


def call_e2e_graph(allocator, graph, alignment, maxit=None, limit=0, rec_id=0):
    """tensor_allocation.allocate on a synthetic network: a CPU subgraph (cascaded passes) some of whose passes call
    an NPU subgraph (scheduled operators).  graph = {sizes, passes: [{in, mid, out, npu: None | [{in, out}, ..]}],
    outputs, cpu: tensors with a consumer that does not run on the NPU}.  Inputs of an NPU subgraph are requested
    first by the CPU side (cpu_tensor_alignment) and then looked up by the NPU side (16); its outputs the other way
    round.  The live ranges (times, sizes) are whatever live_range.py makes of it; the alignment each range has to
    honour is requested_alignment()."""
    st = setup()
    from ethosu.vela import tensor_allocation
    from ethosu.vela.data_type import DataType
    from ethosu.vela.nn_graph import TensorAllocator
    from ethosu.vela.operation import Op
    from ethosu.vela.tensor import MemArea, MemType, Tensor, TensorPurpose
    _reset()
    tensors = []
    for i, size in enumerate(graph["sizes"]):
        t = Tensor([size], DataType.int8, "e%04d" % i)
        t.purpose = TensorPurpose.FeatureMap
        t.mem_area = MemArea.Sram
        t.mem_type = MemType.Scratch
        if i in graph["cpu"]:
            t.consumer_list = [_cpu_op()]
        tensors.append(t)

    def build():
        sg = _Sg()
        for ps in graph["passes"]:
            c = _Cps()
            c.inputs = [tensors[i] for i in ps["in"]]
            c.intermediates = [tensors[i] for i in ps["mid"]]
            c.outputs = [tensors[i] for i in ps["out"]]
            if ps["npu"] is not None:
                nsg = _Sg()
                nsg.sched_ops = []
                nsg.schedule = _Schedule()
                for op in ps["npu"]:
                    so = _NpuOp()
                    so.op_type = Op.Conv2DBias
                    so.parent_op = _NpuOp()
                    so.parent_ps = _Cps()
                    so.parent_ps.inputs = [tensors[i] for i in op["in"]]
                    so.parent_ps.outputs = [tensors[i] for i in op["out"]]
                    so.parent_ps.ifm_tensor = so.parent_ps.inputs[0] if so.parent_ps.inputs else None
                    nsg.sched_ops.append(so)
                    nsg.schedule.cost_map[so] = _NpuOpInfo()
                nsg.output_tensors = [tensors[i] for i in ps["out"]]
                call = _CallOp(nsg)
                c.passes = [_Ps()]
                c.passes[0].ops = [call]
            sg.cascaded_passes.append(c)
        sg.output_tensors = [tensors[i] for i in graph["outputs"]]
        return sg

    sg = build()
    kind = {"greedy": TensorAllocator.Greedy, "linear": TensorAllocator.LinearAlloc,
            "hillclimb": TensorAllocator.HillClimb}[allocator]
    rec = {"t": rec_id, "alg": "e2e-" + allocator, "r": [], "addr": [], "total": -1, "iters": 0, "impr": 0,
           "maxit": (st["default_maxit"] if maxit is None else maxit) if allocator == "hillclimb" else 0,
           "minimp": st["min_improve"], "raised": "", "drift": False, "graph": graph,
           "alignment": alignment, "limit": limit}
    lrs = None
    try:
        lrs, total = tensor_allocation.allocate(sg, _Arch(limit), MemArea.Sram, set((MemType.Scratch,)),
                                                tensor_allocator=kind, cpu_tensor_alignment=alignment,
                                                hillclimb_max_iterations=maxit)
        rec["total"] = int(total)
    except Exception as ex:      # includes AllocationError from verify_alignment / verify_allocation: an observation
        rec["raised"] = _exc(ex)
    # describe the ranges the allocator worked on (extracted once more from a fresh copy of the graph if the call raised)
    if lrs is None:
        from ethosu.vela import live_range
        lrs = live_range.extract_live_ranges_from_cascaded_passes(build(), MemArea.Sram, set((MemType.Scratch,)),
                                                                   cpu_tensor_alignment=alignment)
    req = requested_alignment(graph, alignment)
    index = {id(t): i for i, t in enumerate(tensors)}
    rec["r"] = []
    for lr in lrs.lrs:
        al = max(req[index[id(t)]] for t in lr.tensors)
        if allocator == "linear":
            al = max(al, alignment)          # LinearAlloc: the requested alignment is the granularity argument
        rec["r"].append([int(lr.start_time), int(lr.end_time), int(lr.size), int(al), 0])
    try:
        rec["addr"] = _addresses([lr.tensors[0] for lr in lrs.lrs])
    except Exception:
        rec["addr"] = []
    if rec["raised"] and st["raw"] is not None and len(st["raw"]) == len(rec["r"]):
        rec["addr"] = [int(a) for a in st["raw"]]
    rec["iters"] = st["iters"]
    rec["impr"] = st["impr"]
    return rec


def random_graph(rng: random.Random, npasses, small):
    """A chain of CPU cascaded passes, about half of which call an NPU subgraph of 1-3 operators.  Tensors produced by
    earlier passes (or graph inputs) feed later ones; sizes deliberately include values that are not multiples of the
    larger alignments so that a range only lands on an aligned address if the allocator aligns it."""
    sizes, passes, cpu = [], [], []

    def new(is_cpu):
        sizes.append(rng.choice((16, 16, 48, 80, rng.randrange(1, 400))) if small else
                     rng.choice((rng.randrange(1, 300), 16 * rng.randrange(1, 64), rng.randrange(1, 1 << 16))))
        if is_cpu:
            cpu.append(len(sizes) - 1)
        return len(sizes) - 1

    avail = [new(rng.random() < 0.5) for _ in range(rng.randrange(1, 4))]          # graph inputs
    for _ in range(npasses):
        ins = rng.sample(avail, rng.randrange(1, min(3, len(avail)) + 1))
        if rng.random() < 0.55:
            outs = [new(rng.random() < 0.7) for _ in range(rng.randrange(1, 3))]
            ops, cur = [], list(ins)
            for k in range(rng.randrange(1, 4)):
                last = k == 0 and rng.random() < 0.4
                if last:
                    ops.append({"in": cur, "out": outs})
                    break
                mid = [new(False) for _ in range(rng.randrange(1, 3))]               # NPU-internal
                ops.append({"in": cur, "out": mid})
                cur = mid + ([rng.choice(ins)] if rng.random() < 0.3 else [])
            else:
                ops.append({"in": cur, "out": outs})
            passes.append({"in": ins, "mid": [], "out": outs, "npu": ops})
        else:
            outs = [new(True) for _ in range(rng.randrange(1, 3))]
            mid = [new(True)] if rng.random() < 0.3 else []
            passes.append({"in": ins, "mid": mid, "out": outs, "npu": None})
        avail += outs
        if len(avail) > 6:
            avail = avail[-6:]
    outputs = rng.sample(avail, rng.randrange(1, min(2, len(avail)) + 1))
    return {"sizes": sizes, "passes": passes, "outputs": outputs, "cpu": cpu}


# ------------------------------------------------------------------ jobs (run in worker processes)
def run_job(job):
    kind = job[0]
    if kind == "direct":
        _, alg, ranges, maxit, limit, rid, drift = job
        return call(alg, ranges, maxit, limit, rid, drift)
    if kind == "steps":
        _, ranges, maxit, limit, tid = job
        return step_trace(ranges, maxit, limit, tid)
    if kind == "e2e":
        _, alg, uses, alignment, maxit, limit, rid = job
        return call_e2e(alg, uses, alignment, maxit, limit, rid)
    if kind == "e2eg":
        _, alg, graph, alignment, maxit, limit, rid = job
        return call_e2e_graph(alg, json.loads(graph), alignment, maxit, limit, rid)
    raise ValueError(kind)


def run_jobs(jobs):
    return [run_job(j) for j in jobs]


def peak(ranges):
    ev = {}
    for s, e, size, _, _ in ranges:
        ev[s] = ev.get(s, 0) + size
        ev[e + 1] = ev.get(e + 1, 0) - size
    cur = best = 0
    for t in sorted(ev):
        cur += ev[t]
        best = max(best, cur)
    return best


def random_ranges(rng: random.Random, n, tmax, size_kind, aligns):
    out = []
    for _ in range(n):
        s = rng.randrange(tmax)
        e = min(tmax - 1, s + (rng.randrange(1 + tmax // 4) if rng.random() < 0.8 else rng.randrange(tmax)))
        if size_kind == "lattice":
            size = rng.choice((16, 32, 48, 80))
        elif size_kind == "odd":
            size = rng.randrange(1, 4096)
        else:
            size = rng.choice((rng.randrange(1, 1 << 20), 16 * rng.randrange(1, 1 << 16), 1 << rng.randrange(4, 21)))
        out.append((s, e, size, rng.choice(aligns), 0))
    return out
